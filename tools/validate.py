#!/opt/veriftools/pyvenv/bin/python
import json, jsonschema, glob, sys, os
ROOT = os.path.dirname(os.path.dirname(os.path.abspath(__file__)))
jsonschema.validate(json.load(open(f'{ROOT}/MANIFEST.json')), json.load(open('/root/.vp/MANIFEST.schema.json')))
es = json.load(open('/root/.vp/EVIDENCE.schema.json'))
bad = 0
for f in sorted(glob.glob(f'{ROOT}/evidence/C*.json')):
    try:
        jsonschema.validate(json.load(open(f)), es)
    except Exception as e:
        bad += 1; print('INVALID', f, str(e)[:300])
print('manifest ok; evidence files:', len(glob.glob(f'{ROOT}/evidence/C*.json')), 'invalid:', bad)
sys.exit(1 if bad else 0)
