#!/bin/bash
# Confirm a seeded change in its scratch worktree: the demonstration fails with the
# patch and passes without it.  usage: tools/seed_confirm.sh Cxx   (worktree /tmp/seed-Cxx)
P=$1; W=/tmp/seed-$P; cd $W || exit 2
CMD=$(python3 -c "import json;print(json.load(open('$W/out/meta.json'))['demo_cmd'])")
export CARGO_TARGET_DIR=$W/target CARGO_NET_OFFLINE=true
git apply --check -R out/patch.diff 2>/dev/null || git apply out/patch.diff   # make sure the patch is applied
echo "## with patch: $CMD"; eval "$CMD" 2>&1 | grep -E "^test result|panicked|FAILED" | head -6
git apply -R out/patch.diff
echo "## without patch"; eval "$CMD" 2>&1 | grep -E "^test result|panicked|FAILED" | head -6
git apply out/patch.diff
