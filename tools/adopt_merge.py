#!/usr/bin/env python3
"""Merge /tmp/adopt/<Cxx>.json (output of tools/adopt.py, reviewed) into known_findings.json
with a root-cause label chosen by the first matching rule in RULES[Cxx]."""
import json, sys, re
RULES = {
 "C04": [(r"Bit\(|Neg\(Bit|BIT_XOR|guar:1\b|guar:10|guar:12", "arithmetic Negative treated as bitwise NOT by the simplifier (is_negative_of rules / distribute_negation)", "datafusion/optimizer/src/simplify_expressions/{expr_simplifier.rs,utils.rs}", "existing unit tests assert the wrong values, so a repair would have to edit them"),
         (r"TryCast|TRY_CAST", "comparison cast-unwrapping applied to TRY_CAST", "datafusion/optimizer/src/simplify_expressions/unwrap_cast.rs (+ physical simplifier)", "existing unit tests use try_cast on fallible casts"),
         (r"AndOr\(In|AndOr\(Not,Regex|NOT IN| IN \(", "IN-list set algebra in the simplifier ignores NULL", "datafusion/optimizer/src/simplify_expressions/expr_simplifier.rs (inlist_intersection / inlist_except)", "existing unit tests / plan expectations pin the current rewrite"),
         (r"^ref\||IN \(1\.5, 0\.0\)", "float IN lists compare by bits (-0.0 vs 0.0) while '=' normalises signed zero", "datafusion/physical-expr/src/expressions/in_list", "unit tests pin bit comparison")],
 "C38": [(r"IS NOT DISTINCT FROM", "the unparser renders a null-equal join (IS NOT DISTINCT FROM keys) with `=`", "datafusion/sql/src/unparser/plan.rs (join constraints ignore NullEquality)", "not attempted in this session"),
         (r"UNION", "the unparser flattens nested UNION / UNION ALL (or renders EXCEPT/INTERSECT ALL inputs) losing the inner set quantifier / producing unparseable text", "datafusion/sql/src/unparser/plan.rs (Union / Distinct handling)", "not attempted in this session"),
         (r"IS TRUE", "the unparser drops the parentheses of `(NOT x) IS TRUE` (operator precedence of IS TRUE/IS FALSE over NOT)", "datafusion/sql/src/unparser/expr.rs", "not attempted in this session"),
         (r".*", "unparser output is invalid SQL, does not parse in the target dialect, or is not equivalent to the plan (thorough-tier grammar)", "datafusion/sql/src/unparser", "not attempted in this session")],
 "C41": [(r"join_on", "EXECUTE of a prepared statement with a NULL argument inside a join condition (`JOIN u ON (t.a + $1) = u.a`, EXECUTE p(NULL)) returns the cross product instead of no rows (reproduced with datafusion-cli)", "PREPARE/EXECUTE path: datafusion/core/src/execution/context (execute_prepared) + optimizer handling of the substituted NULL in join keys", "found in the last hours by the thorough tier; not attempted"),
         (r"win:", "a placeholder shared by two window-function arguments (ntile($1), nth_value(b, $1)) is refused at execution (`only support Literal types`) although each alone works", "datafusion/expr/src/expr_rewriter / window function argument literal check after parameter substitution", "found in the last hours by the thorough tier; not attempted"),
         (r".*", "a placeholder used at two positions of a prepared statement binds inconsistently: `coalesce(nullif(a,$1),b)` in GROUP BY and select list, or `(a = $1)` next to `a NOT IN ($1, NULL)` with a declared BIGINT parameter over an INT column, return rows different from the literal query (reproduced with datafusion-cli: PREPARE p(BIGINT) AS SELECT (a = $1) IS TRUE ...; EXECUTE p(1) gives TRUE for every row)", "PREPARE/EXECUTE path: parameter type inference / substitution (LogicalPlan::with_param_values, Expr::infer_placeholder_types)", "found in the last hours by the thorough tier; not attempted")],
 "C33": [(r".*", "float IN lists and CASE literal lookup compare by bits (-0.0 vs 0.0) while '=' normalises signed zero", "datafusion/physical-expr/src/expressions/{in_list,case}", "unit tests pin bit comparison")],
 "C47": [(r"Timestamp", "timestamp literal narrowing in try_cast_literal_to_type truncates (CAST(x AS Timestamp(ms)) = -1ms becomes x = 0s)", "datafusion/expr-common/src/casts.rs", "documented as allowed; tests pin truncation"),
         (r".*", "float IN compares by bits (-0.0 vs 0.0) while '=' normalises signed zero", "datafusion/physical-expr/src/expressions/in_list", "unit tests pin bit comparison")],
 "C23": [(r"float", "float absorption / underflow in inverse propagation (propagate_arithmetic assumes exact real arithmetic)", "datafusion/physical-expr/src/intervals/cp_solver.rs", "inherent to un-widened inverse operations; low severity"),
         (r".*", "Timestamp - IntervalDayTime/Duration at the i64 extremes: an out-of-range intermediate is reported as overflow and handle_overflow guesses the direction", "datafusion/expr-common/src/interval_arithmetic.rs handle_overflow", "edge of the representable timestamp range")],
}
def merge(pid, default=None):
    k = json.load(open('/verif/known_findings.json'))
    have = {(e['property'], e['key']) for e in k['known']}
    n = 0
    for e in json.load(open(f'/tmp/adopt/{pid}.json')):
        if (pid, e['key']) in have: continue
        rule = None
        for pat, cause, where, why in RULES.get(pid, []) + ([default] if default else []):
            if re.search(pat, e['key'] + ' ' + e['what']):
                rule = (cause, where, why); break
        if not rule:
            print("NO RULE for", pid, e['key'][:100]); continue
        k['known'].append({"property": pid, "key": e['key'], "what": f"[{rule[0]}] " + e['what'].replace('\n', ' ')[:500], "where": rule[1], "status": "recorded; not repaired: " + rule[2]})
        n += 1
    json.dump(k, open('/verif/known_findings.json', 'w'), indent=1)
    print(pid, "added", n)
if __name__ == "__main__":
    # usage: adopt_merge.py Cxx [Cyy ...]   or   adopt_merge.py Cxx --default "<cause>" "<where>" "<why not repaired>"
    if "--default" in sys.argv:
        i = sys.argv.index("--default")
        merge(sys.argv[1], (r".*", sys.argv[i+1], sys.argv[i+2], sys.argv[i+3]))
    else:
        for pid in sys.argv[1:]: merge(pid)
