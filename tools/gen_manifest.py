#!/usr/bin/env python3
"""Generate MANIFEST.json from checks.json (claimed checks) and unclaimed.json (reasons)."""
import json, os, subprocess
ROOT = os.path.dirname(os.path.dirname(os.path.abspath(__file__)))
checks = json.load(open(os.path.join(ROOT, "checks.json")))
unclaimed = json.load(open(os.path.join(ROOT, "unclaimed.json")))
props = [json.loads(l)["id"] for l in open(os.path.join(ROOT, "properties.jsonl"))]
hook_commits = subprocess.run(["git", "-C", "/repo", "log", "--format=%H %s", "--grep=^verif hook"],
                              capture_output=True, text=True).stdout.strip().splitlines()
m = {
    "version": 1,
    "setup_cmd": "./check --setup",
    "hooks": {
        "guard": "--cfg datafusion_verif",
        "enable": "RUSTFLAGS='--cfg datafusion_verif' via /verif/.cargo/config.toml ([build] rustflags); checks depend on the /repo crates by path so every build uses /repo's working tree",
        "baseline_off_cmd": "cd /repo && cargo nextest run --workspace --no-fail-fast --tool-config-file pb:/w/lib/nextest.toml --profile pb --test-threads 8 --offline  (fallback: cargo test --workspace --no-fail-fast --offline)  # no RUSTFLAGS: the guard --cfg datafusion_verif is only set by /verif/.cargo/config.toml",
        "source_commits": [l.split()[0] for l in reversed(hook_commits)],
        "add_only": True,
    },
    "engines": [
        {"name": "loomx", "path": "loomx/", "kind_free_text": "loom 0.7.2 DPOR over the real source text of the concurrency cores (sync_sources.py copies it from /repo with audited import rewrites), preemption-bounded, one subprocess per configuration"},
        {"name": "hist", "path": "crates/mc-core/src/explore.rs", "kind_free_text": "explicit-state BFS over operation histories of the real object with canonical-state de-duplication, step-wise comparison with a reference model"},
        {"name": "evt", "path": "crates/chk-plan/src/evt.rs", "kind_free_text": "deviation-bounded DFS over environment events (source batch release, end of input, injected fault, output poll/drop) of a real physical plan on a paused single-threaded tokio runtime with exact quiescence detection"},
        {"name": "enum", "path": "crates/mc-core/src/enumerate.rs", "kind_free_text": "bounded-exhaustive input/program enumeration against an independent reference"},
    ],
    "checks": [],
    "not_applicable": [],
    "notes": "Single entry point ./check <id> [--tier quick|thorough] [--replay FILE] (a property may have several parts whose evidence is merged). Exit 2 = machinery error (never a verdict). known_findings.json: `known` = recorded genuine defects keyed by failing case / root-cause class (printed as KNOWN-FINDING lines), `fixed` = repaired by fix: commits in /repo (suppresses nothing). findings/README.md describes every defect, DETECTION.md the detection demonstrations (planted mutants, independently seeded changes under seeded/), DESIGN.md section 0 what was built. tools/final_run.sh = setup + every quick check + manifest + schema validation.",
}
for e in m["engines"]:
    e["serves_properties"] = sorted(p for p, c in checks.items() if c.get("engine") == e["name"])
for pid in props:
    if pid in checks:
        c = checks[pid]
        m["checks"].append({
            "property_id": pid,
            "quick_cmd": f"./check {pid} --tier quick",
            "thorough_cmd": f"./check {pid} --tier thorough",
            "evidence_file": f"evidence/{pid}.json",
            "replay_cmd_template": f"./check {pid} --replay {{path}}",
            "engine": c.get("engine", "enum"),
            "level_claimed": {"category": c["level"], "text": c["level_text"], "design_ref": c.get("design_ref", "DESIGN.md")},
            "level_note": c["level_note"],
            "technique": c["technique"],
        })
    else:
        m["not_applicable"].append({"property_id": pid, "reason": unclaimed.get(pid, unclaimed["_default"])})
json.dump(m, open(os.path.join(ROOT, "MANIFEST.json"), "w"), indent=1)
print(f"claimed {len(m['checks'])}, not claimed {len(m['not_applicable'])}")
