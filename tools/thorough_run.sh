#!/bin/bash
# Run every thorough command once on the current /repo tree (per-check wall cap $CAP seconds, default 3600);
# prints a table (id, exit code, seconds). Thorough evidence copies are kept under evidence_thorough/.
cd /verif
CAP=${CAP:-3600}
mkdir -p evidence_thorough /var/tmp/thorough_logs
ids=${@:-$(python3 -c "import json;print(' '.join(sorted(json.load(open('checks.json')))))")}
for p in $ids; do
  cp evidence/$p.json /var/tmp/thorough_logs/$p.quick.json 2>/dev/null
  s=$(date +%s); timeout $CAP ./check $p --tier thorough > /var/tmp/thorough_logs/$p.log 2>&1; rc=$?; e=$(date +%s)
  echo "$p exit=$rc $((e-s))s $(grep -c KNOWN-FINDING /var/tmp/thorough_logs/$p.log) known $(grep -c '^VIOLATION' /var/tmp/thorough_logs/$p.log) viol $(grep -E "^$p" /var/tmp/thorough_logs/$p.log | tail -1 | cut -c1-150)"
  [ $rc -eq 0 ] && cp evidence/$p.json evidence_thorough/$p.json
  cp /var/tmp/thorough_logs/$p.quick.json evidence/$p.json 2>/dev/null
done
