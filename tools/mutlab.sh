#!/bin/bash
# Mutation lab: run a check against a patched COPY of the repository without touching /repo.
#   tools/mutlab.sh <patch.diff> <Cxx> [--tier quick]      (patch paths relative to the repo root)
# The lab lives in /var/tmp/mutlab/{repo,verif}; /verif sources are re-synced on every call,
# path dependencies are rewritten to the lab's repo copy, the patch is applied, the check is
# run, and the patch is reverted.
set -u
LAB=/var/tmp/mutlab
PATCH=$(realpath "$1"); shift
mkdir -p $LAB
rsync -a --exclude target --exclude .git /repo/ $LAB/repo/ --delete --exclude target >/dev/null
rsync -a --exclude target --exclude 'loomx/target' --exclude .git --exclude replays --exclude evidence /verif/ $LAB/verif/ >/dev/null
cd $LAB/verif
sed -i 's|"/repo/|"/var/tmp/mutlab/repo/|g' Cargo.toml loomx/Cargo.toml
sed -i 's|/verif/target|/var/tmp/mutlab/verif/target|' .cargo/config.toml
sed -i 's|/verif/loomx/target|/var/tmp/mutlab/verif/loomx/target|' loomx/.cargo/config.toml
( cd $LAB/repo && patch -p1 --no-backup-if-mismatch < "$PATCH" ) || { echo "MUTLAB: patch does not apply"; exit 3; }
VERIF_REPO=$LAB/repo VERIF_ROOT=$LAB/verif ./check "$@"
rc=$?
echo "MUTLAB: check exit code $rc"
exit $rc
