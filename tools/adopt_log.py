#!/usr/bin/env python3
"""Collect the violations a check run printed (a saved log of ./check) into /tmp/adopt/<Cxx>.json
for review; tools/adopt_merge.py then merges the reviewed file into known_findings.json.
The checks themselves never write known_findings.json.
usage: tools/adopt_log.py <Cxx> <log> """
import json, sys, re, os
pid, log = sys.argv[1], sys.argv[2]
ents = []
for l in open(log):
    m = re.match(r"VIOLATION property=(\S+) replay=(\S+)", l)
    if m:
        j = json.load(open(m.group(2)))
        ents.append({"property": pid, "key": j["key"], "what": j["what"][:600]})
os.makedirs('/tmp/adopt', exist_ok=True)
json.dump(ents, open(f'/tmp/adopt/{pid}.json', 'w'), indent=1)
for e in ents: print(e['key'][:160], '::', e['what'][:260])
