#!/bin/bash
# Build every registered check and run every quick command once on the current /repo tree;
# prints a table (id, exit code, seconds) - every line must be exit 0.
cd /verif
./check --setup > /tmp/final_setup.log 2>&1 || { echo "SETUP FAILED"; tail -20 /tmp/final_setup.log; exit 2; }
for p in $(python3 -c "import json;print(' '.join(sorted(json.load(open('checks.json')))))"); do
  s=$(date +%s); ./check $p --tier quick > /tmp/final_$p.log 2>&1; rc=$?; e=$(date +%s)
  echo "$p exit=$rc $((e-s))s $(grep -c KNOWN-FINDING /tmp/final_$p.log) known $(grep -E "^$p" /tmp/final_$p.log | tail -1 | cut -c1-150)"
done
python3 tools/gen_manifest.py; tools/validate.py | tail -3
