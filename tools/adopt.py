#!/usr/bin/env python3
"""Run a check binary and print known_findings entries for the violations it reports
(to be reviewed and pasted by hand - the checks never write known_findings.json).
usage: tools/adopt.py <Cxx> <binary> [extra args] """
import json, subprocess, sys, re
pid, binary = sys.argv[1], sys.argv[2]
out = subprocess.run([f"/verif/target/verif/{binary}", "--tier", "quick"] + sys.argv[3:], capture_output=True, text=True, cwd="/verif")
ents = []
for l in out.stdout.splitlines():
    m = re.match(r"VIOLATION property=(\S+) replay=(\S+)", l)
    if m:
        j = json.load(open(m.group(2)))
        ents.append({"property": pid, "key": j["key"], "what": j["what"][:600]})
print(json.dumps(ents, indent=1))
