//! shared helpers for the chk-tools checks
use mc_core::Ctx;
use serde::Serialize;
use std::collections::BTreeMap;
use std::sync::Mutex;

/// Collects diverging cases grouped by a `class` string and keeps, per class,
/// the smallest one (by `(size, case JSON)`), so that the set of reported
/// violations is small and deterministic even when a defect makes thousands
/// of enumerated cases fail and the exploration order is parallel.
pub struct Findings {
    map: Mutex<BTreeMap<String, Entry>>,
}

struct Entry {
    size: usize,
    json: String,
    what: String,
    count: u64,
}

impl Default for Findings {
    fn default() -> Self {
        Findings { map: Mutex::new(BTreeMap::new()) }
    }
}

impl Findings {
    pub fn new() -> Self {
        Self::default()
    }
    pub fn classes(&self) -> usize {
        self.map.lock().unwrap().len()
    }
    /// Too many classes: something is badly broken, stop exploring.
    pub fn overflow(&self) -> bool {
        self.classes() > 40
    }
    pub fn report<C: Serialize>(&self, class: &str, size: usize, what: impl Into<String>, case: &C) {
        let json = serde_json::to_string(case).unwrap();
        let mut m = self.map.lock().unwrap();
        match m.get_mut(class) {
            Some(e) => {
                e.count += 1;
                if (size, &json) < (e.size, &e.json) {
                    e.size = size;
                    e.json = json;
                    e.what = what.into();
                }
            }
            None => {
                m.insert(class.to_string(), Entry { size, json, what: what.into(), count: 1 });
            }
        }
    }
    /// Report one violation per class (key = JSON of the smallest case).
    pub fn flush(self, ctx: &Ctx) {
        let m = self.map.into_inner().unwrap();
        let mut total = 0;
        for (class, e) in m {
            total += e.count;
            ctx.count(&format!("diverging_cases[{class}]"), e.count);
            let case: serde_json::Value = serde_json::from_str(&e.json).unwrap();
            ctx.violation(e.json.clone(), format!("[{class}; smallest of {} diverging cases] {}", e.count, e.what), case);
        }
        ctx.count("diverging_cases_total", total);
    }
}

/// An error of a check: `class` groups failures of the same kind.
#[derive(Debug, Clone)]
pub struct Fail {
    pub class: String,
    pub what: String,
}

impl Fail {
    pub fn new(class: impl Into<String>, what: impl Into<String>) -> Fail {
        Fail { class: class.into(), what: what.into() }
    }
    pub fn text(&self) -> String {
        format!("[{}] {}", self.class, self.what)
    }
}
