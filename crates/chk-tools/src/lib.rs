//! shared helpers for the chk-tools checks
