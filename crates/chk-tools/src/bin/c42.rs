//! C42 — tree traversal and rewriting follow their recursion contract.
//!
//! States = (tree, decision vector) pairs; transitions = closure invocations,
//! each compared with an independent specification interpreter
//! (`c42/spec.rs`, written from the doc comments of
//! `datafusion/common/src/tree_node.rs`).
//!
//! Enumerated: every ordered rose tree with <= N nodes, rendered as (i) a
//! harness `ConcreteTreeNode`, (ii) `Expr`, (iii) `LogicalPlan` (node kinds
//! chosen from a per-arity menu, rotated by a `salt` so that every kind
//! occurs at every position), x every API x **every** execution of the
//! decision tree {Continue, Jump, Stop} (x {unchanged, replaced} for the
//! rewriting APIs) per closure invocation — i.e. every per-node decision
//! vector, modulo decisions of closures the specification never invokes.
#[path = "c42/fam_concrete.rs"]
mod fam_concrete;
#[path = "c42/fam_execplan.rs"]
mod fam_execplan;
#[path = "c42/fam_expr.rs"]
mod fam_expr;
#[path = "c42/fam_physexpr.rs"]
mod fam_physexpr;
#[path = "c42/fam_plan.rs"]
mod fam_plan;
#[path = "c42/spec.rs"]
mod spec;

use datafusion::common::tree_node::{
    Transformed, TreeNode, TreeNodeRecursion, TreeNodeRewriter, TreeNodeVisitor,
};
use datafusion::common::{DataFusionError, Result as DFResult};
use mc_core::serde_json::{Value, json};
use mc_core::{Ctx, Level, rayon::prelude::*, run_check};
use serde::{Deserialize, Serialize};
use spec::{Api, DEFAULT_DEC, Dec, Ph, Shape, SpecOut, Tnr};
use std::cell::RefCell;
use std::collections::BTreeMap;
use std::sync::Mutex;

/// A family of real tree types onto which abstract rose trees are rendered.
pub trait Family {
    type Node: TreeNode + Clone + std::fmt::Debug;
    const NAME: &'static str;
    /// number of node kinds available for a node with `arity` children
    fn menu_len(arity: usize) -> usize;
    /// Build a node of kind `kind` (< `menu_len(children.len())`).  Leaf kinds
    /// store `id`; every kind stores `label % label_states`.
    fn build(kind: usize, id: usize, label: u8, children: Vec<Self::Node>) -> Self::Node;
    /// Inverse of `build` (written against the type definitions, not against
    /// the TreeNode implementation): (kind, id (leaves), label, children).
    fn decompose(node: Self::Node) -> (usize, usize, u8, Vec<Self::Node>);
    fn label_states(arity: usize, kind: usize) -> u8;
    /// structural equality of two trees
    fn same(a: &Self::Node, b: &Self::Node) -> bool;
    fn short(node: &Self::Node) -> String;
    /// readable name of the node's kind (used to classify divergences)
    fn kind_label(node: &Self::Node) -> String;
    /// leaf-like child used by the harness self test
    fn selftest_child(i: usize) -> Self::Node {
        Self::build(0, 100 + i, 0, vec![])
    }
    /// kind (menu index) of node `id` of the shape under kind rotation `salt`
    fn kind_of(shape: &Shape, salt: usize, id: usize) -> usize {
        (id + salt) % Self::menu_len(shape.arity[id] as usize)
    }
    /// Call one of the `*_with_subqueries` APIs (LogicalPlan only).
    fn call_subq(_node: Self::Node, _api: Api, _drv: &RefCell<Drv<Self::Node>>) -> Option<ImplRes<Self::Node>> {
        None
    }
}

/// Equality through `decompose` (for node types without `PartialEq`).
pub fn same_by_decompose<F: Family>(a: &F::Node, b: &F::Node) -> bool {
    let (k1, i1, l1, c1) = F::decompose(a.clone());
    let (k2, i2, l2, c2) = F::decompose(b.clone());
    k1 == k2 && i1 == i2 && l1 == l2 && c1.len() == c2.len() && c1.iter().zip(&c2).all(|(x, y)| same_by_decompose::<F>(x, y))
}

/// The replacement a rewriting closure makes: the same node kind with the
/// same children and the next label.
fn relabel<F: Family>(node: F::Node) -> F::Node {
    let (kind, id, l, ch) = F::decompose(node);
    F::build(kind, id, l.wrapping_add(1), ch)
}

fn render<F: Family>(shape: &Shape, labels: &[u8], salt: usize, id: usize) -> F::Node {
    let ch: Vec<F::Node> = shape.kids[id].iter().map(|&c| render::<F>(shape, labels, salt, c)).collect();
    F::build(F::kind_of(shape, salt, id), id, labels[id], ch)
}

// ---------------------------------------------------------------------------
// driving the real API

pub struct Drv<N> {
    decs: Vec<Dec>,
    k: usize,
    max_calls: usize,
    pub log: Vec<(Ph, N)>,
    relabel: fn(N) -> N,
}

impl<N: Clone> Drv<N> {
    fn next(&mut self, ph: Ph, n: &N) -> DFResult<Dec> {
        if self.log.len() >= self.max_calls {
            return Err(DataFusionError::Internal("harness: closure invoked more often than 2 x nodes + 4".into()));
        }
        self.log.push((ph, n.clone()));
        let d = self.decs.get(self.k).copied().unwrap_or(DEFAULT_DEC);
        self.k += 1;
        Ok(d)
    }
    pub fn inspect(&mut self, ph: Ph, n: &N) -> DFResult<TreeNodeRecursion> {
        Ok(to_tnr(self.next(ph, n)?.tnr))
    }
    pub fn found(&mut self, n: &N) -> DFResult<bool> {
        Ok(self.next(Ph::Down, n)?.tnr == Tnr::S)
    }
    pub fn rewrite(&mut self, ph: Ph, n: N) -> DFResult<Transformed<N>> {
        let d = self.next(ph, &n)?;
        let n = if d.replace { (self.relabel)(n) } else { n };
        Ok(Transformed::new(n, d.replace, to_tnr(d.tnr)))
    }
}

fn to_tnr(t: Tnr) -> TreeNodeRecursion {
    match t {
        Tnr::C => TreeNodeRecursion::Continue,
        Tnr::J => TreeNodeRecursion::Jump,
        Tnr::S => TreeNodeRecursion::Stop,
    }
}

pub enum ImplRes<N> {
    Tnr(DFResult<TreeNodeRecursion>),
    Found(DFResult<bool>),
    Tr(DFResult<Transformed<N>>),
}

pub struct VisitDrv<'a, N>(pub &'a RefCell<Drv<N>>);
impl<'n, 'a, N: TreeNode + Clone> TreeNodeVisitor<'n> for VisitDrv<'a, N> {
    type Node = N;
    fn f_down(&mut self, node: &'n N) -> DFResult<TreeNodeRecursion> {
        self.0.borrow_mut().inspect(Ph::Down, node)
    }
    fn f_up(&mut self, node: &'n N) -> DFResult<TreeNodeRecursion> {
        self.0.borrow_mut().inspect(Ph::Up, node)
    }
}
pub struct RewriteDrv<'a, N>(pub &'a RefCell<Drv<N>>);
impl<'a, N: TreeNode + Clone> TreeNodeRewriter for RewriteDrv<'a, N> {
    type Node = N;
    fn f_down(&mut self, node: N) -> DFResult<Transformed<N>> {
        self.0.borrow_mut().rewrite(Ph::Down, node)
    }
    fn f_up(&mut self, node: N) -> DFResult<Transformed<N>> {
        self.0.borrow_mut().rewrite(Ph::Up, node)
    }
}

fn call_api<F: Family>(root: F::Node, api: Api, drv: &RefCell<Drv<F::Node>>) -> ImplRes<F::Node> {
    match api {
        Api::ApplyChildren => ImplRes::Tnr(root.apply_children(|n| drv.borrow_mut().inspect(Ph::Down, n))),
        Api::Apply => ImplRes::Tnr(root.apply(|n| drv.borrow_mut().inspect(Ph::Down, n))),
        Api::Exists => ImplRes::Found(root.exists(|n| drv.borrow_mut().found(n))),
        Api::Visit => ImplRes::Tnr(root.visit(&mut VisitDrv(drv))),
        Api::MapChildren => ImplRes::Tr(root.map_children(|n| drv.borrow_mut().rewrite(Ph::Down, n))),
        Api::TransformDown => ImplRes::Tr(root.transform_down(|n| drv.borrow_mut().rewrite(Ph::Down, n))),
        Api::TransformUp => ImplRes::Tr(root.transform_up(|n| drv.borrow_mut().rewrite(Ph::Up, n))),
        Api::Transform => ImplRes::Tr(root.transform(|n| drv.borrow_mut().rewrite(Ph::Up, n))),
        Api::TransformDownUp => ImplRes::Tr(root.transform_down_up(
            |n| drv.borrow_mut().rewrite(Ph::Down, n),
            |n| drv.borrow_mut().rewrite(Ph::Up, n),
        )),
        Api::Rewrite => ImplRes::Tr(root.rewrite(&mut RewriteDrv(drv))),
        _ => F::call_subq(root, api, drv).expect("harness: API not supported by this family"),
    }
}

// ---------------------------------------------------------------------------
// one case

#[derive(Serialize, Deserialize, Clone, Debug, Hash)]
struct Case {
    family: String,
    salt: usize,
    /// pre-order list of child counts
    arity: Vec<u8>,
    api: Api,
    /// decision of the k-th closure invocation (missing = unchanged/Continue)
    decisions: Vec<Dec>,
}

#[derive(Default, Clone, Copy)]
struct Stats {
    calls: u64,
    tnr_exact_mismatch: u64,
}

fn clip(s: String) -> String {
    if s.len() > 400 {
        let mut e = 400;
        while !s.is_char_boundary(e) {
            e -= 1;
        }
        format!("{}…", &s[..e])
    } else {
        s
    }
}


/// A divergence between implementation and specification.  `class` groups
/// divergences by (family, kind of divergence, kind of the node concerned);
/// the check reports the *smallest* diverging case of every class.
#[derive(Debug)]
struct Div {
    class: String,
    what: String,
}

fn div<F: Family>(kind: &str, node: Option<&F::Node>, what: String) -> Div {
    let k = node
        .map(|n| mc_core::catch(|| F::kind_label(n)).unwrap_or_else(|_| "?".into()))
        .unwrap_or_else(|| "-".into());
    Div { class: format!("{}/{}/{}", F::NAME, kind, k), what }
}

/// Run the real API with the given decisions and compare with the
/// specification outcome.
fn check_against_spec<F: Family>(shape: &Shape, salt: usize, api: Api, decs: &[Dec], sp: &SpecOut) -> Result<Stats, Div> {
    let n = shape.n();
    let root = render::<F>(shape, &vec![0; n], salt, 0);
    let root_copy = root.clone();
    let drv = RefCell::new(Drv { decs: decs.to_vec(), k: 0, max_calls: 2 * n + 4, log: vec![], relabel: relabel::<F> });
    let res = call_api::<F>(root, api, &drv);
    let drv = drv.into_inner();
    // 1. closure invocation log
    for (k, (ph, node)) in drv.log.iter().enumerate() {
        let Some(exp) = sp.log.get(k) else {
            return Err(div::<F>(
                "unexpected-call",
                Some(node),
                format!(
                    "closure invoked {} times, specification says {}; extra call #{k}: {:?} on `{}`",
                    drv.log.len(),
                    sp.log.len(),
                    ph,
                    clip(F::short(node))
                ),
            ));
        };
        let exp_node = render::<F>(shape, &exp.labels, salt, exp.node);
        if *ph != exp.ph || !F::same(node, &exp_node) {
            return Err(div::<F>(
                "unexpected-call",
                Some(node),
                format!(
                    "call #{k}: got {:?} on `{}`, expected {:?} on node {} = `{}`",
                    ph,
                    clip(F::short(node)),
                    exp.ph,
                    exp.node,
                    clip(F::short(&exp_node))
                ),
            ));
        }
    }
    if drv.log.len() < sp.log.len() {
        let exp = &sp.log[drv.log.len()];
        let exp_node = render::<F>(shape, &exp.labels, salt, exp.node);
        return Err(div::<F>(
            "missing-call",
            Some(&exp_node),
            format!(
                "closure invoked {} times, specification says {}; missing call #{}: {:?} on node {} = `{}`",
                drv.log.len(),
                sp.log.len(),
                drv.log.len(),
                exp.ph,
                exp.node,
                clip(F::short(&exp_node))
            ),
        ));
    }
    let mut st = Stats { calls: drv.log.len() as u64, tnr_exact_mismatch: 0 };
    let exact_tnr = |t: TreeNodeRecursion| -> bool {
        let exp = if sp.stopped {
            TreeNodeRecursion::Stop
        } else if sp.ended_in_jump {
            TreeNodeRecursion::Jump
        } else {
            TreeNodeRecursion::Continue
        };
        t == exp
    };
    let root = Some(&root_copy);
    // 2. result
    match res {
        ImplRes::Tnr(r) => {
            let t = r.map_err(|e| div::<F>("error", root, format!("unexpected error: {e}")))?;
            if (t == TreeNodeRecursion::Stop) != sp.stopped {
                return Err(div::<F>("final-tnr", root, format!("returned {t:?}, but a closure returned Stop: {}", sp.stopped)));
            }
            if !exact_tnr(t) {
                st.tnr_exact_mismatch += 1;
            }
        }
        ImplRes::Found(r) => {
            let f = r.map_err(|e| div::<F>("error", root, format!("unexpected error: {e}")))?;
            if f != sp.stopped {
                return Err(div::<F>("exists-result", root, format!("exists returned {f}, expected {}", sp.stopped)));
            }
        }
        ImplRes::Tr(r) => {
            let t = r.map_err(|e| div::<F>("error", root, format!("unexpected error: {e}")))?;
            let exp_tree = render::<F>(shape, &sp.labels, salt, 0);
            if !F::same(&t.data, &exp_tree) {
                return Err(div::<F>(
                    "result-tree",
                    root,
                    format!(
                        "result tree `{}` differs from expected `{}` (replacement counts per node {:?})",
                        clip(F::short(&t.data)),
                        clip(F::short(&exp_tree)),
                        sp.labels
                    ),
                ));
            }
            if t.transformed != sp.transformed {
                return Err(div::<F>(
                    "transformed-flag",
                    root,
                    format!("transformed flag = {}, but closures reported a replacement: {}", t.transformed, sp.transformed),
                ));
            }
            if (t.tnr == TreeNodeRecursion::Stop) != sp.stopped {
                return Err(div::<F>("final-tnr", root, format!("final tnr {:?}, but a closure returned Stop: {}", t.tnr, sp.stopped)));
            }
            if !exact_tnr(t.tnr) {
                st.tnr_exact_mismatch += 1;
            }
        }
    }
    Ok(st)
}

fn spec_with(shape: &Shape, api: Api, decs: &[Dec]) -> SpecOut {
    spec::spec_run(shape, api, |k, _, _| decs.get(k).copied().unwrap_or(DEFAULT_DEC))
}

fn check_family(family: &str, shape: &Shape, salt: usize, api: Api, decs: &[Dec], sp: &SpecOut) -> Result<Stats, Div> {
    let r = mc_core::catch(|| match family {
        "concrete" => check_against_spec::<fam_concrete::ConcreteFam>(shape, salt, api, decs, sp),
        "expr" => check_against_spec::<fam_expr::ExprFam>(shape, salt, api, decs, sp),
        "plan" => check_against_spec::<fam_plan::PlanFam>(shape, salt, api, decs, sp),
        "plan_subq" => check_against_spec::<fam_plan::PlanSubqFam>(shape, salt, api, decs, sp),
        "physexpr" => check_against_spec::<fam_physexpr::PhysExprFam>(shape, salt, api, decs, sp),
        "execplan" => check_against_spec::<fam_execplan::ExecPlanFam>(shape, salt, api, decs, sp),
        other => Err(Div { class: "harness".into(), what: format!("unknown family {other}") }),
    });
    match r {
        Ok(r) => r,
        Err(p) => Err(Div { class: format!("{family}/panic"), what: p }),
    }
}

fn run_case(c: &Case) -> Result<Stats, String> {
    let shape = Shape::new(&c.arity)?;
    let sp = spec_with(&shape, c.api, &c.decisions);
    check_family(&c.family, &shape, c.salt, c.api, &c.decisions, &sp).map_err(|d| format!("[{}] {}", d.class, d.what))
}

// ---------------------------------------------------------------------------
// self test of the harness (render / relabel / decompose agree)

fn self_test<F: Family>(max_arity: usize) -> Result<u64, String> {
    let mut n = 0;
    for arity in 0..=max_arity {
        for kind in 0..F::menu_len(arity) {
            let states = F::label_states(arity, kind);
            for l in 0..4u8 {
                let kids = || -> Vec<F::Node> { (0..arity).map(F::selftest_child).collect() };
                let node = F::build(kind, 7, l, kids());
                let (k2, id2, l2, ch2) = F::decompose(node.clone());
                if k2 != kind || ch2.len() != arity || !ch2.iter().zip(&kids()).all(|(x, y)| F::same(x, y)) || l2 != l % states.max(1) || (arity == 0 && id2 != 7) {
                    return Err(format!(
                        "{}: decompose(build(kind {kind}, arity {arity}, label {l})) = (kind {k2}, id {id2}, label {l2}, {} children)",
                        F::NAME,
                        ch2.len()
                    ));
                }
                let re = relabel::<F>(node.clone());
                let exp = F::build(kind, 7, l + 1, kids());
                if !F::same(&re, &exp) {
                    return Err(format!("{}: relabel(kind {kind}, arity {arity}, label {l}) != build(label+1)", F::NAME));
                }
                if states > 1 && F::same(&re, &node) {
                    return Err(format!("{}: kind {kind} arity {arity}: replacement is not observable", F::NAME));
                }
                n += 1;
            }
        }
    }
    Ok(n)
}

// ---------------------------------------------------------------------------
// exploration

struct Unit {
    family: &'static str,
    salt: usize,
    shape: Shape,
    api: Api,
    prefix: Vec<usize>,
}

/// smallest diverging case per class; rank = (nodes, #decisions, arity vector, salt, api, decisions)
type Rank = (usize, usize, Vec<u8>, usize, String, Vec<(bool, u8)>);
struct Found {
    rank: Rank,
    what: String,
    case: Case,
    count: u64,
}
type FoundMap = Mutex<BTreeMap<String, Found>>;

fn rank_of(c: &Case) -> Rank {
    (
        c.arity.len(),
        c.decisions.len(),
        c.arity.clone(),
        c.salt,
        format!("{:?}", c.api),
        c.decisions.iter().map(|d| (d.replace, d.tnr as u8)).collect(),
    )
}

fn run_unit(ctx: &Ctx, found: &FoundMap, u: &Unit) {
    let mut evals = 0u64;
    let mut calls = 0u64;
    let mut nontrivial = 0u64;
    let mut tnr_mis = 0u64;
    let mut diverging = 0u64;
    let register = u.family == "concrete" && u.salt == 0;
    spec::for_each_execution(&u.shape, u.api, &u.prefix, |decs, sp| {
        if evals % 256 == 0 && ctx.out_of_time() {
            return false;
        }
        evals += 1;
        let r = check_family(u.family, &u.shape, u.salt, u.api, decs, sp);
        let case = || Case {
            family: u.family.to_string(),
            salt: u.salt,
            arity: u.shape.arity.clone(),
            api: u.api,
            decisions: decs.to_vec(),
        };
        match r {
            Ok(st) => {
                calls += st.calls;
                tnr_mis += st.tnr_exact_mismatch;
                // non-trivial: >= 2 nodes and at least one decision that is not "unchanged, Continue"
                if u.shape.n() >= 2 && decs.iter().any(|d| *d != DEFAULT_DEC) {
                    nontrivial += 1;
                    if register {
                        ctx.nontrivial(&(&u.shape.arity, u.api, decs));
                    }
                    if u.shape.n() >= 4
                        && decs.iter().any(|d| d.tnr == Tnr::J)
                        && decs.iter().any(|d| d.replace)
                        && u.salt == 1
                        && ctx.want_sample()
                    {
                        let mut v = serde_json::to_value(case()).unwrap();
                        v["spec_calls"] = json!(sp.log.iter().map(|c| format!("{:?}({})", c.ph, c.node)).collect::<Vec<_>>());
                        v["spec_replacements_per_node"] = json!(sp.labels);
                        ctx.sample(v);
                    }
                }
            }
            Err(d) => {
                diverging += 1;
                let c = case();
                let rank = rank_of(&c);
                let mut m = found.lock().unwrap();
                match m.get_mut(&d.class) {
                    Some(f) => {
                        f.count += 1;
                        if rank < f.rank {
                            f.rank = rank;
                            f.what = d.what;
                            f.case = c;
                        }
                    }
                    None => {
                        m.insert(d.class, Found { rank, what: d.what, case: c, count: 1 });
                    }
                }
            }
        }
        true
    });
    ctx.evals(evals);
    ctx.add_states(evals);
    ctx.add_transitions(calls);
    ctx.count(&format!("cases_{}", u.family), evals);
    ctx.count(&format!("cases_{:?}", u.api), evals);
    ctx.count("nontrivial_cases_all_families", nontrivial);
    ctx.count("diverging_cases_total", diverging);
    ctx.count(&format!("final_tnr_jump_vs_continue_differs_from_spec(informational)[{}]", u.family), tnr_mis);
}

struct Bounds {
    /// max nodes for single-phase APIs / two-phase inspecting (visit) / two-phase rewriting
    n_single: usize,
    n_visit: usize,
    n_rewrite2: usize,
    /// number of kind rotations for the single-phase APIs and for the two-phase APIs
    salts_single: usize,
    salts_double: usize,
    /// `*_with_subqueries` (LogicalPlan)
    n_subq: usize,
    n_subq2: usize,
    salts_subq: usize,
}

fn explore(ctx: &Ctx) {
    let b = if ctx.quick() {
        Bounds { n_single: 6, n_visit: 6, n_rewrite2: 4, salts_single: 14, salts_double: 4, n_subq: 5, n_subq2: 4, salts_subq: 4 }
    } else {
        Bounds { n_single: 7, n_visit: 7, n_rewrite2: 5, salts_single: 14, salts_double: 4, n_subq: 6, n_subq2: 5, salts_subq: 6 }
    };
    // tuning aid only (recorded in the evidence through the bounds below)
    let b = match std::env::var("C42_BOUNDS").ok().map(|v| v.split(',').filter_map(|x| x.parse::<usize>().ok()).collect::<Vec<_>>()) {
        Some(v) if v.len() == 8 => Bounds {
            n_single: v[0],
            n_visit: v[1],
            n_rewrite2: v[2],
            salts_single: v[3],
            salts_double: v[4],
            n_subq: v[5],
            n_subq2: v[6],
            salts_subq: v[7],
        },
        _ => b,
    };
    ctx.set_extra(
        "bounds",
        json!({
            "max_nodes_single_phase_apis(apply_children,apply,exists,map_children,transform_down,transform_up,transform)": b.n_single,
            "max_nodes_visit": b.n_visit,
            "max_nodes_transform_down_up_and_rewrite": b.n_rewrite2,
            "kind_rotations_single_phase": format!("{} (a third of them at the largest size)", b.salts_single),
            "kind_rotations_two_phase": b.salts_double,
            "with_subqueries(LogicalPlan): max_nodes_single_phase/visit, two_phase_rewriting, kind_rotations": [b.n_subq, b.n_subq2, b.salts_subq],
            "families": ["concrete (harness ConcreteTreeNode)", "expr", "plan", "plan_subq (*_with_subqueries APIs)", "physexpr (Arc<dyn PhysicalExpr>)", "execplan (Arc<dyn ExecutionPlan>)"],
            "transform(synonym of transform_up)": "max_nodes_single_phase - 1",
            "kind_rotations_arc_families": "min(rotations, 6)",
            "decisions_per_invocation": "inspecting: {Continue,Jump,Stop}; exists: {false,true}; rewriting: {unchanged,replaced} x {Continue,Jump,Stop}",
            "shapes": "all ordered rose trees with <= max_nodes nodes",
        }),
    );
    ctx.assume("closures report transformed=true exactly when they return a different node (the documented contract of Transformed)");
    ctx.assume("replacements keep the node's children (same kind, different label)");
    ctx.assume("children of a node are ordered as the fields are declared in the node's struct (e.g. Case: expr, when/then pairs, else; aggregate: args, filter, order_by)");
    ctx.assume("with_subqueries: subqueries of a node are children that precede its inputs, in expression order; only nodes that have at least one input after their subqueries are generated");

    // harness self test (a failure is a machinery error, not a verdict)
    for r in [
        mc_core::catch(|| self_test::<fam_concrete::ConcreteFam>(6)),
        mc_core::catch(|| self_test::<fam_expr::ExprFam>(6)),
        mc_core::catch(|| self_test::<fam_plan::PlanFam>(6)),
        mc_core::catch(|| self_test::<fam_plan::PlanSubqFam>(6)),
        mc_core::catch(|| self_test::<fam_physexpr::PhysExprFam>(6)),
        mc_core::catch(|| self_test::<fam_execplan::ExecPlanFam>(6)),
    ] {
        match r.unwrap_or_else(Err) {
            Ok(n) => ctx.count("harness_selftest_nodes", n),
            Err(e) => {
                ctx.machinery_error(format!("harness self test failed: {e}"));
                return;
            }
        }
    }

    let single = [
        Api::ApplyChildren,
        Api::Apply,
        Api::Exists,
        Api::MapChildren,
        Api::TransformDown,
        Api::TransformUp,
        Api::Transform,
    ];
    let found: FoundMap = Mutex::new(BTreeMap::new());
    let max_n = b.n_single.max(b.n_visit).max(b.n_rewrite2).max(b.n_subq);
    let mut shapes_total = 0;
    for n in 1..=max_n {
        let shapes: Vec<Shape> = spec::trees(n).iter().map(|a| Shape::new(a).unwrap()).collect();
        shapes_total += shapes.len();
        let mut units: Vec<Unit> = vec![];
        for family in ["concrete", "expr", "plan", "plan_subq", "physexpr", "execplan"] {
            for shape in &shapes {
                let mut apis: Vec<(Api, usize)> = vec![];
                if family == "plan_subq" {
                    if n <= b.n_subq {
                        for a in [Api::ApplySubq, Api::TransformDownSubq, Api::TransformUpSubq, Api::VisitSubq] {
                            apis.push((a, b.salts_subq));
                        }
                    }
                    if n <= b.n_subq2 {
                        apis.push((Api::TransformDownUpSubq, b.salts_subq));
                        apis.push((Api::RewriteSubq, b.salts_subq));
                    }
                } else {
                    if n <= b.n_single {
                        // `transform` is a documented synonym of `transform_up`: one node less
                        // at the largest size a third of the kind rotations (all of them up to one node less)
                        let rot = if n == b.n_single { b.salts_single.div_ceil(3) } else { b.salts_single };
                        apis.extend(single.iter().filter(|a| **a != Api::Transform || n < b.n_single).map(|a| (*a, rot)));
                    }
                    if n <= b.n_visit {
                        apis.push((Api::Visit, b.salts_double));
                    }
                    if n <= b.n_rewrite2 {
                        apis.push((Api::TransformDownUp, b.salts_double));
                        apis.push((Api::Rewrite, b.salts_double));
                    }
                }
                for (api, salts) in apis {
                    // the Arc<dyn ..> families have at most 6 kinds per arity
                    let salts = match family {
                        "concrete" => 1,
                        "physexpr" | "execplan" => salts.min(6),
                        _ => salts,
                    };
                    for salt in 0..salts {
                        // work units: fix the first one or (larger trees) two decisions
                        let k = api.options().len();
                        for first in 0..k {
                            if n >= 4 {
                                for second in 0..k {
                                    units.push(Unit { family, salt, shape: shape.clone(), api, prefix: vec![first, second] });
                                }
                            } else {
                                units.push(Unit { family, salt, shape: shape.clone(), api, prefix: vec![first] });
                            }
                        }
                    }
                }
            }
        }
        units.par_iter().for_each(|u| {
            if !ctx.out_of_time() && found.lock().unwrap().len() <= 40 {
                run_unit(ctx, &found, u);
            }
        });
        if ctx.out_of_time() {
            break;
        }
        if found.lock().unwrap().len() > 40 {
            ctx.mark_capped("more than 40 classes of divergence: exploration abandoned");
            break;
        }
    }
    ctx.count("shapes", shapes_total as u64);
    // one violation per class of divergence: its smallest case
    for (class, f) in found.into_inner().unwrap() {
        ctx.count(&format!("diverging_cases[{class}]"), f.count);
        ctx.violation(
            serde_json::to_string(&f.case).unwrap(),
            format!("[{class}; smallest of {} diverging cases] {}", f.count, f.what),
            serde_json::to_value(&f.case).unwrap(),
        );
    }
}

fn replay(v: &Value) -> Result<(), String> {
    let c: Case = serde_json::from_value(v.clone()).map_err(|e| format!("bad case: {e}"))?;
    mc_core::catch(|| run_case(&c)).unwrap_or_else(Err).map(|_| ())
}

fn main() {
    mc_core::quiet_panics();
    run_check(
        "C42",
        Level::ModelChecking,
        "every ordered rose tree within the node bound x family (harness ConcreteTreeNode, Expr, LogicalPlan, LogicalPlan with subqueries, Arc<dyn PhysicalExpr>, Arc<dyn ExecutionPlan>; node kinds rotated through a per-arity menu) \
         x API x every execution of the per-invocation decision tree; each closure invocation (= transition) is compared with the specification \
         interpreter's (phase, node snapshot), then result tree, transformed flag and Stop-ness of the final recursion value; \
         non-trivial = tree has >= 2 nodes and some decision is not (unchanged, Continue); distinct_nontrivial counts distinct (shape, API, decision vector); \
         divergences are grouped by (family, kind of divergence, node kind) and the smallest case of each group is reported",
        explore,
        replay,
    );
}
