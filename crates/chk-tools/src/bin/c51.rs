//! C51 — the command-line client splits scripts and formats results faithfully.
//!
//! Part "split": every script built from <= N statements of a menu (quotes,
//! doubled quotes, semicolons inside literals / quoted identifiers, empty
//! statements, surrounding blanks, several lines) x separator style x trailing
//! style, through `datafusion_cli::helper::verif_split_from_semicolon`
//! (hook around the private `split_from_semicolon`).  Oracles: (a) the
//! statements the script was built from, (b) an independent reference
//! tokenizer run on the script text.
//!
//! Part "format": every small result set (typed columns; NULL, '', separators,
//! quotes, newline, tab, unicode, blanks) x batch split x header on/off x
//! {Csv, Tsv, Json, NdJson, Automatic} through `PrintFormat::print_batches`;
//! the output is parsed back by independent CSV/TSV (RFC 4180 quoting) and
//! JSON (serde_json) parsers and must yield the cell values, respecting the
//! format's own NULL encoding (CSV/TSV: empty field; JSON: key absent or null).
use arrow::array::{ArrayRef, BooleanArray, Float64Array, Int64Array, StringArray, StringViewArray};
use arrow::datatypes::{DataType, Field, Schema, SchemaRef};
use arrow::record_batch::RecordBatch;
use chk_tools::{Fail, Findings};
use datafusion::config::FormatOptions;
use datafusion_cli::helper::verif_split_from_semicolon;
use datafusion_cli::print_format::PrintFormat;
use datafusion_cli::print_options::MaxRows;
use mc_core::serde_json::{Value, json};
use mc_core::{Ctx, Level, enumerate, rayon::prelude::*, run_check};
use serde::{Deserialize, Serialize};
use std::sync::Arc;

// ---------------------------------------------------------------------------
// part 1: statement splitting

/// statements (without terminating semicolon)
const MENU: [&str; 16] = [
    "select 1",
    "select ';'",
    "select 'it''s;'",
    "select \"a;b\" from t",
    "select '\"'",
    "select \"'\" from t",
    "select ''",
    "select 1 -- no semicolon at end",
    "",
    "   ",
    "  select 2  ",
    "select\n 3",
    "select ';' || \"x;y\" || ''';'''",
    "select 'a\"b;c\"d'",
    "select \"a'b;c'd\" from t",
    "select 'é;ü'",
];
const SEPS: [&str; 5] = [";", "; ", ";\n", " ;\n  ", ";;"];
const TRAILS: [&str; 4] = ["", ";", ";  ", ";\n"];

#[derive(Serialize, Deserialize, Clone, Debug, Hash)]
struct SplitCase {
    statements: Vec<usize>,
    sep: usize,
    trail: usize,
}

fn script_of(c: &SplitCase) -> String {
    let mut s = String::new();
    for (i, st) in c.statements.iter().enumerate() {
        if i > 0 {
            s.push_str(SEPS[c.sep]);
        }
        s.push_str(MENU[*st]);
    }
    s.push_str(TRAILS[c.trail]);
    s
}

/// Reference tokenizer: a semicolon separates statements unless it is inside
/// a '...' string literal or a "..." quoted identifier; inside either, a
/// doubled delimiter is an escaped delimiter.  Returns the trimmed non-empty
/// statement texts.
fn reference_split(text: &str) -> Vec<String> {
    #[derive(PartialEq)]
    enum St {
        Code,
        Quoted(char),
    }
    let chars: Vec<char> = text.chars().collect();
    let mut out = vec![];
    let mut cur = String::new();
    let mut st = St::Code;
    let mut i = 0;
    while i < chars.len() {
        let c = chars[i];
        match st {
            St::Code => {
                if c == ';' {
                    out.push(std::mem::take(&mut cur));
                    i += 1;
                    continue;
                }
                if c == '\'' || c == '"' {
                    st = St::Quoted(c);
                }
                cur.push(c);
            }
            St::Quoted(q) => {
                cur.push(c);
                if c == q {
                    if i + 1 < chars.len() && chars[i + 1] == q {
                        cur.push(q); // escaped delimiter
                        i += 1;
                    } else {
                        st = St::Code;
                    }
                }
            }
        }
        i += 1;
    }
    out.push(cur);
    out.into_iter().map(|s| s.trim().to_string()).filter(|s| !s.is_empty()).collect()
}

/// What the implementation returned, reduced to statement texts: surrounding
/// blanks and the one terminating semicolon are presentation.
fn normalize_impl(parts: &[String]) -> Vec<String> {
    parts
        .iter()
        .map(|p| {
            let t = p.trim();
            let t = t.strip_suffix(';').unwrap_or(t);
            t.trim().to_string()
        })
        .filter(|s| !s.is_empty())
        .collect()
}

fn run_split(c: &SplitCase) -> Result<bool, Fail> {
    let script = script_of(c);
    let built_from: Vec<String> =
        c.statements.iter().map(|i| MENU[*i].trim().to_string()).filter(|s| !s.is_empty()).collect();
    let reference = reference_split(&script);
    if reference != built_from {
        return Err(Fail::new(
            "harness",
            format!("reference tokenizer disagrees with the construction of {script:?}: {reference:?} vs {built_from:?}"),
        ));
    }
    let got = mc_core::catch(|| verif_split_from_semicolon(&script)).map_err(|p| Fail::new("split/panic", p))?;
    let norm = normalize_impl(&got);
    if norm != built_from {
        return Err(Fail::new(
            "split/statements",
            format!("script {script:?} split into {got:?}; expected the statements {built_from:?}"),
        ));
    }
    // non-trivial: >= 2 statements and a semicolon inside a literal / quoted identifier
    let inner = c.statements.iter().any(|i| MENU[*i].contains(';'));
    Ok(built_from.len() >= 2 && inner)
}

// ---------------------------------------------------------------------------
// part 2: output formats

#[derive(Serialize, Deserialize, Clone, Copy, Debug, Hash, PartialEq, Eq)]
enum Ty {
    Utf8,
    Utf8View,
    Int64,
    Float64,
    Boolean,
}

#[derive(Serialize, Deserialize, Clone, Debug, Hash, PartialEq)]
enum Cell {
    Null,
    S(String),
    I(i64),
    F(f64Bits),
    B(bool),
}

/// f64 carried as bits so that `Hash`/`Eq` are available
#[allow(non_camel_case_types)]
#[derive(Serialize, Deserialize, Clone, Copy, Debug, Hash, PartialEq, Eq)]
struct f64Bits(u64);
impl f64Bits {
    fn of(f: f64) -> Self {
        f64Bits(f.to_bits())
    }
    fn get(self) -> f64 {
        f64::from_bits(self.0)
    }
}

#[derive(Serialize, Deserialize, Clone, Copy, Debug, Hash, PartialEq, Eq)]
enum Fmt {
    Csv,
    Tsv,
    Json,
    NdJson,
    Automatic,
}

#[derive(Serialize, Deserialize, Clone, Debug, Hash)]
struct FormatCase {
    types: Vec<Ty>,
    /// rows of cells
    rows: Vec<Vec<Cell>>,
    /// sizes of the consecutive batches the rows are cut into (0 = empty batch)
    batches: Vec<usize>,
    format: Fmt,
    header: bool,
}

const STRINGS: [&str; 8] = ["", "a", "a,b", "q\"q", "l\nl", "é", "a\tb", " x "];

fn domain(t: Ty, small: bool) -> Vec<Cell> {
    match t {
        Ty::Utf8 | Ty::Utf8View => {
            let mut v = vec![Cell::Null];
            let strs: &[&str] = if small { &STRINGS[..5] } else { &STRINGS };
            v.extend(strs.iter().map(|s| Cell::S(s.to_string())));
            v
        }
        Ty::Int64 => vec![Cell::Null, Cell::I(1), Cell::I(-7)],
        Ty::Float64 => vec![Cell::Null, Cell::F(f64Bits::of(1.5)), Cell::F(f64Bits::of(-0.25))],
        Ty::Boolean => vec![Cell::Null, Cell::B(true), Cell::B(false)],
    }
}

fn schema_of(types: &[Ty]) -> SchemaRef {
    Arc::new(Schema::new(
        types
            .iter()
            .enumerate()
            .map(|(i, t)| {
                let dt = match t {
                    Ty::Utf8 => DataType::Utf8,
                    Ty::Utf8View => DataType::Utf8View,
                    Ty::Int64 => DataType::Int64,
                    Ty::Float64 => DataType::Float64,
                    Ty::Boolean => DataType::Boolean,
                };
                Field::new(format!("c{i}"), dt, true)
            })
            .collect::<Vec<_>>(),
    ))
}

fn batch_of(schema: &SchemaRef, types: &[Ty], rows: &[Vec<Cell>]) -> Result<RecordBatch, String> {
    let mut cols: Vec<ArrayRef> = vec![];
    for (ci, t) in types.iter().enumerate() {
        let col: ArrayRef = match t {
            Ty::Utf8 => Arc::new(StringArray::from(
                rows.iter().map(|r| if let Cell::S(s) = &r[ci] { Some(s.clone()) } else { None }).collect::<Vec<_>>(),
            )),
            Ty::Utf8View => Arc::new(StringViewArray::from(
                rows.iter().map(|r| if let Cell::S(s) = &r[ci] { Some(s.clone()) } else { None }).collect::<Vec<_>>(),
            )),
            Ty::Int64 => Arc::new(Int64Array::from(
                rows.iter().map(|r| if let Cell::I(v) = &r[ci] { Some(*v) } else { None }).collect::<Vec<_>>(),
            )),
            Ty::Float64 => Arc::new(Float64Array::from(
                rows.iter().map(|r| if let Cell::F(v) = &r[ci] { Some(v.get()) } else { None }).collect::<Vec<_>>(),
            )),
            Ty::Boolean => Arc::new(BooleanArray::from(
                rows.iter().map(|r| if let Cell::B(v) = &r[ci] { Some(*v) } else { None }).collect::<Vec<_>>(),
            )),
        };
        cols.push(col);
    }
    RecordBatch::try_new(Arc::clone(schema), cols).map_err(|e| format!("harness: cannot build batch: {e}"))
}

/// RFC 4180 style parser with a configurable delimiter: records end at LF or
/// CRLF outside quotes; a field that starts with `"` extends to the matching
/// closing quote, `""` inside is one quote.
fn parse_delimited(text: &str, delim: char) -> Result<Vec<Vec<String>>, String> {
    let chars: Vec<char> = text.chars().collect();
    let mut records = vec![];
    let mut rec: Vec<String> = vec![];
    let mut field = String::new();
    let mut i = 0;
    let n = chars.len();
    let mut at_field_start = true;
    let mut any_in_record = false;
    while i < n {
        let c = chars[i];
        if at_field_start && c == '"' {
            // quoted field
            i += 1;
            loop {
                if i >= n {
                    return Err("unterminated quoted field".into());
                }
                if chars[i] == '"' {
                    if i + 1 < n && chars[i + 1] == '"' {
                        field.push('"');
                        i += 2;
                    } else {
                        i += 1;
                        break;
                    }
                } else {
                    field.push(chars[i]);
                    i += 1;
                }
            }
            at_field_start = false;
            any_in_record = true;
            // after the closing quote only a delimiter or a record end may follow
            if i < n && chars[i] != delim && chars[i] != '\n' && chars[i] != '\r' {
                return Err(format!("unexpected character {:?} after a closing quote", chars[i]));
            }
            continue;
        }
        if c == delim {
            rec.push(std::mem::take(&mut field));
            at_field_start = true;
            any_in_record = true;
            i += 1;
            continue;
        }
        if c == '\n' || (c == '\r' && i + 1 < n && chars[i + 1] == '\n') {
            rec.push(std::mem::take(&mut field));
            records.push(std::mem::take(&mut rec));
            at_field_start = true;
            any_in_record = false;
            i += if c == '\r' { 2 } else { 1 };
            continue;
        }
        field.push(c);
        at_field_start = false;
        any_in_record = true;
        i += 1;
    }
    if any_in_record || !field.is_empty() || !rec.is_empty() {
        rec.push(field);
        records.push(rec);
    }
    Ok(records)
}

fn cell_matches_text(cell: &Cell, text: &str) -> bool {
    match cell {
        Cell::Null => text.is_empty(), // the delimited formats encode NULL as an empty field
        Cell::S(s) => text == s,
        Cell::I(v) => text.parse::<i64>().ok() == Some(*v),
        Cell::F(v) => text.parse::<f64>().ok() == Some(v.get()),
        Cell::B(v) => text == if *v { "true" } else { "false" },
    }
}

fn cell_matches_json(cell: &Cell, v: Option<&Value>) -> bool {
    match (cell, v) {
        (Cell::Null, None) | (Cell::Null, Some(Value::Null)) => true,
        (Cell::S(s), Some(Value::String(t))) => s == t,
        (Cell::I(i), Some(Value::Number(n))) => n.as_i64() == Some(*i),
        (Cell::F(f), Some(Value::Number(n))) => n.as_f64() == Some(f.get()),
        (Cell::B(b), Some(Value::Bool(t))) => b == t,
        _ => false,
    }
}

fn run_format(c: &FormatCase) -> Result<bool, Fail> {
    let ncols = c.types.len();
    if c.rows.iter().any(|r| r.len() != ncols) || c.batches.iter().sum::<usize>() != c.rows.len() {
        return Err(Fail::new("harness", "malformed case"));
    }
    let schema = schema_of(&c.types);
    let mut batches = vec![];
    let mut at = 0;
    for sz in &c.batches {
        batches.push(batch_of(&schema, &c.types, &c.rows[at..at + sz]).map_err(|e| Fail::new("harness", e))?);
        at += sz;
    }
    let fmt = match c.format {
        Fmt::Csv => PrintFormat::Csv,
        Fmt::Tsv => PrintFormat::Tsv,
        Fmt::Json => PrintFormat::Json,
        Fmt::NdJson => PrintFormat::NdJson,
        Fmt::Automatic => PrintFormat::Automatic,
    };
    let cls = |k: &str| format!("format/{:?}/{k}", c.format);
    let mut buf: Vec<u8> = vec![];
    let r = mc_core::catch(|| {
        fmt.print_batches(&mut buf, Arc::clone(&schema), &batches, MaxRows::Unlimited, c.header, &FormatOptions::default())
    })
    .map_err(|p| Fail::new(cls("panic"), p))?;
    r.map_err(|e| Fail::new(cls("error"), format!("print_batches failed: {e}")))?;
    let text = String::from_utf8(buf).map_err(|e| Fail::new(cls("utf8"), format!("output is not UTF-8: {e}")))?;
    let names: Vec<String> = (0..ncols).map(|i| format!("c{i}")).collect();
    match c.format {
        Fmt::Csv | Fmt::Tsv | Fmt::Automatic => {
            let delim = if c.format == Fmt::Tsv { '\t' } else { ',' };
            let mut recs = parse_delimited(&text, delim)
                .map_err(|e| Fail::new(cls("unparsable"), format!("output {text:?} does not parse: {e}")))?;
            if c.header && !recs.is_empty() && (!c.rows.is_empty() || recs.len() == 1) {
                let h = recs.remove(0);
                if h != names {
                    return Err(Fail::new(cls("header"), format!("header record {h:?}, expected {names:?}; output {text:?}")));
                }
            }
            if recs.len() != c.rows.len() {
                return Err(Fail::new(
                    cls("row-count"),
                    format!("{} data records parsed from {text:?}, expected {}", recs.len(), c.rows.len()),
                ));
            }
            for (ri, (rec, row)) in recs.iter().zip(&c.rows).enumerate() {
                if rec.len() != ncols {
                    return Err(Fail::new(
                        cls("column-count"),
                        format!("record {ri} has {} fields {rec:?}, expected {ncols}; output {text:?}", rec.len()),
                    ));
                }
                for (ci, (f, cell)) in rec.iter().zip(row).enumerate() {
                    if !cell_matches_text(cell, f) {
                        return Err(Fail::new(
                            cls("cell"),
                            format!("row {ri} column {ci}: parsed {f:?}, the value is {cell:?}; output {text:?}"),
                        ));
                    }
                }
            }
        }
        Fmt::Json | Fmt::NdJson => {
            let objs: Vec<Value> = if c.format == Fmt::Json {
                if text.trim().is_empty() {
                    vec![]
                } else {
                    match serde_json::from_str::<Value>(&text) {
                        Ok(Value::Array(a)) => a,
                        Ok(other) => {
                            return Err(Fail::new(cls("unparsable"), format!("output is not a JSON array: {other}")));
                        }
                        Err(e) => {
                            return Err(Fail::new(cls("unparsable"), format!("output {text:?} is not JSON: {e}")));
                        }
                    }
                }
            } else {
                let mut v = vec![];
                for line in text.split('\n').filter(|l| !l.trim().is_empty()) {
                    v.push(serde_json::from_str::<Value>(line).map_err(|e| {
                        Fail::new(cls("unparsable"), format!("line {line:?} of {text:?} is not JSON: {e}"))
                    })?);
                }
                v
            };
            if objs.len() != c.rows.len() {
                return Err(Fail::new(
                    cls("row-count"),
                    format!("{} objects parsed from {text:?}, expected {}", objs.len(), c.rows.len()),
                ));
            }
            for (ri, (o, row)) in objs.iter().zip(&c.rows).enumerate() {
                let Some(map) = o.as_object() else {
                    return Err(Fail::new(cls("unparsable"), format!("row {ri} is not an object: {o}")));
                };
                if let Some(k) = map.keys().find(|k| !names.contains(k)) {
                    return Err(Fail::new(cls("column-count"), format!("row {ri} has an unknown key {k:?}: {o}")));
                }
                for (ci, cell) in row.iter().enumerate() {
                    if !cell_matches_json(cell, map.get(&names[ci])) {
                        return Err(Fail::new(
                            cls("cell"),
                            format!("row {ri} column {ci}: parsed {:?}, the value is {cell:?}; output {text:?}", map.get(&names[ci])),
                        ));
                    }
                }
            }
        }
    }
    // non-trivial: some cell needs quoting/escaping or is NULL, and there is more than one cell
    let special = c.rows.iter().flatten().any(|x| match x {
        Cell::Null => true,
        Cell::S(s) => s.is_empty() || s.contains([',', '"', '\n', '\t']) || !s.is_ascii(),
        _ => false,
    });
    Ok(special && c.rows.len() * ncols >= 2)
}

// ---------------------------------------------------------------------------

#[derive(Serialize, Deserialize, Clone, Debug, Hash)]
enum Case {
    Split(SplitCase),
    Format(FormatCase),
}

fn run_case(c: &Case) -> Result<bool, Fail> {
    match c {
        Case::Split(s) => run_split(s),
        Case::Format(f) => run_format(f),
    }
}

fn size_of(c: &Case) -> usize {
    match c {
        Case::Split(s) => s.statements.len() * 100 + script_of(s).len(),
        Case::Format(f) => f.rows.len() * 1000 + f.types.len() * 100 + f.batches.len() * 10 + f.header as usize,
    }
}

fn explore(ctx: &Ctx) {
    let findings = Findings::new();
    let do_case = |c: &Case| {
        ctx.eval();
        match run_case(c) {
            Ok(nontrivial) => {
                if nontrivial {
                    ctx.nontrivial(c);
                }
                nontrivial
            }
            Err(f) if f.class == "harness" => {
                ctx.machinery_error(f.what);
                false
            }
            Err(f) => {
                findings.report(&f.class, size_of(c), f.what, c);
                false
            }
        }
    };

    // ---- part 1
    let max_stmts = ctx.pick(3, 4);
    let items: Vec<usize> = (0..MENU.len()).collect();
    let seqs = enumerate::sequences(&items, 1, max_stmts);
    let mut split_cases = vec![];
    for s in &seqs {
        for sep in 0..SEPS.len() {
            if s.len() == 1 && sep > 0 {
                continue;
            }
            for trail in 0..TRAILS.len() {
                split_cases.push(Case::Split(SplitCase { statements: s.clone(), sep, trail }));
            }
        }
    }
    ctx.count("split_scripts", split_cases.len() as u64);
    let nt_split: u64 = split_cases.par_iter().map(|c| do_case(c) as u64).sum();
    ctx.count("split_scripts_nontrivial", nt_split);
    if let Some(Case::Split(s)) = split_cases.iter().find(|c| matches!(c, Case::Split(s) if s.statements.len() == 3 && s.statements.contains(&12) && s.sep == 2))
    {
        ctx.sample(json!({"part": "split", "case": s, "script": script_of(s), "expected_statements": reference_split(&script_of(s))}));
    }

    // ---- part 2
    let max_cols = ctx.pick(2, 3);
    let max_rows = 2usize;
    let all_types = [Ty::Utf8, Ty::Utf8View, Ty::Int64, Ty::Float64, Ty::Boolean];
    let mut type_vecs: Vec<Vec<Ty>> = vec![];
    for n in 1..=max_cols {
        type_vecs.extend(enumerate::sequences(&all_types, n, n));
    }
    let formats = [Fmt::Csv, Fmt::Tsv, Fmt::Json, Fmt::NdJson, Fmt::Automatic];
    // (types, rows) tables; the string domain is reduced for tables with >= 3 string cells per row
    let mut tables: Vec<(Vec<Ty>, Vec<Vec<Cell>>)> = vec![];
    for types in &type_vecs {
        let n_str = types.iter().filter(|t| matches!(t, Ty::Utf8 | Ty::Utf8View)).count();
        let small = types.len() >= 3;
        let doms: Vec<Vec<Cell>> = types.iter().map(|t| domain(*t, small)).collect();
        let mut row_dom: Vec<Vec<Cell>> = vec![];
        enumerate::product(&doms.iter().map(|d| d.len()).collect::<Vec<_>>(), |ix| {
            row_dom.push(ix.iter().enumerate().map(|(c, i)| doms[c][*i].clone()).collect());
        });
        for nrows in 0..=max_rows {
            if types.len() >= 3 && nrows == 2 && n_str >= 2 {
                // 3 columns x 2 rows with >= 2 string columns: second row restricted to the first 4 rows of the row domain
                for r1 in &row_dom {
                    for r2 in row_dom.iter().take(4) {
                        tables.push((types.clone(), vec![r1.clone(), r2.clone()]));
                    }
                }
                continue;
            }
            for rows in enumerate::sequences(&row_dom, nrows, nrows) {
                tables.push((types.clone(), rows));
            }
        }
    }
    ctx.count("format_tables", tables.len() as u64);
    ctx.set_extra(
        "bounds",
        json!({
            "split": {"menu": MENU.len(), "max_statements": max_stmts, "separators": SEPS, "trailers": TRAILS},
            "format": {"max_columns": max_cols, "max_rows": max_rows, "types": ["Utf8", "Utf8View", "Int64", "Float64", "Boolean"],
                       "string_domain": STRINGS, "null_in_every_domain": true,
                       "batch_splits": "every cut of the rows into consecutive batches, plus an interleaved empty batch",
                       "formats": ["Csv", "Tsv", "Json", "NdJson", "Automatic"], "header": [true, false],
                       "reduced_string_domain": "first 5 strings for 3-column tables"},
            "binary_on_piped_stdin": "not run (no datafusion-cli binary of the current tree is available in the verification workspace)"
        }),
    );
    ctx.assume("CSV/TSV: NULL and the empty string are both written as an empty field (the format's NULL encoding); the check accepts an empty parsed field for either");
    ctx.assume("JSON/NDJSON: a NULL cell is an absent key or a JSON null");
    ctx.assume("split: surrounding blanks, the terminating semicolon and dropped empty statements are presentation, not content");
    let nt_fmt: u64 = tables
        .par_iter()
        .map(|(types, rows)| {
            if ctx.out_of_time() || findings.overflow() {
                return 0;
            }
            let mut nt = 0u64;
            let n = rows.len();
            let mut splits: Vec<Vec<usize>> = vec![];
            match n {
                0 => {
                    splits.push(vec![]);
                    splits.push(vec![0]);
                }
                1 => {
                    splits.push(vec![1]);
                    splits.push(vec![0, 1]);
                }
                _ => {
                    splits.push(vec![2]);
                    splits.push(vec![1, 1]);
                    splits.push(vec![1, 0, 1]);
                }
            }
            for b in &splits {
                for format in formats {
                    for header in [true, false] {
                        if matches!(format, Fmt::Json | Fmt::NdJson) && !header {
                            continue; // the header switch does not apply to JSON
                        }
                        let c = Case::Format(FormatCase { types: types.clone(), rows: rows.clone(), batches: b.clone(), format, header });
                        if do_case(&c) {
                            nt += 1;
                            if n == 2 && types.len() == 2 && b.len() == 2 && format == Fmt::Tsv && ctx.want_sample() {
                                ctx.sample(json!({"part": "format", "case": c}));
                            }
                        }
                    }
                }
            }
            nt
        })
        .sum();
    ctx.count("format_cases_nontrivial", nt_fmt);
    findings.flush(ctx);
}

fn replay(v: &Value) -> Result<(), String> {
    let c: Case = serde_json::from_value(v.clone()).map_err(|e| format!("bad case: {e}"))?;
    mc_core::catch(|| run_case(&c)).unwrap_or_else(|p| Err(Fail::new("panic", p))).map(|_| ()).map_err(|f| f.text())
}

fn main() {
    mc_core::quiet_panics();
    run_check(
        "C51",
        Level::Exploration,
        "split: every sequence of <= N menu statements x separator x trailer through the split hook, compared with the statements it was built from \
         (and with a reference tokenizer); non-trivial = >= 2 statements and a semicolon inside a literal or quoted identifier. \
         format: every table (typed columns, <= 2 rows, cell domains with NULL/''/separators/quotes/newline/tab/unicode) x batch split x format x header, \
         output parsed back by independent parsers; non-trivial = >= 2 cells and some cell is NULL/empty/needs quoting or escaping",
        explore,
        replay,
    );
}
