//! C46 — benchmark result validation accepts exactly the persisted results;
//! placeholders resolve with explicit > environment > default.
//!
//! Part "compare" (hook `verif_hooks::compare_results`): every small formatted
//! result table E (1–3 columns, <= 2 rows, cells from a domain with "NULL",
//! "", "(empty)", separators, quotes, newline, unicode, numbers) against
//! A = E and every single mutation of E (each cell to each other domain value,
//! row deletion / duplication / addition, column removal / addition).
//! Oracle: identical => must accept; a difference in shape, or in a cell pair
//! that is not entirely inside the NULL/empty marker family {"NULL", "",
//! "(empty)"} => must reject; differences only inside that family are the
//! runner's NULL/empty equivalences: either verdict is allowed (counted).
//!
//! Part "persist" (public API): a benchmark file with `result <file>` and a
//! `run` query producing table P is persisted with `SqlBenchmark::persist`;
//! a second benchmark whose run query produces A (= P, or a mutation of P) is
//! run and verified with `SqlBenchmark::verify` against the persisted file.
//! Oracle: A == P => must accept; otherwise as above (on the formatted cells).
//!
//! Part "replace" (hook `verif_hooks::process_replacements_with_env`): every
//! string of <= N tokens from a menu of literals and documented placeholder
//! forms x every presence/value state of the variables in the explicit map and
//! in the environment.  Oracle: resolution by construction — explicit value,
//! else environment value, else default, else error; boolean form selects the
//! true branch iff the value is "true" (ASCII case-insensitive).
use chk_tools::{Fail, Findings};
use datafusion::prelude::{SessionConfig, SessionContext};
use datafusion_benchmarks::sql_benchmark::{SqlBenchmark, verif_hooks};
use mc_core::serde_json::{Value, json};
use mc_core::{Ctx, Level, enumerate, rayon::prelude::*, run_check};
use serde::{Deserialize, Serialize};
use std::collections::HashMap;

const FAMILY: [&str; 3] = ["NULL", "", "(empty)"];
fn in_family(s: &str) -> bool {
    FAMILY.contains(&s)
}

#[derive(Clone, Copy, PartialEq, Eq, Debug)]
enum Verdict {
    MustAccept,
    MustReject,
    Either,
}

/// Reference verdict on formatted tables (expected, actual).
fn reference_verdict(expected: &[Vec<String>], actual: &[Vec<String>]) -> (Verdict, String) {
    if expected == actual {
        return (Verdict::MustAccept, "identical".into());
    }
    if expected.len() != actual.len() {
        return (Verdict::MustReject, format!("row count {} vs {}", expected.len(), actual.len()));
    }
    for (ri, (e, a)) in expected.iter().zip(actual).enumerate() {
        if e.len() != a.len() {
            return (Verdict::MustReject, format!("row {ri}: column count {} vs {}", e.len(), a.len()));
        }
        for (ci, (ev, av)) in e.iter().zip(a).enumerate() {
            if ev != av {
                if in_family(ev) && in_family(av) {
                    continue;
                }
                return (Verdict::MustReject, format!("row {ri} column {ci}: expected {ev:?}, actual {av:?}"));
            }
        }
    }
    (Verdict::Either, "differs only inside the NULL/empty marker family".into())
}

// ---------------------------------------------------------------------------
// mutations of a table

#[derive(Serialize, Deserialize, Clone, Debug, Hash, PartialEq)]
enum Mutation {
    None,
    /// cell (row, col) becomes domain value #v
    Cell(usize, usize, usize),
    DeleteRow(usize),
    DuplicateRow(usize),
    /// append a row made of domain value #v
    AddRow(usize),
    DropColumn(usize),
    /// append a column made of domain value #v
    AddColumn(usize),
}

fn mutations(rows: usize, cols: usize, table: &[Vec<usize>], dom: usize) -> Vec<Mutation> {
    let mut m = vec![Mutation::None];
    for r in 0..rows {
        for c in 0..cols {
            for v in 0..dom {
                if table[r][c] != v {
                    m.push(Mutation::Cell(r, c, v));
                }
            }
        }
    }
    for r in 0..rows {
        m.push(Mutation::DeleteRow(r));
        m.push(Mutation::DuplicateRow(r));
    }
    m.push(Mutation::AddRow(0));
    m.push(Mutation::AddRow(3));
    if cols > 1 {
        for c in 0..cols {
            m.push(Mutation::DropColumn(c));
        }
    }
    m.push(Mutation::AddColumn(0));
    m.push(Mutation::AddColumn(3));
    m
}

fn apply(table: &[Vec<usize>], cols: usize, m: &Mutation) -> (Vec<Vec<usize>>, usize) {
    let mut t: Vec<Vec<usize>> = table.to_vec();
    let mut cols = cols;
    match m {
        Mutation::None => {}
        Mutation::Cell(r, c, v) => t[*r][*c] = *v,
        Mutation::DeleteRow(r) => {
            t.remove(*r);
        }
        Mutation::DuplicateRow(r) => {
            let row = t[*r].clone();
            t.insert(*r, row);
        }
        Mutation::AddRow(v) => t.push(vec![*v; cols]),
        Mutation::DropColumn(c) => {
            for row in &mut t {
                row.remove(*c);
            }
            cols -= 1;
        }
        Mutation::AddColumn(v) => {
            for row in &mut t {
                row.push(*v);
            }
            cols += 1;
        }
    }
    (t, cols)
}

// ---------------------------------------------------------------------------
// part "compare"

/// formatted cell domain
const FDOM: [&str; 11] = ["a", "NULL", "", "(empty)", "a|b", "q\"q", "l\nl", "é", "1", "1.5", "true"];

#[derive(Serialize, Deserialize, Clone, Debug, Hash)]
struct CompareCase {
    cols: usize,
    /// expected table as indices into the formatted domain
    expected: Vec<Vec<usize>>,
    mutations: Vec<Mutation>,
}

fn fmt_table(t: &[Vec<usize>]) -> Vec<Vec<String>> {
    t.iter().map(|r| r.iter().map(|v| FDOM[*v].to_string()).collect()).collect()
}

fn run_compare(c: &CompareCase) -> Result<(bool, Verdict, bool), Fail> {
    let mut t = c.expected.clone();
    let mut cols = c.cols;
    for m in &c.mutations {
        let (t2, c2) = apply(&t, cols, m);
        t = t2;
        cols = c2;
    }
    let expected = fmt_table(&c.expected);
    let actual = fmt_table(&t);
    let (verdict, why) = reference_verdict(&expected, &actual);
    let r = mc_core::catch(|| verif_hooks::compare_results("select 1", c.cols, &actual, &expected))
        .map_err(|p| Fail::new("compare/panic", p))?;
    let accepted = r.is_ok();
    match (verdict, accepted) {
        (Verdict::MustAccept, false) => Err(Fail::new(
            "compare/rejects-identical",
            format!("compare_results(actual = expected = {expected:?}) failed: {}", r.unwrap_err()),
        )),
        (Verdict::MustReject, true) => Err(Fail::new(
            "compare/accepts-different",
            format!("compare_results accepted actual {actual:?} for expected {expected:?} ({why})"),
        )),
        _ => Ok((!c.mutations.iter().all(|m| *m == Mutation::None) && !c.expected.is_empty(), verdict, accepted)),
    }
}

// ---------------------------------------------------------------------------
// part "persist" (public persist / verify path)

#[derive(Serialize, Deserialize, Clone, Copy, Debug, Hash, PartialEq, Eq)]
enum Ty {
    Str,
    Int,
    Float,
    Bool,
}

/// typed cell domains: (SQL text, formatted text)
fn sql_domain(t: Ty) -> Vec<(&'static str, &'static str)> {
    match t {
        Ty::Str => vec![
            ("'a'", "a"),
            ("CAST(NULL AS VARCHAR)", "NULL"),
            ("''", ""),
            ("'b'", "b"),
            ("'a|b'", "a|b"),
            ("'q\"q'", "q\"q"),
            ("'l' || chr(10) || 'l'", "l\nl"),
            ("'é'", "é"),
            ("'NULL'", "NULL"),
            ("'(empty)'", "(empty)"),
            ("' x '", " x "),
        ],
        Ty::Int => vec![("CAST(1 AS BIGINT)", "1"), ("CAST(NULL AS BIGINT)", "NULL"), ("CAST(2 AS BIGINT)", "2")],
        Ty::Float => vec![("CAST(1.5 AS DOUBLE)", "1.5"), ("CAST(NULL AS DOUBLE)", "NULL"), ("CAST(2.5 AS DOUBLE)", "2.5")],
        Ty::Bool => vec![("true", "true"), ("CAST(NULL AS BOOLEAN)", "NULL"), ("false", "false")],
    }
}

#[derive(Serialize, Deserialize, Clone, Debug, Hash)]
struct PersistCase {
    types: Vec<Ty>,
    /// persisted table: indices into the column's typed domain
    persisted: Vec<Vec<usize>>,
    /// the later run returns the persisted table with this mutation
    mutation: Mutation,
}

fn sql_of(types: &[Ty], rows: &[Vec<usize>]) -> String {
    let names: Vec<String> = (0..types.len()).map(|i| format!("c{i}")).collect();
    let row_sql = |r: &[usize]| -> String {
        let cells: Vec<String> = r.iter().enumerate().map(|(c, v)| sql_domain(types[c])[*v].0.to_string()).collect();
        format!("({})", cells.join(", "))
    };
    if rows.is_empty() {
        let dummy: Vec<usize> = vec![0; types.len()];
        format!("SELECT * FROM (VALUES {}) AS t({}) WHERE false", row_sql(&dummy), names.join(", "))
    } else {
        let v: Vec<String> = rows.iter().map(|r| row_sql(r)).collect();
        format!("SELECT * FROM (VALUES {}) AS t({})", v.join(", "), names.join(", "))
    }
}

fn formatted_of(types: &[Ty], rows: &[Vec<usize>]) -> Vec<Vec<String>> {
    rows.iter().map(|r| r.iter().enumerate().map(|(c, v)| sql_domain(types[c])[*v].1.to_string()).collect()).collect()
}

struct PersistOutcome {
    verdict: Verdict,
    accepted: bool,
    nontrivial: bool,
}

fn run_persist(c: &PersistCase) -> Result<PersistOutcome, Fail> {
    let cols = c.types.len();
    // the mutated table; an added column is a string column
    let (actual_rows, actual_cols) = apply(&c.persisted, cols, &c.mutation);
    let mut actual_types = c.types.clone();
    match &c.mutation {
        Mutation::DropColumn(i) => {
            actual_types.remove(*i);
        }
        Mutation::AddColumn(_) => actual_types.push(Ty::Str),
        _ => {}
    }
    if actual_types.len() != actual_cols {
        return Err(Fail::new("harness", "column bookkeeping"));
    }
    for (r, row) in actual_rows.iter().enumerate() {
        for (ci, v) in row.iter().enumerate() {
            if *v >= sql_domain(actual_types[ci]).len() {
                return Err(Fail::new("harness", format!("value index out of domain at row {r} column {ci}")));
            }
        }
    }
    let expected_fmt = formatted_of(&c.types, &c.persisted);
    let actual_fmt = formatted_of(&actual_types, &actual_rows);
    let same_typed = c.mutation == Mutation::None;
    let (verdict, why) = if same_typed {
        (Verdict::MustAccept, "the run returns exactly the persisted result".to_string())
    } else {
        let (v, w) = reference_verdict(&expected_fmt, &actual_fmt);
        // formatted-identical but typed-different (e.g. the string 'NULL' for NULL): inside the marker family
        if v == Verdict::MustAccept { (Verdict::Either, "formats identically".into()) } else { (v, w) }
    };

    let dir = tempfile::tempdir().map_err(|e| Fail::new("harness", format!("tempdir: {e}")))?;
    let result_path = dir.path().join("result.csv");
    let write_bench = |name: &str, sql: &str| -> Result<std::path::PathBuf, Fail> {
        let p = dir.path().join(name);
        let text = format!("result {}\n\nrun\n{}\n", result_path.display(), sql);
        std::fs::write(&p, text).map_err(|e| Fail::new("harness", format!("write: {e}")))?;
        Ok(p)
    };
    let file_p = write_bench("persist.benchmark", &sql_of(&c.types, &c.persisted))?;
    let file_a = write_bench("verify.benchmark", &sql_of(&actual_types, &actual_rows))?;
    let rt = tokio::runtime::Builder::new_current_thread()
        .enable_all()
        .build()
        .map_err(|e| Fail::new("harness", format!("runtime: {e}")))?;
    let new_ctx = || SessionContext::new_with_config(SessionConfig::new().with_target_partitions(1));
    let out: Result<Result<(), String>, Fail> = rt.block_on(async {
        // 1. persist P
        let ctx = new_ctx();
        let mut bm = SqlBenchmark::new(&ctx, &file_p, dir.path())
            .await
            .map_err(|e| Fail::new("harness", format!("cannot parse the benchmark file: {e}")))?;
        bm.initialize(&ctx).await.map_err(|e| Fail::new("harness", format!("initialize: {e}")))?;
        bm.persist(&ctx).await.map_err(|e| Fail::new("persist/persist-error", format!("persist failed: {e}")))?;
        // 2. a later run returning A, verified against the persisted file
        let ctx2 = new_ctx();
        let mut bm2 = SqlBenchmark::new(&ctx2, &file_a, dir.path())
            .await
            .map_err(|e| Fail::new("harness", format!("cannot parse the benchmark file: {e}")))?;
        bm2.initialize(&ctx2).await.map_err(|e| Fail::new("harness", format!("initialize: {e}")))?;
        bm2.run(&ctx2, true).await.map_err(|e| Fail::new("harness", format!("run failed: {e}")))?;
        Ok(bm2.verify(&ctx2).await.map_err(|e| e.to_string()))
    });
    let verify = out?;
    let accepted = verify.is_ok();
    let persisted_text = || -> String {
        // the persisted file (or directory of part files), for the report
        let mut s = String::new();
        if result_path.is_dir() {
            if let Ok(rd) = std::fs::read_dir(&result_path) {
                let mut names: Vec<_> = rd.flatten().map(|e| e.path()).collect();
                names.sort();
                for p in names {
                    s.push_str(&std::fs::read_to_string(p).unwrap_or_default());
                }
            }
        } else {
            s = std::fs::read_to_string(&result_path).unwrap_or_default();
        }
        s
    };
    match (verdict, accepted) {
        (Verdict::MustAccept, false) => Err(Fail::new(
            "persist/rejects-own-persisted-result",
            format!(
                "persist then verify of the same result {expected_fmt:?} (query `{}`) failed: {}; persisted file: {:?}",
                sql_of(&c.types, &c.persisted),
                verify.unwrap_err(),
                persisted_text()
            ),
        )),
        (Verdict::MustReject, true) => Err(Fail::new(
            "persist/accepts-different-result",
            format!(
                "verify accepted the result {actual_fmt:?} against the persisted result {expected_fmt:?} ({why}); persisted file: {:?}",
                persisted_text()
            ),
        )),
        _ => Ok(PersistOutcome { verdict, accepted, nontrivial: !c.persisted.is_empty() && c.mutation != Mutation::None }),
    }
}

// ---------------------------------------------------------------------------
// part "replace"

#[derive(Serialize, Deserialize, Clone, Debug, Hash, PartialEq)]
enum Tok {
    Lit(String),
    /// `${name}` / `${name:-default}`
    Var { name: String, default: Option<String> },
    /// `${name|t|f}` / `${name:-default|t|f}`; the true branch may end with a nested variable
    Branch { name: String, default: Option<String>, t: String, t_var: Option<Box<Tok>>, f: String },
    /// text that looks like a placeholder but is not one of the supported forms: left unchanged
    Unsupported(String),
}

fn tok_text(t: &Tok) -> String {
    match t {
        Tok::Lit(s) | Tok::Unsupported(s) => s.clone(),
        Tok::Var { name, default } => match default {
            Some(d) => format!("${{{name}:-{d}}}"),
            None => format!("${{{name}}}"),
        },
        Tok::Branch { name, default, t, t_var, f } => {
            let tv = t_var.as_ref().map(|v| tok_text(v)).unwrap_or_default();
            match default {
                Some(d) => format!("${{{name}:-{d}|{t}{tv}|{f}}}"),
                None => format!("${{{name}|{t}{tv}|{f}}}"),
            }
        }
    }
}

#[derive(Serialize, Deserialize, Clone, Debug, Hash)]
struct ReplaceCase {
    tokens: Vec<Tok>,
    /// explicit replacement map (keys lower-case, as `insert_replacement` stores them)
    map: Vec<(String, String)>,
    /// environment (keys upper-case)
    env: Vec<(String, String)>,
}

fn lookup(name: &str, map: &HashMap<String, String>, env: &HashMap<String, String>) -> Option<String> {
    // explicit value first, then the environment; variable names are case-insensitive
    if let Some(v) = map.get(&name.to_lowercase()) {
        return Some(v.clone());
    }
    env.get(&name.to_uppercase()).cloned()
}

fn resolve(t: &Tok, map: &HashMap<String, String>, env: &HashMap<String, String>) -> Result<String, String> {
    match t {
        Tok::Lit(s) | Tok::Unsupported(s) => Ok(s.clone()),
        Tok::Var { name, default } => {
            lookup(name, map, env).or(default.clone()).ok_or_else(|| format!("missing value for {name}"))
        }
        Tok::Branch { name, default, t, t_var, f } => {
            let v = lookup(name, map, env).or(default.clone()).ok_or_else(|| format!("missing value for {name}"))?;
            if v.eq_ignore_ascii_case("true") {
                let mut s = t.clone();
                if let Some(tv) = t_var {
                    s.push_str(&resolve(tv, map, env)?);
                }
                Ok(s)
            } else {
                Ok(f.clone())
            }
        }
    }
}

fn run_replace(c: &ReplaceCase) -> Result<bool, Fail> {
    let map: HashMap<String, String> = c.map.iter().cloned().collect();
    let env: HashMap<String, String> = c.env.iter().cloned().collect();
    let input: String = c.tokens.iter().map(tok_text).collect();
    let mut expected: Result<String, String> = Ok(String::new());
    for t in &c.tokens {
        match (&mut expected, resolve(t, &map, &env)) {
            (Ok(acc), Ok(s)) => acc.push_str(&s),
            (Ok(_), Err(e)) => expected = Err(e),
            _ => {}
        }
    }
    // An unselected true branch with an unresolvable nested variable: the documentation does not say
    // whether that is an error; such inputs are not generated (see `explore`).
    let got = mc_core::catch(|| verif_hooks::process_replacements_with_env(&input, &map, &env))
        .map_err(|p| Fail::new("replace/panic", p))?;
    match (&expected, &got) {
        (Ok(e), Ok(g)) if e == g => {}
        (Err(_), Err(_)) => {}
        (Ok(e), Ok(g)) => {
            return Err(Fail::new(
                "replace/wrong-value",
                format!("process_replacements({input:?}, map {:?}, env {:?}) = {g:?}, expected {e:?}", c.map, c.env),
            ));
        }
        (Ok(e), Err(g)) => {
            return Err(Fail::new(
                "replace/unexpected-error",
                format!("process_replacements({input:?}, map {:?}, env {:?}) failed with {g}, expected {e:?}", c.map, c.env),
            ));
        }
        (Err(e), Ok(g)) => {
            return Err(Fail::new(
                "replace/missing-error",
                format!("process_replacements({input:?}, map {:?}, env {:?}) = {g:?}, expected an error ({e})", c.map, c.env),
            ));
        }
    }
    // non-trivial: a variable that is used has at least two competing sources
    let used = |name: &str| {
        c.tokens.iter().any(|t| match t {
            Tok::Var { name: n, .. } => n.eq_ignore_ascii_case(name),
            Tok::Branch { name: n, t_var, .. } => {
                n.eq_ignore_ascii_case(name)
                    || matches!(t_var.as_deref(), Some(Tok::Var { name: n2, .. }) if n2.eq_ignore_ascii_case(name))
            }
            _ => false,
        })
    };
    let competing = ["v", "w"].iter().any(|n| {
        let sources = map.contains_key(*n) as usize
            + env.contains_key(&n.to_uppercase()) as usize
            + c.tokens.iter().any(|t| match t {
                Tok::Var { name, default: Some(_) } | Tok::Branch { name, default: Some(_), .. } => name.eq_ignore_ascii_case(n),
                _ => false,
            }) as usize;
        used(n) && sources >= 2
    });
    Ok(competing)
}

fn token_menu() -> Vec<Tok> {
    let var = |n: &str, d: Option<&str>| Tok::Var { name: n.into(), default: d.map(|s| s.into()) };
    let br = |n: &str, d: Option<&str>, tv: Option<Tok>| Tok::Branch {
        name: n.into(),
        default: d.map(|s| s.into()),
        t: "T.".into(),
        t_var: tv.map(Box::new),
        f: "F".into(),
    };
    vec![
        Tok::Lit("x".into()),
        Tok::Lit("} $ {a}".into()),
        var("V", None),
        var("v", None),
        var("V", Some("D")),
        var("v", Some("a-b c")),
        var("W", None),
        var("W", Some("dw")),
        br("V", None, None),
        br("V", Some("true"), None),
        br("v", Some("TRUE"), None),
        br("V", Some("false"), None),
        br("V", Some("D"), None),
        br("V", Some("true"), Some(var("W", Some("dw")))),
        br("V", Some("false"), Some(var("w", Some("dw")))),
        Tok::Unsupported("${V!}".into()),
        Tok::Unsupported("${BAD-KEY:-fallback}".into()),
    ]
}

/// presence/value states of the variables: (map value, env value)
fn var_states(name: &str) -> Vec<(Option<(String, String)>, Option<(String, String)>)> {
    let (mvals, evals): (Vec<&str>, Vec<&str>) =
        if name == "v" { (vec!["M", "true", "False"], vec!["E", "TRUE", "false"]) } else { (vec!["wm"], vec!["we"]) };
    let mut m: Vec<Option<(String, String)>> = vec![None];
    m.extend(mvals.iter().map(|v| Some((name.to_string(), v.to_string()))));
    let mut e: Vec<Option<(String, String)>> = vec![None];
    e.extend(evals.iter().map(|v| Some((name.to_uppercase(), v.to_string()))));
    let mut out = vec![];
    for a in &m {
        for b in &e {
            out.push((a.clone(), b.clone()));
        }
    }
    out
}

// ---------------------------------------------------------------------------

#[derive(Serialize, Deserialize, Clone, Debug, Hash)]
enum Case {
    Compare(CompareCase),
    Persist(PersistCase),
    Replace(ReplaceCase),
}

fn size_of(c: &Case) -> usize {
    match c {
        Case::Compare(c) => c.expected.len() * 1000 + c.cols * 100 + c.mutations.len(),
        Case::Persist(c) => c.persisted.len() * 1000 + c.types.len() * 100 + (c.mutation != Mutation::None) as usize,
        Case::Replace(c) => c.tokens.len() * 1000 + (c.map.len() + c.env.len()) * 100,
    }
}

fn run_case(c: &Case) -> Result<(), Fail> {
    match c {
        Case::Compare(x) => run_compare(x).map(|_| ()),
        Case::Persist(x) => run_persist(x).map(|_| ()),
        Case::Replace(x) => run_replace(x).map(|_| ()),
    }
}

fn tables(cols: usize, rows: usize, dom: usize) -> Vec<Vec<Vec<usize>>> {
    let vals: Vec<usize> = (0..dom).collect();
    let row_dom = enumerate::sequences(&vals, cols, cols);
    enumerate::sequences(&row_dom, rows, rows)
}

fn explore(ctx: &Ctx) {
    let findings = Findings::new();
    let fail = |c: Case, f: Fail| {
        if f.class == "harness" {
            ctx.machinery_error(format!("{} (case {})", f.what, serde_json::to_string(&c).unwrap()));
        } else {
            findings.report(&f.class, size_of(&c), f.what, &c);
        }
    };

    // ---- part "compare"
    let mut shapes: Vec<(usize, usize)> = vec![(1, 0), (1, 1), (1, 2), (2, 1), (2, 2), (3, 1)];
    if ctx.thorough() {
        shapes.push((3, 2));
    }
    let mut compare_tables: Vec<(usize, Vec<Vec<usize>>)> = vec![];
    for (cols, rows) in &shapes {
        let dom = if *cols == 3 && *rows == 2 { 5 } else { FDOM.len() };
        for t in tables(*cols, *rows, dom) {
            compare_tables.push((*cols, t));
        }
    }
    ctx.count("compare_expected_tables", compare_tables.len() as u64);
    let pairs = ctx.thorough();
    compare_tables.par_iter().for_each(|(cols, t)| {
        if ctx.out_of_time() || findings.overflow() {
            return;
        }
        let firsts = mutations(t.len(), *cols, t, FDOM.len());
        let (mut n, mut nt, mut either, mut either_acc) = (0u64, 0u64, 0u64, 0u64);
        let mut one = |muts: Vec<Mutation>| {
            let c = CompareCase { cols: *cols, expected: t.clone(), mutations: muts };
            n += 1;
            match run_compare(&c) {
                Ok((nontrivial, verdict, accepted)) => {
                    if nontrivial {
                        nt += 1;
                        if t.len() * cols <= 2 {
                            ctx.nontrivial(&c);
                        }
                    }
                    if verdict == Verdict::Either {
                        either += 1;
                        either_acc += accepted as u64;
                    }
                    if nontrivial && *cols == 2 && t.len() == 2 && t[0][1] == 4 && ctx.want_sample() {
                        ctx.sample(json!({"part": "compare", "case": c, "expected": fmt_table(&c.expected), "reference_verdict": format!("{verdict:?}"), "accepted": accepted}));
                    }
                }
                Err(f) => fail(Case::Compare(c), f),
            }
        };
        for m in &firsts {
            one(vec![m.clone()]);
            // thorough: every second mutation on top of a cell mutation (small tables only)
            if pairs && t.len() * cols <= 2 {
                if let Mutation::Cell(..) = m {
                    let (t1, c1) = apply(t, *cols, m);
                    for m2 in mutations(t1.len(), c1, &t1, FDOM.len()) {
                        if m2 != Mutation::None {
                            one(vec![m.clone(), m2]);
                        }
                    }
                }
            }
        }
        ctx.evals(n);
        ctx.count("compare_cases", n);
        ctx.count("compare_cases_nontrivial", nt);
        ctx.count("compare_cases_in_null_empty_family(either verdict allowed)", either);
        ctx.count("compare_cases_in_null_empty_family_accepted_by_impl", either_acc);
    });

    // ---- part "replace"
    let max_tokens = ctx.pick(2, 3);
    let menu = token_menu();
    let seqs = enumerate::sequences(&menu, 1, max_tokens);
    let vstates = var_states("v");
    let wstates = var_states("w");
    ctx.count("replace_token_sequences", seqs.len() as u64);
    seqs.par_iter().for_each(|toks| {
        if ctx.out_of_time() || findings.overflow() {
            return;
        }
        let (mut n, mut nt) = (0u64, 0u64);
        for vs in &vstates {
            for ws in &wstates {
                let mut map = vec![];
                let mut env = vec![];
                for (m, e) in [vs, ws] {
                    if let Some(x) = m {
                        map.push(x.clone());
                    }
                    if let Some(x) = e {
                        env.push(x.clone());
                    }
                }
                let c = ReplaceCase { tokens: toks.clone(), map, env };
                n += 1;
                match run_replace(&c) {
                    Ok(nontrivial) => {
                        if nontrivial {
                            nt += 1;
                            if toks.len() == 1 {
                                ctx.nontrivial(&c);
                            }
                            if toks.len() == 2 && matches!(toks[0], Tok::Branch { t_var: Some(_), .. }) && c.map.len() == 2 && c.env.len() == 2 && ctx.want_sample() {
                                ctx.sample(json!({"part": "replace", "input": toks.iter().map(tok_text).collect::<String>(), "case": c}));
                            }
                        }
                    }
                    Err(f) => fail(Case::Replace(c), f),
                }
            }
        }
        ctx.evals(n);
        ctx.count("replace_cases", n);
        ctx.count("replace_cases_nontrivial", nt);
    });

    // informational: nested forms the documentation does not define
    {
        let mut map = HashMap::new();
        map.insert("v".to_string(), "M".to_string());
        map.insert("w".to_string(), "wm".to_string());
        let env = HashMap::new();
        let mut notes = vec![];
        for (input, shell_like) in [("${V:-${W}}", "M"), ("${X:-${W}}", "wm"), ("${V|T|f.${W}}", "f.wm")] {
            let got = mc_core::catch(|| verif_hooks::process_replacements_with_env(input, &map, &env));
            notes.push(json!({"input": input, "map": {"v": "M", "w": "wm"}, "observed": format!("{got:?}"), "shell_like_reading": shell_like}));
        }
        ctx.set_extra("undocumented_nested_forms(informational, not checked)", json!(notes));
    }

    // ---- part "persist"
    let type_sets: Vec<Vec<Ty>> = if ctx.quick() {
        vec![vec![Ty::Str], vec![Ty::Int], vec![Ty::Float], vec![Ty::Bool], vec![Ty::Str, Ty::Int]]
    } else {
        vec![vec![Ty::Str], vec![Ty::Int], vec![Ty::Float], vec![Ty::Bool], vec![Ty::Str, Ty::Int], vec![Ty::Int, Ty::Str], vec![Ty::Str, Ty::Str], vec![Ty::Bool, Ty::Float]]
    };
    let mut persist_cases: Vec<PersistCase> = vec![];
    for types in &type_sets {
        let doms: Vec<usize> = types.iter().map(|t| sql_domain(*t).len()).collect();
        let max_rows = if types.len() == 1 { 2 } else { ctx.pick(1, 2) };
        // string columns of two-column tables use the first 5 values only
        let doms: Vec<usize> = if types.len() > 1 { doms.iter().map(|d| (*d).min(5)).collect() } else { doms };
        let mut row_dom: Vec<Vec<usize>> = vec![];
        enumerate::product(&doms, |ix| row_dom.push(ix.to_vec()));
        for nrows in 0..=max_rows {
            for t in enumerate::sequences(&row_dom, nrows, nrows) {
                // mutations: cell values stay inside the column's own domain; added rows/columns use value 0 / 3
                let mut muts = vec![Mutation::None];
                for r in 0..nrows {
                    for (c, d) in doms.iter().enumerate() {
                        for v in 0..*d {
                            if t[r][c] != v {
                                muts.push(Mutation::Cell(r, c, v));
                            }
                        }
                    }
                    muts.push(Mutation::DeleteRow(r));
                    muts.push(Mutation::DuplicateRow(r));
                }
                muts.push(Mutation::AddRow(0));
                if types.len() > 1 {
                    muts.push(Mutation::DropColumn(0));
                    muts.push(Mutation::DropColumn(1));
                }
                muts.push(Mutation::AddColumn(0));
                // quick: identical + a thinned set of mutations for 2-row tables
                for (i, m) in muts.into_iter().enumerate() {
                    if ctx.quick() && nrows == 2 && i > 0 && i % 3 != 1 {
                        continue;
                    }
                    persist_cases.push(PersistCase { types: types.clone(), persisted: t.clone(), mutation: m });
                }
            }
        }
    }
    ctx.count("persist_cases_planned", persist_cases.len() as u64);
    persist_cases.par_iter().for_each(|c| {
        if ctx.out_of_time() || findings.overflow() {
            return;
        }
        ctx.eval();
        match mc_core::catch(|| run_persist(c)).unwrap_or_else(|p| Err(Fail::new("persist/panic", p))) {
            Ok(o) => {
                ctx.count("persist_cases", 1);
                if o.nontrivial {
                    ctx.nontrivial(c);
                }
                match o.verdict {
                    Verdict::MustAccept => ctx.count("persist_same_result_accepted", 1),
                    Verdict::MustReject => ctx.count("persist_different_result_rejected", 1),
                    Verdict::Either => {
                        ctx.count("persist_cases_in_null_empty_family(either verdict allowed)", 1);
                        ctx.count("persist_cases_in_null_empty_family_accepted_by_impl", o.accepted as u64);
                    }
                }
                if c.types.len() == 2 && c.persisted.len() == 1 && matches!(c.mutation, Mutation::Cell(..)) && ctx.want_sample() {
                    ctx.sample(json!({"part": "persist", "case": c, "persist_query": sql_of(&c.types, &c.persisted)}));
                }
            }
            Err(f) => fail(Case::Persist(c.clone()), f),
        }
    });

    ctx.set_extra(
        "bounds",
        json!({
            "compare": {"shapes(cols,rows)": shapes, "cell_domain": FDOM, "mutations": "identity, every cell to every other domain value, delete/duplicate each row, add a row, drop each column, add a column",
                         "pairs_of_mutations": if pairs { "tables with <= 2 cells" } else { "no" }},
            "replace": {"max_tokens": max_tokens, "token_menu": menu.iter().map(tok_text).collect::<Vec<_>>(),
                        "V_states": "map in {absent,M,true,False} x env in {absent,E,TRUE,false}", "W_states": "map in {absent,wm} x env in {absent,we}"},
            "persist": {"column_types": format!("{type_sets:?}"), "max_rows": "2 for one column, 1 (quick) / 2 (thorough) for two columns",
                        "typed_domains": "Str: a, NULL, '', b, a|b, q\"q, l\\nl, é, 'NULL', '(empty)', ' x ' (first 5 in two-column tables); Int/Float/Bool: two values and NULL",
                        "quick_thinning": "2-row tables: identity and every third mutation"},
        }),
    );
    ctx.assume("a cell pair in which both values belong to {\"NULL\", \"\", \"(empty)\"} is covered by the runner's NULL/empty equivalences: either verdict is allowed there");
    ctx.assume("column_count passed to compare_results is the width of the expected rows (as the file readers guarantee)");
    ctx.assume("placeholders: only the documented flat forms and a variable inside the true branch (pinned by the repository's tests) are demanded; nested defaults are reported as information only");
    findings.flush(ctx);
}

fn replay(v: &Value) -> Result<(), String> {
    let c: Case = serde_json::from_value(v.clone()).map_err(|e| format!("bad case: {e}"))?;
    mc_core::catch(|| run_case(&c)).unwrap_or_else(|p| Err(Fail::new("panic", p))).map_err(|f| f.text())
}

fn main() {
    mc_core::quiet_panics();
    run_check(
        "C46",
        Level::Exploration,
        "compare: every expected table within the bounds x identity and every single mutation (cell, row, column) through the compare_results hook; \
         persist: typed tables persisted with SqlBenchmark::persist, then a run returning the same or a mutated table verified with SqlBenchmark::verify; \
         replace: every token sequence x every map/env state through the process_replacements hook. \
         Non-trivial = compare/persist: a mutated, non-empty table; replace: a used variable has >= 2 competing sources (map/env/default)",
        explore,
        replay,
    );
}
