//! `Arc<dyn ExecutionPlan>` family: exercises the blanket
//! `impl<T: DynTreeNode + ?Sized> TreeNode for Arc<T>` through
//! `ExecutionPlan::children` / `replace_children_if_necessary`, with real
//! operators (EmptyExec, PlaceholderRowExec, FilterExec, ProjectionExec,
//! CoalescePartitionsExec, GlobalLimitExec, LocalLimitExec, CrossJoinExec) and
//! a harness operator `HExec` with any number of children.
use super::Family;
use datafusion::arrow::datatypes::{DataType, Field, Schema, SchemaRef};
use datafusion::common::tree_node::TreeNodeRecursion;
use datafusion::common::{Result, ScalarValue, internal_err};
use datafusion::execution::{SendableRecordBatchStream, TaskContext};
use datafusion::physical_expr::expressions::Literal;
use datafusion::physical_expr::{EquivalenceProperties, Partitioning, PhysicalExpr};
use datafusion::physical_plan::coalesce_partitions::CoalescePartitionsExec;
use datafusion::physical_plan::empty::EmptyExec;
use datafusion::physical_plan::execution_plan::{Boundedness, EmissionType};
use datafusion::physical_plan::filter::FilterExec;
use datafusion::physical_plan::joins::CrossJoinExec;
use datafusion::physical_plan::limit::{GlobalLimitExec, LocalLimitExec};
use datafusion::physical_plan::placeholder_row::PlaceholderRowExec;
use datafusion::physical_plan::projection::ProjectionExec;
use datafusion::physical_plan::{DisplayAs, DisplayFormatType, ExecutionPlan, PlanProperties};
use std::sync::Arc;

type EP = Arc<dyn ExecutionPlan>;

#[derive(Clone, Copy, PartialEq, Eq, Debug)]
pub enum PK {
    Empty,
    Placeholder,
    H,
    Filter,
    Projection,
    Coalesce,
    GlobalLimit,
    LocalLimit,
    CrossJoin,
}

pub fn menu(arity: usize) -> Vec<PK> {
    use PK::*;
    match arity {
        0 => vec![Empty, Placeholder, H],
        1 => vec![Filter, Projection, Coalesce, GlobalLimit, LocalLimit, H],
        2 => vec![CrossJoin, H],
        _ => vec![H],
    }
}

fn schema1(name: &str) -> SchemaRef {
    Arc::new(Schema::new(vec![Field::new(name, DataType::Int64, true)]))
}

/// harness operator: any number of children, a label, never executed
#[derive(Debug)]
pub struct HExec {
    pub id: usize,
    pub label: u8,
    pub children: Vec<EP>,
    cache: Arc<PlanProperties>,
}

impl HExec {
    pub fn new(id: usize, label: u8, children: Vec<EP>) -> Self {
        let cache = PlanProperties::new(
            EquivalenceProperties::new(schema1("h")),
            Partitioning::UnknownPartitioning(1),
            EmissionType::Incremental,
            Boundedness::Bounded,
        );
        HExec { id, label, children, cache: Arc::new(cache) }
    }
}

impl DisplayAs for HExec {
    fn fmt_as(&self, _t: DisplayFormatType, f: &mut std::fmt::Formatter) -> std::fmt::Result {
        write!(f, "HExec: id={} label={}", self.id, self.label)
    }
}

impl ExecutionPlan for HExec {
    fn name(&self) -> &str {
        "HExec"
    }
    fn properties(&self) -> &Arc<PlanProperties> {
        &self.cache
    }
    fn children(&self) -> Vec<&EP> {
        self.children.iter().collect()
    }
    fn apply_expressions(
        &self,
        _f: &mut dyn FnMut(&Arc<dyn PhysicalExpr>) -> Result<TreeNodeRecursion>,
    ) -> Result<TreeNodeRecursion> {
        Ok(TreeNodeRecursion::Continue)
    }
    fn with_new_children(self: Arc<Self>, children: Vec<EP>) -> Result<EP> {
        Ok(Arc::new(HExec::new(self.id, self.label, children)))
    }
    fn execute(&self, _partition: usize, _context: Arc<TaskContext>) -> Result<SendableRecordBatchStream> {
        internal_err!("HExec is never executed")
    }
}

pub fn build_pk(pk: PK, id: usize, l: u8, mut ch: Vec<EP>) -> EP {
    match pk {
        PK::Empty => Arc::new(EmptyExec::new(schema1(&format!("e{id}_{}", l % 8)))),
        PK::Placeholder => Arc::new(PlaceholderRowExec::new(schema1(&format!("r{id}_{}", l % 8)))),
        PK::H => Arc::new(HExec::new(if ch.is_empty() { id } else { 0 }, l % 8, ch)),
        PK::Filter => {
            let pred: Arc<dyn PhysicalExpr> = Arc::new(Literal::new(ScalarValue::Boolean(Some(l % 2 == 1))));
            Arc::new(FilterExec::try_new(pred, ch.remove(0)).expect("harness: FilterExec::try_new"))
        }
        PK::Projection => {
            let e: Arc<dyn PhysicalExpr> = Arc::new(Literal::new(ScalarValue::Int64(Some((l % 8) as i64))));
            Arc::new(ProjectionExec::try_new(vec![(e, "p".to_string())], ch.remove(0)).expect("harness: ProjectionExec::try_new"))
        }
        PK::Coalesce => Arc::new(CoalescePartitionsExec::new(ch.remove(0))),
        PK::GlobalLimit => Arc::new(GlobalLimitExec::new(ch.remove(0), (l % 8) as usize, None)),
        PK::LocalLimit => Arc::new(LocalLimitExec::new(ch.remove(0), (l % 8) as usize)),
        PK::CrossJoin => {
            let r = ch.pop().unwrap();
            let le = ch.pop().unwrap();
            Arc::new(CrossJoinExec::new(le, r))
        }
    }
}

fn parse_id_label(s: &str, prefix: &str) -> (usize, u8) {
    let rest = s.strip_prefix(prefix).unwrap_or_else(|| panic!("harness: unexpected name {s}"));
    let (a, b) = rest.split_once('_').unwrap_or_else(|| panic!("harness: unexpected name {s}"));
    (a.parse().unwrap(), b.parse().unwrap())
}

/// Inverse of `build_pk` through each operator's own accessors (not through
/// `ExecutionPlan::children`).
pub fn decompose_pk(p: &EP) -> (PK, usize, u8, Vec<EP>) {
    let c = |x: &EP| Arc::clone(x);
    if let Some(x) = p.downcast_ref::<EmptyExec>() {
        let (id, l) = parse_id_label(x.schema().field(0).name(), "e");
        return (PK::Empty, id, l, vec![]);
    }
    if let Some(x) = p.downcast_ref::<PlaceholderRowExec>() {
        let (id, l) = parse_id_label(x.schema().field(0).name(), "r");
        return (PK::Placeholder, id, l, vec![]);
    }
    if let Some(x) = p.downcast_ref::<HExec>() {
        return (PK::H, x.id, x.label, x.children.clone());
    }
    if let Some(x) = p.downcast_ref::<FilterExec>() {
        let l = match x.predicate().downcast_ref::<Literal>().map(|v| v.value().clone()) {
            Some(ScalarValue::Boolean(Some(b))) => b as u8,
            other => panic!("harness: unexpected predicate {other:?}"),
        };
        return (PK::Filter, 0, l, vec![c(x.input())]);
    }
    if let Some(x) = p.downcast_ref::<ProjectionExec>() {
        let l = match x.expr()[0].expr.downcast_ref::<Literal>().map(|v| v.value().clone()) {
            Some(ScalarValue::Int64(Some(v))) => v as u8,
            other => panic!("harness: unexpected projection {other:?}"),
        };
        return (PK::Projection, 0, l, vec![c(x.input())]);
    }
    if let Some(x) = p.downcast_ref::<CoalescePartitionsExec>() {
        return (PK::Coalesce, 0, 0, vec![c(x.input())]);
    }
    if let Some(x) = p.downcast_ref::<GlobalLimitExec>() {
        return (PK::GlobalLimit, 0, x.skip() as u8, vec![c(x.input())]);
    }
    if let Some(x) = p.downcast_ref::<LocalLimitExec>() {
        return (PK::LocalLimit, 0, x.fetch() as u8, vec![c(x.input())]);
    }
    if let Some(x) = p.downcast_ref::<CrossJoinExec>() {
        return (PK::CrossJoin, 0, 0, vec![c(x.left()), c(x.right())]);
    }
    panic!("harness: unexpected execution plan {}", p.name());
}

pub fn states(pk: PK) -> u8 {
    match pk {
        PK::Coalesce | PK::CrossJoin => 1,
        PK::Filter => 2,
        _ => 8,
    }
}

pub struct ExecPlanFam;

impl Family for ExecPlanFam {
    type Node = EP;
    const NAME: &'static str = "execplan";
    fn menu_len(arity: usize) -> usize {
        menu(arity).len()
    }
    fn build(kind: usize, id: usize, label: u8, children: Vec<EP>) -> EP {
        build_pk(menu(children.len())[kind], id, label, children)
    }
    fn decompose(node: EP) -> (usize, usize, u8, Vec<EP>) {
        let (pk, id, l, ch) = decompose_pk(&node);
        let kind = menu(ch.len())
            .iter()
            .position(|k| *k == pk)
            .unwrap_or_else(|| panic!("harness: kind {pk:?} not in the menu of arity {}", ch.len()));
        (kind, id, l, ch)
    }
    fn label_states(arity: usize, kind: usize) -> u8 {
        states(menu(arity)[kind])
    }
    fn same(a: &EP, b: &EP) -> bool {
        super::same_by_decompose::<Self>(a, b)
    }
    fn short(node: &EP) -> String {
        fn go(n: &EP, s: &mut String) {
            let (pk, id, l, ch) = decompose_pk(n);
            s.push_str(&format!("{pk:?}"));
            if ch.is_empty() {
                s.push_str(&format!("#{id}"));
            }
            if l > 0 {
                s.push_str(&format!("'{l}"));
            }
            if !ch.is_empty() {
                s.push('(');
                for (i, k) in ch.iter().enumerate() {
                    if i > 0 {
                        s.push(' ');
                    }
                    go(k, s);
                }
                s.push(')');
            }
        }
        let mut s = String::new();
        go(node, &mut s);
        s
    }
    fn kind_label(node: &EP) -> String {
        format!("{:?}", decompose_pk(node).0)
    }
}
