//! `LogicalPlan` family.
use super::{Drv, Family, ImplRes, RewriteDrv, VisitDrv};
use crate::spec::{Api, Ph};
use std::cell::RefCell;
use datafusion::arrow::datatypes::{DataType, Field, Schema};
use datafusion::common::{DFSchema, DFSchemaRef, JoinConstraint, JoinType, NullEquality, Result, ScalarValue, Spans};
use datafusion::logical_expr::expr::{Exists, InSubquery};
use datafusion::logical_expr::logical_plan::{
    CreateView, DdlStatement, Distinct, EmptyRelation, Extension, Filter, Join, Limit, Partitioning, Prepare,
    Projection, RecursiveQuery, Repartition, Sort, Statement, Subquery, SubqueryAlias, Union, Values, Window,
};
use datafusion::logical_expr::{Expr, LogicalPlan, UserDefinedLogicalNodeCore};
use std::sync::Arc;

#[derive(Clone, Copy, PartialEq, Eq, Debug)]
pub enum PK {
    Empty,
    Values,
    Scan,
    Projection,
    Filter,
    Limit,
    Sort,
    DistinctAll,
    Repartition,
    Subquery,
    SubqueryAlias,
    Window,
    CreateView,
    Prepare,
    Ext,
    Join,
    Recursive,
    Union,
}

pub fn menu(arity: usize) -> Vec<PK> {
    use PK::*;
    match arity {
        0 => vec![Empty, Values, Scan],
        1 => vec![
            Projection,
            Filter,
            Limit,
            Sort,
            DistinctAll,
            Repartition,
            Subquery,
            SubqueryAlias,
            Window,
            CreateView,
            Prepare,
            Ext,
        ],
        2 => vec![Join, Recursive, Union, Ext],
        _ => vec![Union, Ext],
    }
}

#[derive(Debug, PartialEq, Eq, Hash)]
pub struct HNode {
    pub label: u8,
    pub inputs: Vec<LogicalPlan>,
    pub exprs: Vec<Expr>,
    pub schema: DFSchemaRef,
}

impl PartialOrd for HNode {
    fn partial_cmp(&self, other: &Self) -> Option<std::cmp::Ordering> {
        match self.label.partial_cmp(&other.label) {
            Some(std::cmp::Ordering::Equal) => self.inputs.partial_cmp(&other.inputs),
            o => o,
        }
    }
}

impl UserDefinedLogicalNodeCore for HNode {
    fn name(&self) -> &str {
        "HNode"
    }
    fn inputs(&self) -> Vec<&LogicalPlan> {
        self.inputs.iter().collect()
    }
    fn schema(&self) -> &DFSchemaRef {
        &self.schema
    }
    fn expressions(&self) -> Vec<Expr> {
        self.exprs.clone()
    }
    fn fmt_for_explain(&self, f: &mut std::fmt::Formatter) -> std::fmt::Result {
        write!(f, "HNode: label={}", self.label)
    }
    fn with_exprs_and_inputs(&self, exprs: Vec<Expr>, inputs: Vec<LogicalPlan>) -> Result<Self> {
        Ok(HNode { label: self.label, inputs, exprs, schema: Arc::clone(&self.schema) })
    }
}

pub fn one_field(name: &str) -> DFSchemaRef {
    Arc::new(DFSchema::try_from(Schema::new(vec![Field::new(name, DataType::Int64, true)])).unwrap())
}

pub fn lit(v: i64) -> Expr {
    Expr::Literal(ScalarValue::Int64(Some(v)), None)
}
pub fn unlit(e: &Expr) -> i64 {
    match e {
        Expr::Literal(ScalarValue::Int64(Some(v)), None) => *v,
        other => panic!("harness: expected literal, got {other:?}"),
    }
}

const JT: [JoinType; 4] = [JoinType::Inner, JoinType::Left, JoinType::Right, JoinType::Full];

fn parse_id_label(s: &str, prefix: &str) -> (usize, u8) {
    let rest = s.strip_prefix(prefix).unwrap_or_else(|| panic!("harness: unexpected name {s}"));
    let (a, b) = rest.split_once('_').unwrap_or_else(|| panic!("harness: unexpected name {s}"));
    (a.parse().unwrap(), b.parse().unwrap())
}
fn parse_label(s: &str, prefix: &str) -> u8 {
    s.strip_prefix(prefix).unwrap_or_else(|| panic!("harness: unexpected name {s}")).parse().unwrap()
}

/// Expressions that embed the given plans as subqueries (one top-level
/// expression per subquery, the expression form cycling with the position).
pub fn subquery_exprs(subs: Vec<LogicalPlan>) -> Vec<Expr> {
    subs.into_iter()
        .enumerate()
        .map(|(i, p)| {
            let sq = match p {
                LogicalPlan::Subquery(s) => s,
                other => panic!("harness: subquery child must be a Subquery node, got {other:?}"),
            };
            match i % 3 {
                0 => Expr::Exists(Exists::new(sq, false)),
                1 => Expr::ScalarSubquery(sq),
                _ => Expr::InSubquery(InSubquery::new(Box::new(lit(0)), sq, false)),
            }
        })
        .collect()
}

/// Inverse of `subquery_exprs` (returns the leading subquery expressions as
/// `LogicalPlan::Subquery` nodes and the remaining expressions).
pub fn split_subquery_exprs(exprs: Vec<Expr>) -> (Vec<LogicalPlan>, Vec<Expr>) {
    let mut subs = vec![];
    let mut rest = vec![];
    for e in exprs {
        match e {
            Expr::Exists(x) if rest.is_empty() => subs.push(LogicalPlan::Subquery(x.subquery)),
            Expr::ScalarSubquery(s) if rest.is_empty() => subs.push(LogicalPlan::Subquery(s)),
            Expr::InSubquery(x) if rest.is_empty() => subs.push(LogicalPlan::Subquery(x.subquery)),
            other => rest.push(other),
        }
    }
    (subs, rest)
}

/// Build a plan node.  `subs` (only non-empty in the `*_with_subqueries`
/// mode) are embedded as subquery expressions in front of the node's own
/// expressions; only kinds that carry an expression list accept them.
pub fn build_pk(pk: PK, id: usize, l: u8, subs: Vec<LogicalPlan>, mut ch: Vec<LogicalPlan>) -> LogicalPlan {
    let mut sub_exprs = subquery_exprs(subs);
    let arc = |p: LogicalPlan| Arc::new(p);
    match pk {
        PK::Empty => LogicalPlan::EmptyRelation(EmptyRelation {
            produce_one_row: false,
            schema: one_field(&format!("e{id}_{}", l % 8)),
        }),
        PK::Values => LogicalPlan::Values(Values { schema: one_field("v"), values: vec![vec![lit((id * 8) as i64 + (l % 8) as i64)]] }),
        PK::Scan => {
            let schema = Schema::new(vec![Field::new("a", DataType::Int64, true)]);
            datafusion::logical_expr::table_scan(Some(format!("t{id}_{}", l % 8)), &schema, None).unwrap().build().unwrap()
        }
        PK::Projection => {
            sub_exprs.push(lit(l as i64 % 8));
            let fields: Vec<Field> =
                (0..sub_exprs.len()).map(|i| Field::new(format!("p{i}"), DataType::Int64, true)).collect();
            let schema = Arc::new(DFSchema::try_from(Schema::new(fields)).unwrap());
            LogicalPlan::Projection(Projection::try_new_with_schema(sub_exprs, arc(ch.remove(0)), schema).unwrap())
        }
        PK::Filter => {
            // predicate: label literal, or (subquery-mode) `label AND sub AND ...` is avoided:
            // Filter carries exactly one expression, so at most one subquery and the label moves into it
            let pred = match sub_exprs.len() {
                0 => lit(l as i64 % 8),
                1 => Expr::BinaryExpr(datafusion::logical_expr::BinaryExpr::new(
                    Box::new(sub_exprs.remove(0)),
                    datafusion::logical_expr::Operator::And,
                    Box::new(lit(l as i64 % 8)),
                )),
                _ => panic!("harness: Filter takes at most one subquery"),
            };
            LogicalPlan::Filter(Filter::new(pred, arc(ch.remove(0))))
        }
        PK::Limit => {
            LogicalPlan::Limit(Limit { skip: None, fetch: Some(Box::new(lit(l as i64 % 8))), input: arc(ch.remove(0)) })
        }
        PK::Sort => LogicalPlan::Sort(Sort { expr: vec![], input: arc(ch.remove(0)), fetch: Some((l % 8) as usize) }),
        PK::DistinctAll => LogicalPlan::Distinct(Distinct::All(arc(ch.remove(0)))),
        PK::Repartition => LogicalPlan::Repartition(Repartition {
            input: arc(ch.remove(0)),
            partitioning_scheme: Partitioning::RoundRobinBatch((l % 8) as usize + 1),
        }),
        PK::Subquery => LogicalPlan::Subquery(Subquery {
            subquery: arc(ch.remove(0)),
            outer_ref_columns: vec![lit(l as i64 % 8)],
            spans: Spans::new(),
        }),
        PK::SubqueryAlias => {
            // `try_new` derives the schema from the input; a rewrite of the input must not change
            // the alias node ("ordinary child rewrites preserve derived schemas"), so the harness
            // pins the derived schema to a constant
            let mut sa = SubqueryAlias::try_new(arc(ch.remove(0)), format!("s{}", l % 8)).unwrap();
            sa.schema = one_field("sa");
            LogicalPlan::SubqueryAlias(sa)
        }
        PK::Window => LogicalPlan::Window(Window {
            input: arc(ch.remove(0)),
            window_expr: sub_exprs,
            schema: one_field(&format!("w{}", l % 8)),
        }),
        PK::CreateView => LogicalPlan::Ddl(DdlStatement::CreateView(CreateView {
            name: format!("v{}", l % 8).into(),
            input: arc(ch.remove(0)),
            or_replace: false,
            definition: None,
            temporary: false,
        })),
        PK::Prepare => LogicalPlan::Statement(Statement::Prepare(Prepare {
            name: format!("q{}", l % 8),
            fields: vec![],
            input: arc(ch.remove(0)),
        })),
        PK::Ext => LogicalPlan::Extension(Extension {
            node: Arc::new(HNode { label: l % 8, inputs: ch, exprs: sub_exprs, schema: one_field("x") }),
        }),
        PK::Join => {
            let right = ch.pop().unwrap();
            let left = ch.pop().unwrap();
            // subquery mode: first subquery (if any) becomes the join filter, the rest `on` pairs
            let filter = if sub_exprs.is_empty() { None } else { Some(sub_exprs.remove(0)) };
            LogicalPlan::Join(Join {
                left: arc(left),
                right: arc(right),
                on: sub_exprs.into_iter().map(|e| (e, lit(0))).collect(),
                filter,
                join_type: JT[(l % 4) as usize],
                join_constraint: JoinConstraint::On,
                schema: Arc::new(DFSchema::empty()),
                null_equality: NullEquality::NullEqualsNothing,
                null_aware: false,
            })
        }
        PK::Recursive => {
            let r = ch.pop().unwrap();
            let s = ch.pop().unwrap();
            LogicalPlan::RecursiveQuery(RecursiveQuery {
                name: format!("r{}", l % 8),
                static_term: arc(s),
                recursive_term: arc(r),
                is_distinct: false,
                schema: one_field("r"),
            })
        }
        PK::Union => LogicalPlan::Union(Union {
            inputs: ch.into_iter().map(Arc::new).collect(),
            schema: one_field(&format!("u{}", l % 8)),
        }),
    }
}

fn un(a: Arc<LogicalPlan>) -> LogicalPlan {
    Arc::unwrap_or_clone(a)
}

/// Inverse of `build_pk`: (kind, id, label, subquery nodes, inputs).
pub fn decompose_pk(p: LogicalPlan) -> (PK, usize, u8, Vec<LogicalPlan>, Vec<LogicalPlan>) {
    match p {
        LogicalPlan::EmptyRelation(e) => {
            let (id, l) = parse_id_label(e.schema.field(0).name(), "e");
            (PK::Empty, id, l, vec![], vec![])
        }
        LogicalPlan::Values(v) => {
            let x = unlit(&v.values[0][0]);
            (PK::Values, (x / 8) as usize, (x % 8) as u8, vec![], vec![])
        }
        LogicalPlan::TableScan(t) => {
            let (id, l) = parse_id_label(t.table_name.table(), "t");
            (PK::Scan, id, l, vec![], vec![])
        }
        LogicalPlan::Projection(mut pr) => {
            let last = pr.expr.pop().unwrap();
            let (subs, rest) = split_subquery_exprs(pr.expr);
            assert!(rest.is_empty());
            (PK::Projection, 0, unlit(&last) as u8, subs, vec![un(pr.input)])
        }
        LogicalPlan::Filter(f) => match f.predicate {
            Expr::BinaryExpr(b) => {
                let (subs, rest) = split_subquery_exprs(vec![*b.left]);
                assert!(rest.is_empty());
                (PK::Filter, 0, unlit(&b.right) as u8, subs, vec![un(f.input)])
            }
            other => (PK::Filter, 0, unlit(&other) as u8, vec![], vec![un(f.input)]),
        },
        LogicalPlan::Limit(li) => (PK::Limit, 0, unlit(li.fetch.as_ref().unwrap()) as u8, vec![], vec![un(li.input)]),
        LogicalPlan::Sort(s) => (PK::Sort, 0, s.fetch.unwrap() as u8, vec![], vec![un(s.input)]),
        LogicalPlan::Distinct(Distinct::All(i)) => (PK::DistinctAll, 0, 0, vec![], vec![un(i)]),
        LogicalPlan::Repartition(r) => match r.partitioning_scheme {
            Partitioning::RoundRobinBatch(n) => (PK::Repartition, 0, (n - 1) as u8, vec![], vec![un(r.input)]),
            other => panic!("harness: unexpected partitioning {other:?}"),
        },
        LogicalPlan::Subquery(s) => (PK::Subquery, 0, unlit(&s.outer_ref_columns[0]) as u8, vec![], vec![un(s.subquery)]),
        LogicalPlan::SubqueryAlias(s) => (PK::SubqueryAlias, 0, parse_label(s.alias.table(), "s"), vec![], vec![un(s.input)]),
        LogicalPlan::Window(w) => {
            let (subs, rest) = split_subquery_exprs(w.window_expr);
            assert!(rest.is_empty());
            (PK::Window, 0, parse_label(w.schema.field(0).name(), "w"), subs, vec![un(w.input)])
        }
        LogicalPlan::Ddl(DdlStatement::CreateView(v)) => {
            (PK::CreateView, 0, parse_label(v.name.table(), "v"), vec![], vec![un(v.input)])
        }
        LogicalPlan::Statement(Statement::Prepare(pr)) => (PK::Prepare, 0, parse_label(&pr.name, "q"), vec![], vec![un(pr.input)]),
        LogicalPlan::Extension(e) => {
            let h = e.node.as_any().downcast_ref::<HNode>().expect("harness: unexpected extension node");
            let (subs, rest) = split_subquery_exprs(h.exprs.clone());
            assert!(rest.is_empty());
            (PK::Ext, 0, h.label, subs, h.inputs.clone())
        }
        LogicalPlan::Join(j) => {
            let l = JT.iter().position(|t| *t == j.join_type).unwrap() as u8;
            assert!(j.on.is_empty());
            let (subs, rest) = split_subquery_exprs(j.filter.into_iter().collect());
            assert!(rest.is_empty());
            (PK::Join, 0, l, subs, vec![un(j.left), un(j.right)])
        }
        LogicalPlan::RecursiveQuery(r) => {
            (PK::Recursive, 0, parse_label(&r.name, "r"), vec![], vec![un(r.static_term), un(r.recursive_term)])
        }
        LogicalPlan::Union(u) => {
            (PK::Union, 0, parse_label(u.schema.field(0).name(), "u"), vec![], u.inputs.into_iter().map(un).collect())
        }
        other => panic!("harness: unexpected plan node {other:?}"),
    }
}

pub fn states(pk: PK) -> u8 {
    match pk {
        PK::DistinctAll => 1,
        PK::Join => 4,
        _ => 8,
    }
}

pub struct PlanFam;

impl Family for PlanFam {
    type Node = LogicalPlan;
    const NAME: &'static str = "plan";
    fn menu_len(arity: usize) -> usize {
        menu(arity).len()
    }
    fn build(kind: usize, id: usize, label: u8, children: Vec<LogicalPlan>) -> LogicalPlan {
        let pk = menu(children.len())[kind];
        build_pk(pk, id, label, vec![], children)
    }
    fn decompose(node: LogicalPlan) -> (usize, usize, u8, Vec<LogicalPlan>) {
        let (pk, id, l, subs, ch) = decompose_pk(node);
        assert!(subs.is_empty(), "harness: subqueries in plain mode");
        let kind = menu(ch.len())
            .iter()
            .position(|k| *k == pk)
            .unwrap_or_else(|| panic!("harness: kind {pk:?} not in the menu of arity {}", ch.len()));
        (kind, id, l, ch)
    }
    fn label_states(arity: usize, kind: usize) -> u8 {
        states(menu(arity)[kind])
    }
    fn same(a: &LogicalPlan, b: &LogicalPlan) -> bool {
        a == b
    }
    fn short(node: &LogicalPlan) -> String {
        format!("{}", node.display_indent()).replace('\n', " | ")
    }
    fn kind_label(node: &LogicalPlan) -> String {
        format!("{:?}", decompose_pk(node.clone()).0)
    }
}

// ---------------------------------------------------------------------------
// `*_with_subqueries` mode: the first `nsubs` children of a node are embedded
// as subquery expressions (each is a `LogicalPlan::Subquery` node with one
// child); they precede the node's inputs.  Only kinds with at least one input
// after the subqueries are generated.

pub fn menu_subq(k: usize) -> Vec<(PK, usize)> {
    use PK::*;
    match k {
        0 | 1 => menu(k).into_iter().map(|p| (p, 0)).collect(),
        2 => vec![(Filter, 1), (Projection, 1), (Window, 1), (Ext, 1), (Join, 0), (Union, 0)],
        3 => vec![(Projection, 2), (Join, 1), (Ext, 1), (Ext, 2), (Window, 2), (Union, 0)],
        k => vec![(Projection, k - 1), (Ext, 1), (Ext, k - 1), (Window, k - 1), (Union, 0)],
    }
}

fn parent_of(shape: &crate::spec::Shape, id: usize) -> Option<(usize, usize)> {
    for (p, kids) in shape.kids.iter().enumerate() {
        if let Some(pos) = kids.iter().position(|c| *c == id) {
            return Some((p, pos));
        }
    }
    None
}

fn resolved_subq_kind(shape: &crate::spec::Shape, salt: usize, id: usize) -> usize {
    let k = shape.arity[id] as usize;
    if let Some((p, pos)) = parent_of(shape, id) {
        let pk = resolved_subq_kind(shape, salt, p);
        let (_, ns) = menu_subq(shape.arity[p] as usize)[pk];
        if pos < ns {
            return menu_subq(1).iter().position(|e| *e == (PK::Subquery, 0)).unwrap();
        }
    }
    let m = menu_subq(k);
    let idx = (id + salt) % m.len();
    let (_, ns) = m[idx];
    if ns > 0 && !shape.kids[id][..ns].iter().all(|c| shape.arity[*c] == 1) {
        return m.iter().position(|e| *e == (PK::Union, 0)).unwrap();
    }
    idx
}

pub struct PlanSubqFam;

impl Family for PlanSubqFam {
    type Node = LogicalPlan;
    const NAME: &'static str = "plan_subq";
    fn menu_len(arity: usize) -> usize {
        menu_subq(arity).len()
    }
    fn kind_of(shape: &crate::spec::Shape, salt: usize, id: usize) -> usize {
        resolved_subq_kind(shape, salt, id)
    }
    fn build(kind: usize, id: usize, label: u8, mut children: Vec<LogicalPlan>) -> LogicalPlan {
        let (pk, ns) = menu_subq(children.len())[kind];
        let inputs = children.split_off(ns);
        build_pk(pk, id, label, children, inputs)
    }
    fn decompose(node: LogicalPlan) -> (usize, usize, u8, Vec<LogicalPlan>) {
        let (pk, id, l, mut subs, ch) = decompose_pk(node);
        let ns = subs.len();
        subs.extend(ch);
        let kind = menu_subq(subs.len())
            .iter()
            .position(|k| *k == (pk, ns))
            .unwrap_or_else(|| panic!("harness: kind {pk:?}/{ns} not in the subquery menu of arity {}", subs.len()));
        (kind, id, l, subs)
    }
    fn label_states(arity: usize, kind: usize) -> u8 {
        states(menu_subq(arity)[kind].0)
    }
    fn same(a: &LogicalPlan, b: &LogicalPlan) -> bool {
        a == b
    }
    fn short(node: &LogicalPlan) -> String {
        format!("{}", node.display_indent()).replace('\n', " | ")
    }
    fn kind_label(node: &LogicalPlan) -> String {
        let (pk, _, _, subs, _) = decompose_pk(node.clone());
        format!("{pk:?}+{}subq", subs.len())
    }
    fn selftest_child(i: usize) -> LogicalPlan {
        build_pk(PK::Subquery, 0, 0, vec![], vec![build_pk(PK::Empty, 100 + i, 0, vec![], vec![])])
    }
    fn call_subq(root: LogicalPlan, api: Api, drv: &RefCell<Drv<LogicalPlan>>) -> Option<ImplRes<LogicalPlan>> {
        Some(match api {
            Api::ApplySubq => ImplRes::Tnr(root.apply_with_subqueries(|n| drv.borrow_mut().inspect(Ph::Down, n))),
            Api::VisitSubq => ImplRes::Tnr(root.visit_with_subqueries(&mut VisitDrv(drv))),
            Api::TransformDownSubq => {
                ImplRes::Tr(root.transform_down_with_subqueries(|n| drv.borrow_mut().rewrite(Ph::Down, n)))
            }
            Api::TransformUpSubq => ImplRes::Tr(root.transform_up_with_subqueries(|n| drv.borrow_mut().rewrite(Ph::Up, n))),
            Api::TransformDownUpSubq => ImplRes::Tr(root.transform_down_up_with_subqueries(
                |n| drv.borrow_mut().rewrite(Ph::Down, n),
                |n| drv.borrow_mut().rewrite(Ph::Up, n),
            )),
            Api::RewriteSubq => ImplRes::Tr(root.rewrite_with_subqueries(&mut RewriteDrv(drv))),
            _ => return None,
        })
    }
}
