//! Harness `ConcreteTreeNode`: exercises the blanket
//! `impl<T: ConcreteTreeNode> TreeNode for T`.
use super::Family;
use datafusion::common::Result;
use datafusion::common::tree_node::ConcreteTreeNode;

#[derive(Clone, PartialEq, Debug)]
pub struct CNode {
    pub id: usize,
    pub label: u8,
    pub kids: Vec<CNode>,
}

impl ConcreteTreeNode for CNode {
    fn children(&self) -> &[Self] {
        &self.kids
    }
    fn take_children(mut self) -> (Self, Vec<Self>) {
        let kids = std::mem::take(&mut self.kids);
        (self, kids)
    }
    fn with_new_children(mut self, children: Vec<Self>) -> Result<Self> {
        self.kids = children;
        Ok(self)
    }
}

pub struct ConcreteFam;

impl Family for ConcreteFam {
    type Node = CNode;
    const NAME: &'static str = "concrete";
    fn menu_len(_arity: usize) -> usize {
        1
    }
    fn build(_kind: usize, id: usize, label: u8, children: Vec<CNode>) -> CNode {
        CNode { id, label, kids: children }
    }
    fn decompose(node: CNode) -> (usize, usize, u8, Vec<CNode>) {
        (0, node.id, node.label, node.kids)
    }
    fn label_states(_arity: usize, _kind: usize) -> u8 {
        255
    }
    fn kind_label(_node: &CNode) -> String {
        "cnode".into()
    }
    fn same(a: &CNode, b: &CNode) -> bool {
        a == b
    }
    fn short(node: &CNode) -> String {
        fn go(n: &CNode, s: &mut String) {
            s.push_str(&format!("{}", n.id));
            if n.label > 0 {
                s.push_str(&format!("'{}", n.label));
            }
            if !n.kids.is_empty() {
                s.push('(');
                for (i, k) in n.kids.iter().enumerate() {
                    if i > 0 {
                        s.push(' ');
                    }
                    go(k, s);
                }
                s.push(')');
            }
        }
        let mut s = String::new();
        go(node, &mut s);
        s
    }
}
