//! `Arc<dyn PhysicalExpr>` family: exercises the blanket
//! `impl<T: DynTreeNode + ?Sized> TreeNode for Arc<T>` through
//! `PhysicalExpr::children` / `with_new_children`.
use super::Family;
use datafusion::arrow::datatypes::{DataType, Field};
use datafusion::common::ScalarValue;
use datafusion::common::config::ConfigOptions;
use datafusion::logical_expr::Operator;
use datafusion::physical_expr::expressions::{
    BinaryExpr, CaseExpr, CastExpr, Column, IsNotNullExpr, IsNullExpr, LikeExpr, Literal, NegativeExpr, NotExpr,
    TryCastExpr,
};
use datafusion::physical_expr::{PhysicalExpr, ScalarFunctionExpr};
use std::sync::{Arc, LazyLock};

type PE = Arc<dyn PhysicalExpr>;

#[derive(Clone, Copy, PartialEq, Eq, Debug)]
pub enum XK {
    Lit,
    Col,
    Un4,
    Cast,
    TryCast,
    Func,
    Binary,
    Like,
    Case(bool, bool),
}

pub fn menu(arity: usize) -> Vec<XK> {
    use XK::*;
    match arity {
        0 => vec![Lit, Col],
        1 => vec![Un4, Cast, TryCast, Func],
        2 => vec![Binary, Like, Func, Case(false, false)],
        3 => vec![Func, Case(false, true), Case(true, false)],
        k => {
            let even = k % 2 == 0;
            vec![Func, Case(false, !even), Case(true, even)]
        }
    }
}

static CONFIG: LazyLock<Arc<ConfigOptions>> = LazyLock::new(|| Arc::new(ConfigOptions::default()));
const OPS: [Operator; 4] = [Operator::Plus, Operator::Minus, Operator::Multiply, Operator::Divide];
const TYPES: [DataType; 4] = [DataType::Int8, DataType::Int16, DataType::Int32, DataType::Int64];

pub fn build_xk(xk: XK, id: usize, l: u8, mut ch: Vec<PE>) -> PE {
    match xk {
        XK::Lit => Arc::new(Literal::new(ScalarValue::Int64(Some((id * 8) as i64 + (l % 8) as i64)))),
        XK::Col => Arc::new(Column::new(&format!("c{id}_{}", l % 8), id)),
        XK::Un4 => {
            let c = ch.remove(0);
            match l % 4 {
                0 => Arc::new(NotExpr::new(c)),
                1 => Arc::new(NegativeExpr::new(c)),
                2 => Arc::new(IsNullExpr::new(c)),
                _ => Arc::new(IsNotNullExpr::new(c)),
            }
        }
        XK::Cast => Arc::new(CastExpr::new(ch.remove(0), TYPES[(l % 4) as usize].clone(), None)),
        XK::TryCast => Arc::new(TryCastExpr::new(ch.remove(0), TYPES[(l % 4) as usize].clone())),
        XK::Func => Arc::new(ScalarFunctionExpr::new(
            &format!("f{}", l % 4),
            datafusion::functions::core::coalesce(),
            ch,
            Arc::new(Field::new("f", DataType::Int64, true)),
            Arc::clone(&CONFIG),
        )),
        XK::Binary => {
            let r = ch.pop().unwrap();
            let le = ch.pop().unwrap();
            Arc::new(BinaryExpr::new(le, OPS[(l % 4) as usize], r))
        }
        XK::Like => {
            let p = ch.pop().unwrap();
            let e = ch.pop().unwrap();
            Arc::new(LikeExpr::new(l & 1 == 1, l & 2 == 2, e, p))
        }
        XK::Case(has_expr, has_else) => {
            let e = if has_expr { Some(ch.remove(0)) } else { None };
            let el = if has_else { Some(ch.pop().unwrap()) } else { None };
            assert!(ch.len() % 2 == 0 && !ch.is_empty(), "harness: bad CASE arity");
            let mut pairs = vec![];
            let mut it = ch.into_iter();
            while let (Some(w), Some(t)) = (it.next(), it.next()) {
                pairs.push((w, t));
            }
            Arc::new(CaseExpr::try_new(e, pairs, el).expect("harness: CaseExpr::try_new"))
        }
    }
}

fn parse_id_label(s: &str, prefix: &str) -> (usize, u8) {
    let rest = s.strip_prefix(prefix).unwrap_or_else(|| panic!("harness: unexpected name {s}"));
    let (a, b) = rest.split_once('_').unwrap_or_else(|| panic!("harness: unexpected name {s}"));
    (a.parse().unwrap(), b.parse().unwrap())
}

/// Inverse of `build_xk`, through the concrete types' own accessors (not
/// through `PhysicalExpr::children`).
pub fn decompose_xk(e: &PE) -> (XK, usize, u8, Vec<PE>) {
    let c = |x: &PE| Arc::clone(x);
    if let Some(x) = e.downcast_ref::<Literal>() {
        match x.value() {
            ScalarValue::Int64(Some(v)) => return (XK::Lit, (*v / 8) as usize, (*v % 8) as u8, vec![]),
            other => panic!("harness: unexpected literal {other:?}"),
        }
    }
    if let Some(x) = e.downcast_ref::<Column>() {
        let (id, l) = parse_id_label(x.name(), "c");
        return (XK::Col, id, l, vec![]);
    }
    if let Some(x) = e.downcast_ref::<NotExpr>() {
        return (XK::Un4, 0, 0, vec![c(x.arg())]);
    }
    if let Some(x) = e.downcast_ref::<NegativeExpr>() {
        return (XK::Un4, 0, 1, vec![c(x.arg())]);
    }
    if let Some(x) = e.downcast_ref::<IsNullExpr>() {
        return (XK::Un4, 0, 2, vec![c(x.arg())]);
    }
    if let Some(x) = e.downcast_ref::<IsNotNullExpr>() {
        return (XK::Un4, 0, 3, vec![c(x.arg())]);
    }
    if let Some(x) = e.downcast_ref::<CastExpr>() {
        let l = TYPES.iter().position(|t| t == x.cast_type()).unwrap() as u8;
        return (XK::Cast, 0, l, vec![c(x.expr())]);
    }
    if let Some(x) = e.downcast_ref::<TryCastExpr>() {
        let l = TYPES.iter().position(|t| t == x.cast_type()).unwrap() as u8;
        return (XK::TryCast, 0, l, vec![c(x.expr())]);
    }
    if let Some(x) = e.downcast_ref::<ScalarFunctionExpr>() {
        let l: u8 = x.name().strip_prefix('f').unwrap().parse().unwrap();
        return (XK::Func, 0, l, x.args().to_vec());
    }
    if let Some(x) = e.downcast_ref::<BinaryExpr>() {
        let l = OPS.iter().position(|o| o == x.op()).unwrap() as u8;
        return (XK::Binary, 0, l, vec![c(x.left()), c(x.right())]);
    }
    if let Some(x) = e.downcast_ref::<LikeExpr>() {
        let l = x.negated() as u8 | ((x.case_insensitive() as u8) << 1);
        return (XK::Like, 0, l, vec![c(x.expr()), c(x.pattern())]);
    }
    if let Some(x) = e.downcast_ref::<CaseExpr>() {
        let mut ch = vec![];
        if let Some(b) = x.expr() {
            ch.push(c(b));
        }
        for (w, t) in x.when_then_expr() {
            ch.push(c(w));
            ch.push(c(t));
        }
        if let Some(b) = x.else_expr() {
            ch.push(c(b));
        }
        return (XK::Case(x.expr().is_some(), x.else_expr().is_some()), 0, 0, ch);
    }
    panic!("harness: unexpected physical expression {e:?}");
}

pub fn states(xk: XK) -> u8 {
    match xk {
        XK::Lit | XK::Col => 8,
        XK::Case(..) => 1,
        _ => 4,
    }
}

pub struct PhysExprFam;

impl Family for PhysExprFam {
    type Node = PE;
    const NAME: &'static str = "physexpr";
    fn menu_len(arity: usize) -> usize {
        menu(arity).len()
    }
    fn build(kind: usize, id: usize, label: u8, children: Vec<PE>) -> PE {
        build_xk(menu(children.len())[kind], id, label, children)
    }
    fn decompose(node: PE) -> (usize, usize, u8, Vec<PE>) {
        let (xk, id, l, ch) = decompose_xk(&node);
        let kind = menu(ch.len())
            .iter()
            .position(|k| *k == xk)
            .unwrap_or_else(|| panic!("harness: kind {xk:?} not in the menu of arity {}", ch.len()));
        (kind, id, l, ch)
    }
    fn label_states(arity: usize, kind: usize) -> u8 {
        states(menu(arity)[kind])
    }
    fn same(a: &PE, b: &PE) -> bool {
        super::same_by_decompose::<Self>(a, b)
    }
    fn short(node: &PE) -> String {
        format!("{node}")
    }
    fn kind_label(node: &PE) -> String {
        format!("{:?}", decompose_xk(node).0)
    }
}
