//! `Expr` family: abstract rose trees rendered as logical expressions using a
//! menu of node kinds per arity so that every child container used by
//! `Expr::apply_children` / `Expr::map_children` is exercised.
use super::Family;
use datafusion::arrow::datatypes::DataType;
use datafusion::common::{Column, ScalarValue, Spans, TableReference};
use datafusion::logical_expr::expr::{
    AggregateFunction, AggregateFunctionParams, Alias, Between, BinaryExpr, Case, Cast, GroupingSet, InList,
    InSubquery, Lambda, Like, Placeholder, ScalarFunction, Sort, TryCast, Unnest, WindowFunction,
    WindowFunctionDefinition, WindowFunctionParams,
};
use datafusion::logical_expr::{EmptyRelation, Expr, LogicalPlan, Operator, Subquery, WindowFrame};
use std::sync::Arc;

#[derive(Clone, Copy, PartialEq, Eq, Debug)]
pub enum EK {
    Lit,
    Col,
    Ph,
    Alias,
    NullA,
    NullB,
    NotNeg,
    Cast,
    TryCast,
    Unnest,
    RollupCube,
    Lambda,
    InSubq,
    Func,
    AggA,
    AggF,
    AggAF,
    AggAO,
    AggAFO,
    WinA,
    WinAP,
    WinAPO,
    Win4,
    Binary,
    Like,
    Similar,
    InList,
    Case(bool, bool),
    GSets1,
    GSetsSplit,
    Between,
}

pub fn menu(arity: usize) -> Vec<EK> {
    use EK::*;
    match arity {
        0 => vec![Lit, Col, Ph],
        1 => vec![Alias, NullA, NullB, NotNeg, Cast, TryCast, Unnest, RollupCube, Lambda, InSubq, Func, AggA, AggF, WinA],
        2 => vec![
            Binary,
            Like,
            Similar,
            InList,
            Func,
            Case(true, true),
            Case(false, false),
            AggAF,
            AggAO,
            WinAP,
            GSets1,
            GSetsSplit,
            RollupCube,
        ],
        3 => vec![Between, Case(false, true), Case(true, false), Func, InList, AggAFO, WinAPO, GSetsSplit, AggAF],
        k => {
            let even = k % 2 == 0;
            vec![Func, InList, Case(false, !even), Case(true, even), Win4, RollupCube, GSetsSplit, AggAFO]
        }
    }
}

fn empty_subquery() -> Subquery {
    Subquery {
        subquery: Arc::new(LogicalPlan::EmptyRelation(EmptyRelation {
            produce_one_row: false,
            schema: Arc::new(datafusion::common::DFSchema::empty()),
        })),
        outer_ref_columns: vec![],
        spans: Spans::new(),
    }
}

fn udf(l: u8) -> Arc<datafusion::logical_expr::ScalarUDF> {
    match l % 3 {
        0 => datafusion::functions::core::coalesce(),
        1 => datafusion::functions::core::greatest(),
        _ => datafusion::functions::core::least(),
    }
}
fn udf_label(name: &str) -> u8 {
    match name {
        "coalesce" => 0,
        "greatest" => 1,
        "least" => 2,
        other => panic!("harness: unexpected udf {other}"),
    }
}

fn udaf() -> Arc<datafusion::logical_expr::AggregateUDF> {
    datafusion::functions_aggregate::count::count_udaf()
}

const OPS: [Operator; 4] = [Operator::Plus, Operator::Minus, Operator::Multiply, Operator::Divide];
const TYPES: [DataType; 4] = [DataType::Int8, DataType::Int16, DataType::Int32, DataType::Int64];

fn b(e: Expr) -> Box<Expr> {
    Box::new(e)
}

fn agg(args: Vec<Expr>, filter: Option<Expr>, order: Vec<Expr>, l: u8) -> Expr {
    Expr::AggregateFunction(AggregateFunction {
        func: udaf(),
        params: AggregateFunctionParams {
            args,
            distinct: l % 2 == 1,
            filter: filter.map(Box::new),
            order_by: order.into_iter().map(|e| Sort::new(e, true, false)).collect(),
            null_treatment: None,
        },
    })
}

fn win(args: Vec<Expr>, part: Vec<Expr>, order: Vec<Expr>, filter: Option<Expr>, l: u8) -> Expr {
    Expr::WindowFunction(Box::new(WindowFunction {
        fun: WindowFunctionDefinition::AggregateUDF(udaf()),
        params: WindowFunctionParams {
            args,
            partition_by: part,
            order_by: order.into_iter().map(|e| Sort::new(e, true, false)).collect(),
            window_frame: WindowFrame::new(None),
            filter: filter.map(Box::new),
            null_treatment: None,
            distinct: l % 2 == 1,
        },
    }))
}

pub fn build_ek(ek: EK, id: usize, l: u8, mut ch: Vec<Expr>) -> Expr {
    let k = ch.len();
    match ek {
        EK::Lit => Expr::Literal(ScalarValue::Int64(Some((id * 8) as i64 + (l % 8) as i64)), None),
        EK::Col => Expr::Column(Column::from_name(format!("c{id}_{}", l % 8))),
        EK::Ph => Expr::Placeholder(Placeholder { id: format!("$p{id}_{}", l % 8), field: None }),
        EK::Alias => Expr::Alias(Alias::new(ch.remove(0), None::<TableReference>, format!("a{}", l % 8))),
        EK::NullA => {
            let c = b(ch.remove(0));
            match l % 4 {
                0 => Expr::IsNull(c),
                1 => Expr::IsNotNull(c),
                2 => Expr::IsTrue(c),
                _ => Expr::IsFalse(c),
            }
        }
        EK::NullB => {
            let c = b(ch.remove(0));
            match l % 4 {
                0 => Expr::IsUnknown(c),
                1 => Expr::IsNotTrue(c),
                2 => Expr::IsNotFalse(c),
                _ => Expr::IsNotUnknown(c),
            }
        }
        EK::NotNeg => {
            let c = b(ch.remove(0));
            if l % 2 == 0 { Expr::Not(c) } else { Expr::Negative(c) }
        }
        EK::Cast => Expr::Cast(Cast::new(b(ch.remove(0)), TYPES[(l % 4) as usize].clone())),
        EK::TryCast => Expr::TryCast(TryCast::new(b(ch.remove(0)), TYPES[(l % 4) as usize].clone())),
        EK::Unnest => Expr::Unnest(Unnest { expr: b(ch.remove(0)), outer: l % 2 == 1 }),
        EK::RollupCube => {
            if l % 2 == 0 {
                Expr::GroupingSet(GroupingSet::Rollup(ch))
            } else {
                Expr::GroupingSet(GroupingSet::Cube(ch))
            }
        }
        EK::Lambda => Expr::Lambda(Lambda::new(vec![format!("p{}", l % 4)], ch.remove(0))),
        EK::InSubq => Expr::InSubquery(InSubquery::new(b(ch.remove(0)), empty_subquery(), l % 2 == 1)),
        EK::Func => Expr::ScalarFunction(ScalarFunction::new_udf(udf(l), ch)),
        EK::AggA => agg(ch, None, vec![], l),
        EK::AggF => agg(vec![], Some(ch.remove(0)), vec![], l),
        EK::AggAF => {
            let f = ch.pop().unwrap();
            agg(ch, Some(f), vec![], l)
        }
        EK::AggAO => {
            let o = ch.pop().unwrap();
            agg(ch, None, vec![o], l)
        }
        EK::AggAFO => {
            let o = ch.pop().unwrap();
            let f = ch.pop().unwrap();
            agg(ch, Some(f), vec![o], l)
        }
        EK::WinA => win(ch, vec![], vec![], None, l),
        EK::WinAP => {
            let p = ch.pop().unwrap();
            win(ch, vec![p], vec![], None, l)
        }
        EK::WinAPO => {
            let o = ch.pop().unwrap();
            let p = ch.pop().unwrap();
            win(ch, vec![p], vec![o], None, l)
        }
        EK::Win4 => {
            let f = ch.pop().unwrap();
            let o = ch.pop().unwrap();
            let p = ch.pop().unwrap();
            win(ch, vec![p], vec![o], Some(f), l)
        }
        EK::Binary => {
            let r = ch.pop().unwrap();
            let le = ch.pop().unwrap();
            Expr::BinaryExpr(BinaryExpr::new(b(le), OPS[(l % 4) as usize], b(r)))
        }
        EK::Like | EK::Similar => {
            let p = ch.pop().unwrap();
            let e = ch.pop().unwrap();
            let like = Like::new(l & 1 == 1, b(e), b(p), if l & 2 == 2 { Some('x') } else { None }, false);
            if ek == EK::Like { Expr::Like(like) } else { Expr::SimilarTo(like) }
        }
        EK::InList => {
            let e = ch.remove(0);
            Expr::InList(InList::new(b(e), ch, l % 2 == 1))
        }
        EK::Case(has_expr, has_else) => {
            let e = if has_expr { Some(b(ch.remove(0))) } else { None };
            let el = if has_else { Some(b(ch.pop().unwrap())) } else { None };
            assert!(ch.len() % 2 == 0, "harness: Case kind with odd pair list (arity {k})");
            let mut pairs = vec![];
            let mut it = ch.into_iter();
            while let (Some(w), Some(t)) = (it.next(), it.next()) {
                pairs.push((b(w), b(t)));
            }
            Expr::Case(Case::new(e, pairs, el))
        }
        EK::GSets1 => Expr::GroupingSet(GroupingSet::GroupingSets(vec![ch])),
        EK::GSetsSplit => {
            let rest = ch.split_off(1);
            Expr::GroupingSet(GroupingSet::GroupingSets(vec![ch, rest]))
        }
        EK::Between => {
            let hi = ch.pop().unwrap();
            let lo = ch.pop().unwrap();
            let e = ch.pop().unwrap();
            Expr::Between(Between::new(b(e), l % 2 == 1, b(lo), b(hi)))
        }
    }
}

fn parse_id_label(s: &str, prefix: &str) -> (usize, u8) {
    let rest = s.strip_prefix(prefix).unwrap_or_else(|| panic!("harness: unexpected name {s}"));
    let (a, bb) = rest.split_once('_').unwrap_or_else(|| panic!("harness: unexpected name {s}"));
    (a.parse().unwrap(), bb.parse().unwrap())
}

/// Inverse of `build_ek`, written against the struct definitions (field
/// declaration order) — independent of `Expr::apply_children`.
pub fn decompose_ek(e: Expr) -> (EK, usize, u8, Vec<Expr>) {
    let un = |bx: Box<Expr>| vec![*bx];
    match e {
        Expr::Literal(ScalarValue::Int64(Some(v)), None) => (EK::Lit, (v / 8) as usize, (v % 8) as u8, vec![]),
        Expr::Column(c) => {
            let (id, l) = parse_id_label(&c.name, "c");
            (EK::Col, id, l, vec![])
        }
        Expr::Placeholder(p) => {
            let (id, l) = parse_id_label(&p.id, "$p");
            (EK::Ph, id, l, vec![])
        }
        Expr::Alias(a) => {
            let l: u8 = a.name.strip_prefix('a').unwrap().parse().unwrap();
            (EK::Alias, 0, l, un(a.expr))
        }
        Expr::IsNull(c) => (EK::NullA, 0, 0, un(c)),
        Expr::IsNotNull(c) => (EK::NullA, 0, 1, un(c)),
        Expr::IsTrue(c) => (EK::NullA, 0, 2, un(c)),
        Expr::IsFalse(c) => (EK::NullA, 0, 3, un(c)),
        Expr::IsUnknown(c) => (EK::NullB, 0, 0, un(c)),
        Expr::IsNotTrue(c) => (EK::NullB, 0, 1, un(c)),
        Expr::IsNotFalse(c) => (EK::NullB, 0, 2, un(c)),
        Expr::IsNotUnknown(c) => (EK::NullB, 0, 3, un(c)),
        Expr::Not(c) => (EK::NotNeg, 0, 0, un(c)),
        Expr::Negative(c) => (EK::NotNeg, 0, 1, un(c)),
        Expr::Cast(c) => {
            let l = TYPES.iter().position(|t| t == c.field.data_type()).unwrap() as u8;
            (EK::Cast, 0, l, un(c.expr))
        }
        Expr::TryCast(c) => {
            let l = TYPES.iter().position(|t| t == c.field.data_type()).unwrap() as u8;
            (EK::TryCast, 0, l, un(c.expr))
        }
        Expr::Unnest(u) => (EK::Unnest, 0, u.outer as u8, un(u.expr)),
        Expr::GroupingSet(GroupingSet::Rollup(v)) => (EK::RollupCube, 0, 0, v),
        Expr::GroupingSet(GroupingSet::Cube(v)) => (EK::RollupCube, 0, 1, v),
        Expr::GroupingSet(GroupingSet::GroupingSets(mut lists)) => {
            if lists.len() == 1 {
                (EK::GSets1, 0, 0, lists.pop().unwrap())
            } else {
                (EK::GSetsSplit, 0, 0, lists.into_iter().flatten().collect())
            }
        }
        Expr::Lambda(l) => {
            let lab: u8 = l.params[0].strip_prefix('p').unwrap().parse().unwrap();
            (EK::Lambda, 0, lab, un(l.body))
        }
        Expr::InSubquery(s) => (EK::InSubq, 0, s.negated as u8, un(s.expr)),
        Expr::ScalarFunction(f) => (EK::Func, 0, udf_label(f.func.name()), f.args),
        Expr::AggregateFunction(a) => {
            let p = a.params;
            let l = p.distinct as u8;
            let ek = match (p.args.is_empty(), p.filter.is_some(), !p.order_by.is_empty()) {
                (false, false, false) => EK::AggA,
                (true, true, false) => EK::AggF,
                (false, true, false) => EK::AggAF,
                (false, false, true) => EK::AggAO,
                (false, true, true) => EK::AggAFO,
                other => panic!("harness: unexpected aggregate layout {other:?}"),
            };
            let mut ch = p.args;
            if let Some(f) = p.filter {
                ch.push(*f);
            }
            ch.extend(p.order_by.into_iter().map(|s| s.expr));
            (ek, 0, l, ch)
        }
        Expr::WindowFunction(w) => {
            let p = w.params;
            let l = p.distinct as u8;
            let ek = match (!p.partition_by.is_empty(), !p.order_by.is_empty(), p.filter.is_some()) {
                (false, false, false) => EK::WinA,
                (true, false, false) => EK::WinAP,
                (true, true, false) => EK::WinAPO,
                (true, true, true) => EK::Win4,
                other => panic!("harness: unexpected window layout {other:?}"),
            };
            let mut ch = p.args;
            ch.extend(p.partition_by);
            ch.extend(p.order_by.into_iter().map(|s| s.expr));
            if let Some(f) = p.filter {
                ch.push(*f);
            }
            (ek, 0, l, ch)
        }
        Expr::BinaryExpr(x) => {
            let l = OPS.iter().position(|o| *o == x.op).unwrap() as u8;
            (EK::Binary, 0, l, vec![*x.left, *x.right])
        }
        Expr::Like(x) => (EK::Like, 0, x.negated as u8 | ((x.escape_char.is_some() as u8) << 1), vec![*x.expr, *x.pattern]),
        Expr::SimilarTo(x) => {
            (EK::Similar, 0, x.negated as u8 | ((x.escape_char.is_some() as u8) << 1), vec![*x.expr, *x.pattern])
        }
        Expr::InList(x) => {
            let mut ch = vec![*x.expr];
            ch.extend(x.list);
            (EK::InList, 0, x.negated as u8, ch)
        }
        Expr::Case(c) => {
            let ek = EK::Case(c.expr.is_some(), c.else_expr.is_some());
            let mut ch = vec![];
            if let Some(e) = c.expr {
                ch.push(*e);
            }
            for (w, t) in c.when_then_expr {
                ch.push(*w);
                ch.push(*t);
            }
            if let Some(e) = c.else_expr {
                ch.push(*e);
            }
            (ek, 0, 0, ch)
        }
        Expr::Between(x) => (EK::Between, 0, x.negated as u8, vec![*x.expr, *x.low, *x.high]),
        other => panic!("harness: unexpected expression {other:?}"),
    }
}

pub fn states(ek: EK) -> u8 {
    match ek {
        EK::Lit | EK::Col | EK::Ph | EK::Alias => 8,
        EK::NullA | EK::NullB | EK::Cast | EK::TryCast | EK::Lambda | EK::Binary | EK::Like | EK::Similar => 4,
        EK::Func => 3,
        EK::NotNeg
        | EK::Unnest
        | EK::RollupCube
        | EK::InSubq
        | EK::AggA
        | EK::AggF
        | EK::AggAF
        | EK::AggAO
        | EK::AggAFO
        | EK::WinA
        | EK::WinAP
        | EK::WinAPO
        | EK::Win4
        | EK::InList
        | EK::Between => 2,
        EK::Case(..) | EK::GSets1 | EK::GSetsSplit => 1,
    }
}

pub struct ExprFam;

impl Family for ExprFam {
    type Node = Expr;
    const NAME: &'static str = "expr";
    fn menu_len(arity: usize) -> usize {
        menu(arity).len()
    }
    fn build(kind: usize, id: usize, label: u8, children: Vec<Expr>) -> Expr {
        let ek = menu(children.len())[kind];
        build_ek(ek, id, label, children)
    }
    fn decompose(node: Expr) -> (usize, usize, u8, Vec<Expr>) {
        let (ek, id, l, ch) = decompose_ek(node);
        let kind = menu(ch.len())
            .iter()
            .position(|k| *k == ek)
            .unwrap_or_else(|| panic!("harness: kind {ek:?} not in the menu of arity {}", ch.len()));
        (kind, id, l, ch)
    }
    fn label_states(arity: usize, kind: usize) -> u8 {
        states(menu(arity)[kind])
    }
    fn same(a: &Expr, b: &Expr) -> bool {
        a == b
    }
    fn short(node: &Expr) -> String {
        format!("{node}")
    }
    fn kind_label(node: &Expr) -> String {
        format!("{:?}", decompose_ek(node.clone()).0)
    }
}
