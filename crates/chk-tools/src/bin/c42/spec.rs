//! Specification interpreter for the TreeNode recursion contract, written from
//! the doc comments of `datafusion/common/src/tree_node.rs` on an abstract
//! rose tree.  It is deliberately *not* recursive and does not use any of the
//! `visit_children / visit_sibling / visit_parent` combinators: a walk is a
//! cursor moving over the Euler tour (`Down(n)` … `Up(n)`) of the tree.
//!
//! Rules (doc comment of `TreeNodeRecursion` + the order examples of
//! `visit` / `rewrite` / `transform_down_up`):
//!
//! * `f_down(n)` is invoked before any child of `n`, `f_up(n)` after all
//!   children of `n`; children are handled left to right.
//! * `Continue`: go on with the next event of the tour.
//! * `Jump` returned for `Down(n)`: the children of `n` are not visited; the
//!   walk goes on at `Up(n)` ("prunes the subtree" in a top-down traversal,
//!   "jumps to the next f_up phase" in a combined traversal).
//! * `Jump` returned for `Up(n)`: the post-order closures of the ancestors are
//!   bypassed until the first ancestor that still has an unvisited child; the
//!   walk goes on with the pre-order phase of that child (bottom-up traversal:
//!   "bypass calling bottom-up closures till the next leaf node").  On the
//!   Euler tour this is "skip the directly following `Up` events".
//! * `Stop`: no further closure is invoked.
//! * A phase without a closure (top-down only / bottom-up only traversals)
//!   behaves like a closure that always returns `Continue` without changes.
//! * The result tree contains exactly the replacements made by the closures,
//!   `transformed` is the disjunction of the closures' `transformed` flags.
use serde::{Deserialize, Serialize};

#[derive(Clone, Copy, PartialEq, Eq, Debug, Serialize, Deserialize, Hash)]
pub enum Ph {
    Down,
    Up,
}

#[derive(Clone, Copy, PartialEq, Eq, Debug, Serialize, Deserialize, Hash)]
pub enum Tnr {
    C,
    J,
    S,
}

/// One closure decision: replace the node (by a re-labelled node with the same
/// children, reporting `transformed = true`) or not, and how to go on.
#[derive(Clone, Copy, PartialEq, Eq, Debug, Serialize, Deserialize, Hash)]
pub struct Dec {
    pub replace: bool,
    pub tnr: Tnr,
}

pub const DEFAULT_DEC: Dec = Dec { replace: false, tnr: Tnr::C };

#[derive(Clone, Copy, PartialEq, Eq, Debug, Serialize, Deserialize, Hash)]
pub enum Api {
    ApplyChildren,
    Apply,
    Exists,
    Visit,
    MapChildren,
    TransformDown,
    TransformUp,
    Transform,
    TransformDownUp,
    Rewrite,
    // LogicalPlan only: the `*_with_subqueries` variants
    ApplySubq,
    VisitSubq,
    TransformDownSubq,
    TransformUpSubq,
    TransformDownUpSubq,
    RewriteSubq,
}

impl Api {
    pub fn uses_down(self) -> bool {
        !matches!(self, Api::TransformUp | Api::Transform | Api::TransformUpSubq)
    }
    pub fn uses_up(self) -> bool {
        matches!(
            self,
            Api::Visit
                | Api::TransformUp
                | Api::Transform
                | Api::TransformDownUp
                | Api::Rewrite
                | Api::VisitSubq
                | Api::TransformUpSubq
                | Api::TransformDownUpSubq
                | Api::RewriteSubq
        )
    }
    pub fn rewrites(self) -> bool {
        matches!(
            self,
            Api::MapChildren
                | Api::TransformDown
                | Api::TransformUp
                | Api::Transform
                | Api::TransformDownUp
                | Api::Rewrite
                | Api::TransformDownSubq
                | Api::TransformUpSubq
                | Api::TransformDownUpSubq
                | Api::RewriteSubq
        )
    }
    pub fn children_only(self) -> bool {
        matches!(self, Api::ApplyChildren | Api::MapChildren)
    }
    pub fn with_subqueries(self) -> bool {
        matches!(
            self,
            Api::ApplySubq
                | Api::VisitSubq
                | Api::TransformDownSubq
                | Api::TransformUpSubq
                | Api::TransformDownUpSubq
                | Api::RewriteSubq
        )
    }
    /// The decisions a closure of this API can take, simplest first.
    pub fn options(self) -> &'static [Dec] {
        const fn d(replace: bool, tnr: Tnr) -> Dec {
            Dec { replace, tnr }
        }
        static INSPECT: [Dec; 3] = [d(false, Tnr::C), d(false, Tnr::J), d(false, Tnr::S)];
        static EXISTS: [Dec; 2] = [d(false, Tnr::C), d(false, Tnr::S)]; // S == "f returned true"
        static REWRITE: [Dec; 6] = [
            d(false, Tnr::C),
            d(true, Tnr::C),
            d(false, Tnr::J),
            d(true, Tnr::J),
            d(false, Tnr::S),
            d(true, Tnr::S),
        ];
        if self == Api::Exists {
            &EXISTS
        } else if self.rewrites() {
            &REWRITE
        } else {
            &INSPECT
        }
    }
}

/// An ordered rose tree given as the pre-order list of child counts.
#[derive(Clone, Debug)]
pub struct Shape {
    pub arity: Vec<u8>,
    pub kids: Vec<Vec<usize>>,
    /// exclusive end of the subtree of node i in pre-order numbering
    pub end: Vec<usize>,
    pub euler: Vec<(Ph, usize)>,
    pub up_pos: Vec<usize>,
}

impl Shape {
    pub fn new(arity: &[u8]) -> Result<Shape, String> {
        let n = arity.len();
        if n == 0 {
            return Err("empty shape".into());
        }
        let mut kids = vec![vec![]; n];
        let mut end = vec![0usize; n];
        let mut euler = vec![];
        let mut up_pos = vec![0usize; n];
        // stack of (node, remaining children)
        let mut stack: Vec<(usize, u8)> = vec![];
        for i in 0..n {
            if i > 0 {
                // attach to the innermost node that still expects children
                loop {
                    match stack.last_mut() {
                        None => return Err("arity vector describes a forest".into()),
                        Some((p, rem)) if *rem > 0 => {
                            *rem -= 1;
                            kids[*p].push(i);
                            break;
                        }
                        Some((p, _)) => {
                            let p = *p;
                            end[p] = i;
                            up_pos[p] = euler.len();
                            euler.push((Ph::Up, p));
                            stack.pop();
                        }
                    }
                }
            }
            euler.push((Ph::Down, i));
            stack.push((i, arity[i]));
        }
        while let Some((p, rem)) = stack.pop() {
            if rem != 0 {
                return Err("arity vector is incomplete".into());
            }
            end[p] = n;
            up_pos[p] = euler.len();
            euler.push((Ph::Up, p));
        }
        Ok(Shape { arity: arity.to_vec(), kids, end, euler, up_pos })
    }
    pub fn n(&self) -> usize {
        self.arity.len()
    }
}

/// All ordered rose trees with exactly `n` nodes (pre-order arity vectors).
pub fn trees(n: usize) -> Vec<Vec<u8>> {
    // forests(k, m): ordered forests of k trees with m nodes in total
    fn forests(k: usize, m: usize, memo: &mut std::collections::HashMap<(usize, usize), Vec<Vec<u8>>>) -> Vec<Vec<u8>> {
        if let Some(v) = memo.get(&(k, m)) {
            return v.clone();
        }
        let mut out = vec![];
        if k == 0 {
            if m == 0 {
                out.push(vec![]);
            }
        } else if m >= k {
            // first tree has s nodes
            for s in 1..=(m - (k - 1)) {
                let firsts = tree(s, memo);
                let rests = forests(k - 1, m - s, memo);
                for f in &firsts {
                    for r in &rests {
                        let mut v = f.clone();
                        v.extend_from_slice(r);
                        out.push(v);
                    }
                }
            }
        }
        memo.insert((k, m), out.clone());
        out
    }
    fn tree(n: usize, memo: &mut std::collections::HashMap<(usize, usize), Vec<Vec<u8>>>) -> Vec<Vec<u8>> {
        let mut out = vec![];
        for k in 0..n {
            for f in forests(k, n - 1, memo) {
                let mut v = vec![k as u8];
                v.extend(f);
                out.push(v);
            }
        }
        out
    }
    let mut memo = std::collections::HashMap::new();
    tree(n, &mut memo)
}

#[derive(Clone, Debug)]
pub struct SpecCall {
    pub ph: Ph,
    pub node: usize,
    /// replacement counters of all nodes at the moment of the call
    pub labels: Vec<u8>,
}

#[derive(Clone, Debug)]
pub struct SpecOut {
    pub log: Vec<SpecCall>,
    pub labels: Vec<u8>,
    pub transformed: bool,
    pub stopped: bool,
    /// informational: the walk ended while an `Up`-phase `Jump` was pending
    pub ended_in_jump: bool,
}

/// Run the specification.  `decide(call_index, phase, node)` supplies the
/// closure's decision.
pub fn spec_run(shape: &Shape, api: Api, mut decide: impl FnMut(usize, Ph, usize) -> Dec) -> SpecOut {
    let n = shape.n();
    let mut out = SpecOut { log: vec![], labels: vec![0; n], transformed: false, stopped: false, ended_in_jump: false };
    let mut call = |out: &mut SpecOut, ph: Ph, node: usize| -> Dec {
        let d = decide(out.log.len(), ph, node);
        out.log.push(SpecCall { ph, node, labels: out.labels.clone() });
        if d.replace {
            out.labels[node] = out.labels[node].wrapping_add(1);
            out.transformed = true;
        }
        d
    };
    if api.children_only() {
        // the closure is applied to the direct children only, as siblings
        for &c in &shape.kids[0] {
            let d = call(&mut out, Ph::Down, c);
            out.ended_in_jump = d.tnr == Tnr::J;
            if d.tnr == Tnr::S {
                out.stopped = true;
                break;
            }
        }
        return out;
    }
    if api == Api::Exists {
        for node in 0..n {
            let d = call(&mut out, Ph::Down, node);
            if d.tnr == Tnr::S {
                out.stopped = true; // == found
                break;
            }
        }
        return out;
    }
    let (down, up) = (api.uses_down(), api.uses_up());
    let ev = &shape.euler;
    let mut i = 0usize;
    while i < ev.len() {
        let (ph, node) = ev[i];
        match ph {
            Ph::Down => {
                if !down {
                    i += 1;
                    continue;
                }
                let d = call(&mut out, ph, node);
                out.ended_in_jump = false;
                match d.tnr {
                    Tnr::C => i += 1,
                    Tnr::J => i = shape.up_pos[node],
                    Tnr::S => {
                        out.stopped = true;
                        break;
                    }
                }
            }
            Ph::Up => {
                if !up {
                    i += 1;
                    continue;
                }
                let d = call(&mut out, ph, node);
                out.ended_in_jump = false;
                match d.tnr {
                    Tnr::C => i += 1,
                    Tnr::J => {
                        i += 1;
                        while i < ev.len() && ev[i].0 == Ph::Up {
                            i += 1;
                        }
                        if i >= ev.len() {
                            out.ended_in_jump = true;
                        }
                    }
                    Tnr::S => {
                        out.stopped = true;
                        break;
                    }
                }
            }
        }
    }
    out
}

/// Enumerate every distinct execution (= every per-node decision vector up to
/// decisions of closures that are never invoked) whose first decisions are
/// `prefix` (option indices), depth-first in option order.  An execution with
/// fewer invocations than `prefix.len()` is produced only by the prefix whose
/// unused tail is all zero, so that the prefixes partition the executions.
pub fn for_each_execution(shape: &Shape, api: Api, prefix: &[usize], mut body: impl FnMut(&[Dec], &SpecOut) -> bool) {
    let opts = api.options();
    let floor = prefix.len();
    let mut idx: Vec<usize> = prefix.to_vec();
    loop {
        let mut decs: Vec<Dec> = Vec::with_capacity(16);
        let out = spec_run(shape, api, |k, _, _| {
            if k >= idx.len() {
                idx.push(0);
            }
            let d = opts[idx[k]];
            decs.push(d);
            d
        });
        if out.log.len() < floor {
            if prefix[out.log.len()..].iter().all(|x| *x == 0) {
                body(&decs, &out);
            }
            return;
        }
        if !body(&decs, &out) {
            return;
        }
        loop {
            if idx.len() <= floor {
                return; // the prefix is fixed
            }
            let l = idx.pop().unwrap();
            if l + 1 < opts.len() {
                idx.push(l + 1);
                break;
            }
        }
    }
}
