//! C40 (part a) — `DefaultCache` behaves as an LRU map whose accounted size is
//! the sum of its entries and never exceeds its byte limit; TTL expiry never
//! serves a stale entry.
//!
//! Breadth-first search over all histories (depth bound, or until no new state
//! appears) of {put, get, contains_key, remove, update_cache_limit,
//! update_cache_ttl, advance the (mock) clock, drop_table_entries, clear} on the
//! real `DefaultCache<K, V>` (the single implementation behind the file
//! statistics, list-files and file-metadata caches) instantiated with harness
//! key / value types whose sizes and table are chosen by the check, with a mock
//! `TimeProvider`; every return value and, after every step, `len`, `is_empty`,
//! `memory_used`, `cache_limit`, `cache_ttl` and the full `list_entries`
//! snapshot are compared with a reference LRU (a `Vec` in recency order).
//! After the last step of every history the hidden recency order is probed by
//! lowering the limit one entry at a time (each time exactly the least recently
//! used entry must disappear).  A second, small search drives the public
//! `LruQueue` directly (and drains it with `pop` at the end of every history).
//!
//! Documented behaviour followed by the reference (default_cache.rs, type docs):
//! entries are evicted in least-recently-used order when an insert pushes
//! `memory_used` above the limit; an insert whose own size exceeds the limit is
//! rejected and any prior entry under the key is removed; a zero-size value is
//! rejected (no change at all); the TTL is stamped at insertion and checked
//! lazily on access (`get` / `contains_key`), so an expired entry that has not
//! been accessed still counts in `len` / `memory_used`.  `get` and `put` promote,
//! `contains_key` does not.  Where the documentation is silent — whether
//! `remove` / `put` hand back the previous value when that value had already
//! expired — both answers are accepted.  `hits` is not part of the property and
//! is not compared.

use chk_exec::{BfsCallbacks, Visit, par_bfs};
use datafusion_common::TableReference;
use datafusion_common::instant::Instant;
use datafusion_execution::cache::default_cache::{DefaultCache, TimeProvider};
use datafusion_execution::cache::lru_queue::LruQueue;
use datafusion_execution::cache::{Cache, CacheKey, CacheValue};
use mc_core::serde_json::{Value, json};
use mc_core::{Ctx, Level, run_check};
use serde::{Deserialize, Serialize};
use std::sync::Arc;
use std::sync::atomic::{AtomicU64, Ordering};
use std::time::Duration;

// ---------------------------------------------------------------- harness key / value / clock

#[derive(Clone, PartialEq, Eq, Hash, Debug)]
struct HKey {
    id: u8,
    size: usize,
    table: Option<TableReference>,
}

impl CacheKey for HKey {
    fn size(&self) -> usize {
        self.size
    }
    fn table_ref(&self) -> Option<&TableReference> {
        self.table.as_ref()
    }
}

#[derive(Clone, PartialEq, Eq, Debug)]
struct HVal {
    size: usize,
    tag: u32,
}

impl CacheValue for HVal {
    fn size(&self) -> usize {
        self.size
    }
}

struct Clock {
    base: Instant,
    secs: AtomicU64,
}

impl TimeProvider for Clock {
    fn now(&self) -> Instant {
        self.base + Duration::from_secs(self.secs.load(Ordering::Relaxed))
    }
}

/// key id -> (key size, table index)
const KEYS: [(usize, Option<u8>); 4] = [(1, Some(0)), (2, Some(1)), (1, None), (3, Some(0))];
const VSIZES: [usize; 4] = [0, 1, 3, 5];
const LIMITS: [usize; 4] = [0, 4, 8, 20];
const INITIAL_LIMIT: usize = 8;
const TTL: u64 = 2;

fn table(t: u8) -> TableReference {
    TableReference::bare(format!("t{t}"))
}

fn hkey(k: u8) -> HKey {
    let (size, t) = KEYS[k as usize];
    HKey { id: k, size, table: t.map(table) }
}

#[derive(Serialize, Deserialize, Clone, Copy, Debug, Hash, PartialEq, Eq)]
enum Op {
    Put { k: u8, v: usize },
    Get { k: u8 },
    Contains { k: u8 },
    Remove { k: u8 },
    Limit { l: usize },
    Ttl { t: Option<u64> },
    Advance { d: u64 },
    DropTable { t: u8 },
    Clear,
}

/// `nkeys` = 3 in the quick tier, 4 in the thorough tier
fn alphabet(nkeys: u8) -> Vec<Op> {
    let mut v = vec![];
    for k in 0..nkeys {
        for s in VSIZES {
            v.push(Op::Put { k, v: s });
        }
    }
    for k in 0..nkeys {
        v.push(Op::Get { k });
    }
    for k in 0..nkeys {
        v.push(Op::Contains { k });
    }
    for k in 0..nkeys {
        v.push(Op::Remove { k });
    }
    for l in LIMITS {
        v.push(Op::Limit { l });
    }
    v.push(Op::Ttl { t: None });
    v.push(Op::Ttl { t: Some(TTL) });
    v.push(Op::Advance { d: 1 });
    v.push(Op::Advance { d: 3 });
    v.push(Op::DropTable { t: 0 });
    v.push(Op::DropTable { t: 1 });
    v.push(Op::Clear);
    v
}

#[derive(Serialize, Deserialize, Clone, Debug, Hash)]
#[serde(tag = "subject")]
enum Case {
    DefaultCache { ops: Vec<Op> },
    LruQueue { ops: Vec<QOp> },
}

// ---------------------------------------------------------------- reference LRU with lazy TTL

#[derive(Clone, Debug)]
struct MEntry {
    k: u8,
    vsize: usize,
    tag: u32,
    expires: Option<u64>,
}

#[derive(Clone, Debug)]
struct Model {
    limit: usize,
    ttl: Option<u64>,
    now: u64,
    /// least recently used first
    entries: Vec<MEntry>,
}

impl Model {
    fn used(&self) -> usize {
        self.entries.iter().map(|e| KEYS[e.k as usize].0 + e.vsize).sum()
    }
    fn pos(&self, k: u8) -> Option<usize> {
        self.entries.iter().position(|e| e.k == k)
    }
    fn expired(&self, e: &MEntry) -> bool {
        matches!(e.expires, Some(x) if self.now > x)
    }
    fn take(&mut self, k: u8) -> Option<MEntry> {
        self.pos(k).map(|i| self.entries.remove(i))
    }
    fn evict(&mut self) -> usize {
        let mut n = 0;
        while self.used() > self.limit {
            self.entries.remove(0);
            n += 1;
        }
        n
    }
    fn key(&self) -> Vec<u8> {
        let mut k = vec![self.limit as u8, self.ttl.map(|t| t as u8 + 1).unwrap_or(0), self.entries.len() as u8];
        for e in &self.entries {
            k.push(e.k);
            k.push(e.vsize as u8);
            k.push(match e.expires {
                None => 255,
                Some(x) if self.now > x => 254,
                Some(x) => (x - self.now) as u8,
            });
        }
        k
    }
}

#[derive(Default)]
struct Info {
    key: Vec<u8>,
    evictions: usize,
    expirations: usize,
    rejected: usize,
    hits: usize,
}

fn show(v: &Option<HVal>) -> String {
    match v {
        None => "None".into(),
        Some(v) => format!("Some(size {}, put at step {})", v.size, v.tag),
    }
}

/// previous value handed back by `put` / `remove`: must be the entry the model
/// holds; if that entry had already expired, `None` is accepted as well.
fn check_old(what: &str, got: &Option<HVal>, old: &Option<MEntry>, old_expired: bool) -> Result<(), String> {
    let exp = old.as_ref().map(|e| HVal { size: e.vsize, tag: e.tag });
    if *got == exp || (old_expired && got.is_none()) {
        return Ok(());
    }
    Err(format!("{what} returned {}, expected {}", show(got), show(&exp)))
}

fn observe(cache: &DefaultCache<HKey, HVal>, clock: &Clock, m: &Model) -> Result<(), String> {
    let len = cache.len();
    if len != m.entries.len() {
        return Err(format!("len() = {len}, reference holds {} entries", m.entries.len()));
    }
    if cache.is_empty() != m.entries.is_empty() {
        return Err(format!("is_empty() = {} with {} entries", cache.is_empty(), m.entries.len()));
    }
    let used = cache.memory_used();
    if used != m.used() {
        return Err(format!("memory_used() = {used}, sum of key+value sizes of the entries = {}", m.used()));
    }
    if used > cache.cache_limit() {
        return Err(format!("memory_used() = {used} exceeds cache_limit() = {}", cache.cache_limit()));
    }
    if cache.cache_limit() != m.limit {
        return Err(format!("cache_limit() = {}, expected {}", cache.cache_limit(), m.limit));
    }
    let ttl = cache.cache_ttl().map(|d| d.as_secs());
    if ttl != m.ttl {
        return Err(format!("cache_ttl() = {ttl:?}, expected {:?}", m.ttl));
    }
    let listed = cache.list_entries();
    let mut got: Vec<(u8, usize, u32, usize, Option<u64>)> = listed
        .iter()
        .map(|(k, e)| {
            (k.id, e.value.size, e.value.tag, e.size_bytes, e.expires.map(|x| x.duration_since(clock.base).as_secs()))
        })
        .collect();
    got.sort();
    let mut exp: Vec<(u8, usize, u32, usize, Option<u64>)> =
        m.entries.iter().map(|e| (e.k, e.vsize, e.tag, e.vsize, e.expires)).collect();
    exp.sort();
    if got != exp {
        return Err(format!(
            "list_entries() = {got:?}, expected {exp:?} (key, value size, put step, size_bytes, expires at second)"
        ));
    }
    Ok(())
}

fn run_cache(ops: &[Op], all_steps: bool, mut trace: Option<&mut Vec<String>>) -> Result<Info, String> {
    let clock = Arc::new(Clock { base: Instant::now(), secs: AtomicU64::new(0) });
    let cache: DefaultCache<HKey, HVal> = DefaultCache::new_with_ttl(INITIAL_LIMIT, None)
        .with_time_provider(Arc::clone(&clock) as Arc<dyn TimeProvider>);
    let mut m = Model { limit: INITIAL_LIMIT, ttl: None, now: 0, entries: vec![] };
    let mut info = Info::default();
    observe(&cache, &clock, &m).map_err(|e| format!("fresh cache: {e}"))?;
    let n = ops.len();
    for (i, op) in ops.iter().enumerate() {
        let r: Result<String, String> = (|| match *op {
            Op::Put { k, v } => {
                let got = cache.put(&hkey(k), HVal { size: v, tag: i as u32 });
                if v == 0 {
                    // documented: "Entries with size 0 are rejected"
                    info.rejected += 1;
                    if got.is_some() {
                        return Err(format!("put of a zero-size value returned {}", show(&got)));
                    }
                    return Ok("rejected (zero size)".into());
                }
                let old_expired = m.pos(k).map(|p| m.expired(&m.entries[p])).unwrap_or(false);
                let old = m.take(k);
                check_old("put", &got, &old, old_expired)?;
                if KEYS[k as usize].0 + v > m.limit {
                    info.rejected += 1;
                    return Ok(format!("rejected (larger than the limit), previous {}", show(&got)));
                }
                m.entries.push(MEntry { k, vsize: v, tag: i as u32, expires: m.ttl.map(|t| m.now + t) });
                let ev = m.evict();
                info.evictions += ev;
                Ok(format!("stored, previous {}, {ev} evicted", show(&got)))
            }
            Op::Get { k } => {
                let got = cache.get(&hkey(k));
                let exp = match m.pos(k) {
                    None => None,
                    Some(p) if m.expired(&m.entries[p]) => {
                        m.entries.remove(p);
                        info.expirations += 1;
                        None
                    }
                    Some(p) => {
                        let e = m.entries.remove(p);
                        let v = HVal { size: e.vsize, tag: e.tag };
                        m.entries.push(e);
                        info.hits += 1;
                        Some(v)
                    }
                };
                if got != exp {
                    return Err(format!("get returned {}, expected {}", show(&got), show(&exp)));
                }
                Ok(show(&got))
            }
            Op::Contains { k } => {
                let got = cache.contains_key(&hkey(k));
                let exp = match m.pos(k) {
                    None => false,
                    Some(p) if m.expired(&m.entries[p]) => {
                        m.entries.remove(p);
                        info.expirations += 1;
                        false
                    }
                    Some(_) => true,
                };
                if got != exp {
                    return Err(format!("contains_key returned {got}, expected {exp}"));
                }
                Ok(format!("{got}"))
            }
            Op::Remove { k } => {
                let got = cache.remove(&hkey(k));
                let old_expired = m.pos(k).map(|p| m.expired(&m.entries[p])).unwrap_or(false);
                let old = m.take(k);
                check_old("remove", &got, &old, old_expired)?;
                Ok(show(&got))
            }
            Op::Limit { l } => {
                cache.update_cache_limit(l);
                m.limit = l;
                let ev = m.evict();
                info.evictions += ev;
                Ok(format!("{ev} evicted"))
            }
            Op::Ttl { t } => {
                cache.update_cache_ttl(t.map(Duration::from_secs));
                m.ttl = t;
                Ok("ok".into())
            }
            Op::Advance { d } => {
                clock.secs.fetch_add(d, Ordering::Relaxed);
                m.now += d;
                Ok(format!("now = {}", m.now))
            }
            Op::DropTable { t } => {
                cache.drop_table_entries(&table(t)).map_err(|e| format!("drop_table_entries failed: {e}"))?;
                m.entries.retain(|e| KEYS[e.k as usize].1 != Some(t));
                Ok("ok".into())
            }
            Op::Clear => {
                cache.clear();
                m.entries.clear();
                Ok("ok".into())
            }
        })();
        if let Some(t) = trace.as_deref_mut() {
            t.push(format!(
                "{op:?} -> {}; lru..mru = {:?}, used {}/{}",
                match &r {
                    Ok(s) => s.clone(),
                    Err(e) => format!("VIOLATION {e}"),
                },
                m.entries.iter().map(|e| (e.k, e.vsize, e.expires)).collect::<Vec<_>>(),
                m.used(),
                m.limit
            ));
        }
        r.map_err(|e| format!("step {i} {op:?}: {e}"))?;
        if all_steps || i + 1 == n {
            observe(&cache, &clock, &m).map_err(|e| format!("after step {i} {op:?}: {e}"))?;
        }
    }
    info.key = m.key();
    // Probe of the hidden recency order (the subject is fresh per history, so the
    // probe may destroy it): lower the limit to one byte less than what is used —
    // exactly the least recently used entry must go — until the cache is empty.
    // Without this a recency-order divergence would stay invisible until a later
    // eviction and could be lost to state de-duplication.
    while !m.entries.is_empty() {
        let l = m.used() - 1;
        cache.update_cache_limit(l);
        m.limit = l;
        let victim = m.entries[0].k;
        let ev = m.evict();
        debug_assert!(ev == 1);
        observe(&cache, &clock, &m)
            .map_err(|e| format!("recency probe after the history (limit lowered to {l}, least recently used key {victim} must be evicted): {e}"))?;
    }
    Ok(info)
}

// ---------------------------------------------------------------- LruQueue directly

#[derive(Serialize, Deserialize, Clone, Copy, Debug, Hash, PartialEq, Eq)]
enum QOp {
    Put { k: u8 },
    Get { k: u8 },
    Peek { k: u8 },
    Contains { k: u8 },
    Remove { k: u8 },
    Pop,
    Clear,
}

const QKEYS: u8 = 4;

fn q_alphabet() -> Vec<QOp> {
    let mut v = vec![];
    for k in 0..QKEYS {
        v.push(QOp::Put { k });
        v.push(QOp::Get { k });
        v.push(QOp::Peek { k });
        v.push(QOp::Contains { k });
        v.push(QOp::Remove { k });
    }
    v.push(QOp::Pop);
    v.push(QOp::Clear);
    v
}

fn run_queue(ops: &[QOp]) -> Result<Vec<u8>, String> {
    let mut q: LruQueue<u8, u32> = LruQueue::new();
    let mut m: Vec<(u8, u32)> = vec![]; // least recently used first
    for (i, op) in ops.iter().enumerate() {
        let tag = i as u32;
        let r: Result<(), String> = (|| {
            match *op {
                QOp::Put { k } => {
                    let got = q.put(k, tag);
                    let old = m.iter().position(|e| e.0 == k).map(|p| m.remove(p).1);
                    m.push((k, tag));
                    if got != old {
                        return Err(format!("put returned {got:?}, expected {old:?}"));
                    }
                }
                QOp::Get { k } => {
                    let got = q.get(&k).copied();
                    let exp = m.iter().position(|e| e.0 == k).map(|p| {
                        let e = m.remove(p);
                        m.push(e);
                        e.1
                    });
                    if got != exp {
                        return Err(format!("get returned {got:?}, expected {exp:?}"));
                    }
                }
                QOp::Peek { k } => {
                    let got = q.peek(&k).copied();
                    let exp = m.iter().find(|e| e.0 == k).map(|e| e.1);
                    if got != exp {
                        return Err(format!("peek returned {got:?}, expected {exp:?}"));
                    }
                }
                QOp::Contains { k } => {
                    let got = q.contains_key(&k);
                    let exp = m.iter().any(|e| e.0 == k);
                    if got != exp {
                        return Err(format!("contains_key returned {got}, expected {exp}"));
                    }
                }
                QOp::Remove { k } => {
                    let got = q.remove(&k);
                    let exp = m.iter().position(|e| e.0 == k).map(|p| m.remove(p).1);
                    if got != exp {
                        return Err(format!("remove returned {got:?}, expected {exp:?}"));
                    }
                }
                QOp::Pop => {
                    let got = q.pop();
                    let exp = if m.is_empty() { None } else { Some(m.remove(0)) };
                    if got != exp {
                        return Err(format!("pop returned {got:?}, expected least recently used {exp:?}"));
                    }
                }
                QOp::Clear => {
                    q.clear();
                    m.clear();
                }
            }
            if q.len() != m.len() || q.is_empty() != m.is_empty() {
                return Err(format!("len() = {}, is_empty() = {}, reference holds {}", q.len(), q.is_empty(), m.len()));
            }
            let mut got: Vec<(u8, u32)> = q.list_entries().into_iter().map(|(k, v)| (*k, *v)).collect();
            got.sort();
            let mut keys: Vec<u8> = q.keys().copied().collect();
            keys.sort();
            let mut exp = m.clone();
            exp.sort();
            if got != exp || keys != exp.iter().map(|e| e.0).collect::<Vec<_>>() {
                return Err(format!("list_entries() = {got:?}, keys() = {keys:?}, expected {exp:?}"));
            }
            Ok(())
        })();
        r.map_err(|e| format!("step {i} {op:?}: {e}"))?;
    }
    // the whole recency order is observable by draining
    let key: Vec<u8> = m.iter().map(|e| e.0).collect();
    let mut drained = vec![];
    while let Some((k, v)) = q.pop() {
        drained.push((k, v));
    }
    if drained != m {
        return Err(format!("draining with pop() gives {drained:?}, expected recency order {m:?}"));
    }
    Ok(key)
}

// ---------------------------------------------------------------- exploration

fn explore(ctx: &Ctx) {
    // quick: 3 keys, explored until no new state appears (the reachable state space closes at depth 11);
    // thorough: 4 keys, same rule with a larger depth cap
    let nkeys: u8 = std::env::var("VERIF_C40_KEYS").ok().and_then(|s| s.parse().ok()).unwrap_or(ctx.pick(3, 4));
    let depth = std::env::var("VERIF_C40_DEPTH").ok().and_then(|s| s.parse().ok()).unwrap_or(ctx.pick(14, 24));
    let qdepth = ctx.pick(8, 12);
    ctx.set_extra(
        "bounds",
        json!({"max_depth": depth, "keys (size, table)": &KEYS[..nkeys as usize], "value_sizes": VSIZES, "limits": LIMITS, "initial_limit": INITIAL_LIMIT,
               "ttl_seconds": [Value::Null, json!(TTL)], "clock_advance": [1, 3], "alphabet_size": alphabet(nkeys).len(),
               "lru_queue": {"keys": QKEYS, "max_depth": qdepth, "alphabet_size": q_alphabet().len()}}),
    );
    ctx.assume("state de-duplication: canonical key = (limit, ttl, entries in recency order with value size and remaining lifetime); the put-step tag carried by a value and the absolute clock are not part of the key");
    ctx.assume("single-threaded histories; the cache is a Mutex around the state explored here");
    let evictions = AtomicU64::new(0);
    let expirations = AtomicU64::new(0);
    let rejected = AtomicU64::new(0);
    let hits = AtomicU64::new(0);

    // --- DefaultCache
    let ops = alphabet(nkeys);
    let mut on_state = |h: &[Op], k: &Vec<u8>| {
        // non-trivial: at least two entries, or an entry with a TTL stamp
        let n = k[2] as usize;
        let stamped = (0..n).any(|i| k[3 + 3 * i + 2] != 255);
        if n >= 2 || stamped {
            ctx.nontrivial(&("cache", k));
            if n >= 2 && stamped && h.len() >= 5 && ctx.want_sample() {
                let mut tr = vec![];
                let _ = run_cache(h, true, Some(&mut tr));
                ctx.sample(json!({"case": Case::DefaultCache { ops: h.to_vec() }, "trace": tr}));
            }
        }
    };
    let mut on_violation = |h: &[Op], what: String| {
        let case = Case::DefaultCache { ops: h.to_vec() };
        ctx.violation(serde_json::to_string(&case).unwrap(), what, serde_json::to_value(&case).unwrap());
    };
    let mut on_finding = |_: &[Op], _: String, _: String| {};
    let stats = par_bfs(
        &ops,
        depth,
        4096,
        |_: &Vec<u8>, _: &Op| true,
        |h: &[Op]| {
            ctx.eval();
            match mc_core::catch(|| run_cache(h, false, None)).unwrap_or_else(|e| Err(format!("panic: {e}"))) {
                Ok(info) => {
                    evictions.fetch_add(info.evictions as u64, Ordering::Relaxed);
                    expirations.fetch_add(info.expirations as u64, Ordering::Relaxed);
                    rejected.fetch_add(info.rejected as u64, Ordering::Relaxed);
                    hits.fetch_add(info.hits as u64, Ordering::Relaxed);
                    Visit::State { key: info.key, findings: vec![] }
                }
                Err(what) => Visit::Violation(what),
            }
        },
        || ctx.should_stop(),
        BfsCallbacks { on_state: &mut on_state, on_violation: &mut on_violation, on_finding: &mut on_finding },
    );
    ctx.add_states(stats.states);
    ctx.add_transitions(stats.transitions);
    if !stats.complete {
        ctx.mark_capped("wall cap hit before the depth bound was completed");
    }
    let fixpoint = stats.complete && stats.per_depth.last().map(|x| x.0 == 0).unwrap_or(false);
    ctx.set_extra(
        "default_cache",
        json!({"states": stats.states, "transitions": stats.transitions, "max_depth": stats.max_depth, "complete": stats.complete,
               "state_space_closed (no new state at the last depth)": fixpoint,
               "per_depth_new_states_transitions": stats.per_depth}),
    );
    // counters are summed over whole replayed histories (prefixes are re-executed)
    ctx.count("evictions_in_executed_histories", evictions.load(Ordering::Relaxed));
    ctx.count("ttl_expirations_in_executed_histories", expirations.load(Ordering::Relaxed));
    ctx.count("rejected_puts_in_executed_histories", rejected.load(Ordering::Relaxed));
    ctx.count("get_hits_in_executed_histories", hits.load(Ordering::Relaxed));

    // --- LruQueue
    let qops = q_alphabet();
    let mut q_on_state = |_: &[QOp], k: &Vec<u8>| {
        if k.len() >= 2 {
            ctx.nontrivial(&("queue", k));
        }
    };
    let mut q_on_violation = |h: &[QOp], what: String| {
        let case = Case::LruQueue { ops: h.to_vec() };
        ctx.violation(serde_json::to_string(&case).unwrap(), what, serde_json::to_value(&case).unwrap());
    };
    let mut q_on_finding = |_: &[QOp], _: String, _: String| {};
    let qstats = par_bfs(
        &qops,
        qdepth,
        4096,
        |_: &Vec<u8>, _: &QOp| true,
        |h: &[QOp]| {
            ctx.eval();
            match mc_core::catch(|| run_queue(h)).unwrap_or_else(|e| Err(format!("panic: {e}"))) {
                Ok(key) => Visit::State { key, findings: vec![] },
                Err(what) => Visit::Violation(what),
            }
        },
        || ctx.should_stop(),
        BfsCallbacks { on_state: &mut q_on_state, on_violation: &mut q_on_violation, on_finding: &mut q_on_finding },
    );
    ctx.add_states(qstats.states);
    ctx.add_transitions(qstats.transitions);
    if !qstats.complete {
        ctx.mark_capped("wall cap hit before the LruQueue depth bound was completed");
    }
    ctx.set_extra(
        "lru_queue",
        json!({"states": qstats.states, "transitions": qstats.transitions, "max_depth": qstats.max_depth,
               "per_depth_new_states_transitions": qstats.per_depth}),
    );
}

fn replay(v: &Value) -> Result<(), String> {
    let c: Case = serde_json::from_value(v.clone()).map_err(|e| format!("bad case: {e}"))?;
    match c {
        Case::DefaultCache { ops } => {
            mc_core::catch(|| run_cache(&ops, true, None)).unwrap_or_else(|e| Err(format!("panic: {e}"))).map(|_| ())
        }
        Case::LruQueue { ops } => mc_core::catch(|| run_queue(&ops)).unwrap_or_else(|e| Err(format!("panic: {e}"))).map(|_| ()),
    }
}

fn main() {
    mc_core::quiet_panics();
    run_check(
        "C40",
        Level::ModelChecking,
        "breadth-first over all histories (depth bound) of put/get/contains_key/remove/update_cache_limit/update_cache_ttl/clock advance/drop_table_entries/clear \
         on the real DefaultCache (3 keys of sizes 1,2,1 in tables t0,t1,none, thorough tier: a 4th key of size 3 in t0; value sizes 0,1,3,5; limits 0,4,8,20; TTL none|2 s; mock clock) in lock step with a reference LRU, \
         one transition = one history executed on a fresh cache, states de-duplicated by the canonical reference state, explored until no new state appears; plus all histories of the public LruQueue over 4 keys; \
         non-trivial = distinct states with >= 2 entries or a TTL-stamped entry",
        explore,
        replay,
    );
}
