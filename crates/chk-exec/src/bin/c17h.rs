//! C17 (part "hist") — memory pool accounting is exact and limits are enforced,
//! sequential operation histories.
//!
//! Breadth-first search over *all* histories (up to a depth bound) of the public
//! `MemoryConsumer` / `MemoryReservation` API on the real pools
//! (Unbounded, Greedy(8), FairSpill(8), TrackConsumers<Greedy>,
//! TrackConsumers<Fair>, PeakRecording<Greedy>, PeakRecording<TrackConsumers<Fair>>),
//! every step compared with a boring reference model (a list of reservation
//! sizes per consumer).  States are de-duplicated by the canonical form of the
//! reference state (consumers and reservations up to renaming).
//!
//! After the last step of every history the pools' hidden counters are probed
//! (see `probe_hidden_state`) and then every reservation is dropped.
//!
//! Oracle (exactly the property statement):
//!  * after every step `pool.reserved()` = sum of the live reservation sizes,
//!    every `reservation.size()` = model size, and 0 / no tracked consumer once
//!    everything is dropped;
//!  * a refused `try_grow` / `try_resize` / `try_shrink` and a documented panic
//!    (`shrink` / `split` by more than the size) change nothing;
//!  * a *granted* fallible growth of > 0 bytes never takes a Greedy pool beyond
//!    its limit; FairSpill: never takes a non-spillable consumer beyond the pool
//!    limit and never takes a spillable consumer beyond its fair share
//!    `(limit - unspillable) / #spillable consumers` of the non-spillable
//!    remainder (two clauses: per reservation — the literal formula implemented
//!    by the type — and per consumer — the property statement);
//!  * Unbounded never refuses; Greedy grants whatever fits (documented: "can
//!    allocate up to `pool_size` bytes");
//!  * TrackConsumersPool::metrics(): one entry per registered consumer,
//!    `reserved` = sum of that consumer's reservations, `peak` = running maximum;
//!  * PeakRecordingPool: `peak_reserved()` = maximum total since the last
//!    `reset_peak` (or creation), `max_reserved()` = maximum total since creation.

use chk_exec::{BfsCallbacks, Visit, par_bfs};
use datafusion_execution::memory_pool::{
    FairSpillPool, GreedyMemoryPool, MemoryConsumer, MemoryConsumerMetrics, MemoryPool, MemoryReservation,
    PeakRecordingPool, TrackConsumersPool, UnboundedMemoryPool,
};
use mc_core::serde_json::{Value, json};
use mc_core::{Ctx, Level, rayon::prelude::*, run_check};
use serde::{Deserialize, Serialize};
use std::num::NonZeroUsize;
use std::sync::Arc;
use std::sync::atomic::{AtomicU64, Ordering};

const LIMIT: usize = 8;
const SIZES: [usize; 4] = [0, 1, 3, 8];
const MAX_RES: usize = 4;
const MAX_CONS: usize = 3;

#[derive(Serialize, Deserialize, Clone, Copy, Debug, Hash, PartialEq, Eq)]
enum PoolKind {
    Unbounded,
    Greedy,
    Fair,
    TrackGreedy,
    TrackFair,
    PeakGreedy,
    PeakTrackFair,
}

const KINDS: [PoolKind; 7] = [
    PoolKind::Unbounded,
    PoolKind::Greedy,
    PoolKind::Fair,
    PoolKind::TrackGreedy,
    PoolKind::TrackFair,
    PoolKind::PeakGreedy,
    PoolKind::PeakTrackFair,
];

impl PoolKind {
    fn is_fair(self) -> bool {
        matches!(self, PoolKind::Fair | PoolKind::TrackFair | PoolKind::PeakTrackFair)
    }
    fn is_greedy(self) -> bool {
        matches!(self, PoolKind::Greedy | PoolKind::TrackGreedy | PoolKind::PeakGreedy)
    }
    fn tracks(self) -> bool {
        matches!(self, PoolKind::TrackGreedy | PoolKind::TrackFair | PoolKind::PeakTrackFair)
    }
    fn peaks(self) -> bool {
        matches!(self, PoolKind::PeakGreedy | PoolKind::PeakTrackFair)
    }
}

#[derive(Serialize, Deserialize, Clone, Copy, Debug, Hash, PartialEq, Eq)]
enum Op {
    /// `MemoryConsumer::new(name).with_can_spill(spill).register(&pool)` -> new reservation slot
    Register { spill: bool },
    Grow { r: usize, s: usize },
    TryGrow { r: usize, s: usize },
    Shrink { r: usize, s: usize },
    TryShrink { r: usize, s: usize },
    Resize { r: usize, s: usize },
    TryResize { r: usize, s: usize },
    /// `res[r].split(s)` -> new reservation slot (same consumer)
    Split { r: usize, s: usize },
    /// `res[r].take()` -> new reservation slot (same consumer)
    Take { r: usize },
    /// `res[r].new_empty()` -> new reservation slot (same consumer)
    NewEmpty { r: usize },
    Free { r: usize },
    /// drop reservation `r` (later slots shift down by one)
    Drop { r: usize },
    /// `PeakRecordingPool::reset_peak` (peak-recording pools only)
    ResetPeak,
}

impl Op {
    fn slot(&self) -> Option<usize> {
        match *self {
            Op::Register { .. } | Op::ResetPeak => None,
            Op::Grow { r, .. }
            | Op::TryGrow { r, .. }
            | Op::Shrink { r, .. }
            | Op::TryShrink { r, .. }
            | Op::Resize { r, .. }
            | Op::TryResize { r, .. }
            | Op::Split { r, .. }
            | Op::Take { r }
            | Op::NewEmpty { r }
            | Op::Free { r }
            | Op::Drop { r } => Some(r),
        }
    }
    fn adds_slot(&self) -> bool {
        matches!(self, Op::Register { .. } | Op::Split { .. } | Op::Take { .. } | Op::NewEmpty { .. })
    }
}

fn alphabet(kind: PoolKind) -> Vec<Op> {
    let mut v = vec![Op::Register { spill: false }, Op::Register { spill: true }];
    for r in 0..MAX_RES {
        for s in SIZES {
            v.push(Op::TryGrow { r, s });
        }
        for s in SIZES {
            v.push(Op::Grow { r, s });
        }
        for s in SIZES {
            v.push(Op::Shrink { r, s });
        }
        for s in SIZES {
            v.push(Op::TryShrink { r, s });
        }
        for s in SIZES {
            v.push(Op::Resize { r, s });
        }
        for s in SIZES {
            v.push(Op::TryResize { r, s });
        }
        for s in SIZES {
            v.push(Op::Split { r, s });
        }
        v.push(Op::Take { r });
        v.push(Op::NewEmpty { r });
        v.push(Op::Free { r });
        v.push(Op::Drop { r });
    }
    if kind.peaks() {
        v.push(Op::ResetPeak);
    }
    v
}

#[derive(Serialize, Deserialize, Clone, Debug, Hash)]
struct Case {
    pool: PoolKind,
    limit: usize,
    ops: Vec<Op>,
}

// ---------------------------------------------------------------- subject

struct Subject {
    pool: Arc<dyn MemoryPool>,
    metrics: Option<Box<dyn Fn() -> Vec<MemoryConsumerMetrics>>>,
    peak: Option<Arc<PeakRecordingPool>>,
    res: Vec<MemoryReservation>,
}

fn build(kind: PoolKind, limit: usize) -> Subject {
    let top = NonZeroUsize::new(2).unwrap();
    let mut metrics: Option<Box<dyn Fn() -> Vec<MemoryConsumerMetrics>>> = None;
    let mut peak = None;
    let pool: Arc<dyn MemoryPool> = match kind {
        PoolKind::Unbounded => Arc::new(UnboundedMemoryPool::default()),
        PoolKind::Greedy => Arc::new(GreedyMemoryPool::new(limit)),
        PoolKind::Fair => Arc::new(FairSpillPool::new(limit)),
        PoolKind::TrackGreedy => {
            let t = Arc::new(TrackConsumersPool::new(GreedyMemoryPool::new(limit), top));
            let t2 = Arc::clone(&t);
            metrics = Some(Box::new(move || t2.metrics()));
            t
        }
        PoolKind::TrackFair => {
            let t = Arc::new(TrackConsumersPool::new(FairSpillPool::new(limit), top));
            let t2 = Arc::clone(&t);
            metrics = Some(Box::new(move || t2.metrics()));
            t
        }
        PoolKind::PeakGreedy => {
            let p = Arc::new(PeakRecordingPool::new(Arc::new(GreedyMemoryPool::new(limit))));
            peak = Some(Arc::clone(&p));
            p
        }
        PoolKind::PeakTrackFair => {
            let t = Arc::new(TrackConsumersPool::new(FairSpillPool::new(limit), top));
            let t2 = Arc::clone(&t);
            metrics = Some(Box::new(move || t2.metrics()));
            let p = Arc::new(PeakRecordingPool::new(t));
            peak = Some(Arc::clone(&p));
            p
        }
    };
    Subject { pool, metrics, peak, res: vec![] }
}

// ---------------------------------------------------------------- reference model

#[derive(Clone, Debug)]
struct MCons {
    name: String,
    spill: bool,
    nres: usize,
    reserved: usize,
    peak: usize,
}

#[derive(Clone, Debug)]
struct MRes {
    cons: usize,
    size: usize,
}

#[derive(Clone, Debug)]
struct Model {
    kind: PoolKind,
    limit: usize,
    cons: Vec<MCons>, // every consumer ever registered; live iff nres > 0
    res: Vec<MRes>,
    total: usize,
    peak: usize, // max total since last reset
    max: usize,  // max total since creation
}

impl Model {
    fn new(kind: PoolKind, limit: usize) -> Self {
        Model { kind, limit, cons: vec![], res: vec![], total: 0, peak: 0, max: 0 }
    }
    fn live_cons(&self) -> usize {
        self.cons.iter().filter(|c| c.nres > 0).count()
    }
    fn grow(&mut self, r: usize, s: usize) {
        self.res[r].size += s;
        let c = &mut self.cons[self.res[r].cons];
        c.reserved += s;
        c.peak = c.peak.max(c.reserved);
        self.total += s;
        self.peak = self.peak.max(self.total);
        self.max = self.max.max(self.total);
    }
    fn shrink(&mut self, r: usize, s: usize) {
        self.res[r].size -= s;
        self.cons[self.res[r].cons].reserved -= s;
        self.total -= s;
    }
    fn unspillable(&self) -> usize {
        self.cons.iter().filter(|c| c.nres > 0 && !c.spill).map(|c| c.reserved).sum()
    }
    fn n_spill(&self) -> usize {
        self.cons.iter().filter(|c| c.nres > 0 && c.spill).count()
    }
    /// canonical key: consumers / reservations up to renaming
    fn key(&self) -> Vec<u16> {
        let mut cs: Vec<Vec<u16>> = vec![];
        for (ci, c) in self.cons.iter().enumerate() {
            if c.nres == 0 {
                continue;
            }
            let mut sizes: Vec<u16> = self.res.iter().filter(|r| r.cons == ci).map(|r| r.size as u16).collect();
            sizes.sort();
            let mut e = vec![c.spill as u16, if self.kind.tracks() { c.peak as u16 } else { 0 }, sizes.len() as u16];
            e.extend(sizes);
            cs.push(e);
        }
        cs.sort();
        let mut k = vec![self.res.len() as u16, cs.len() as u16];
        if self.kind.peaks() {
            k.push(self.peak as u16);
            k.push(self.max as u16);
        }
        for c in cs {
            k.extend(c);
        }
        k
    }
}

// ---------------------------------------------------------------- lock-step execution

#[derive(Default)]
struct RunInfo {
    disabled: bool,
    findings: Vec<(String, String)>,
    key: Vec<u16>,
    // what the last step was
    granted: bool,
    refused: bool,
    expected_panic: bool,
    expected_err: bool,
}

fn observe(sub: &Subject, m: &Model) -> Result<(), String> {
    let reserved = sub.pool.reserved();
    if reserved != m.total {
        return Err(format!("pool.reserved() = {reserved}, sum of live reservations = {}", m.total));
    }
    for (i, r) in sub.res.iter().enumerate() {
        if r.size() != m.res[i].size {
            return Err(format!("reservation {i}: size() = {}, expected {}", r.size(), m.res[i].size));
        }
    }
    if let Some(f) = &sub.metrics {
        let mut got: Vec<(String, bool, usize, usize)> =
            f().into_iter().map(|x| (x.name, x.can_spill, x.reserved, x.peak)).collect();
        got.sort();
        let mut exp: Vec<(String, bool, usize, usize)> = m
            .cons
            .iter()
            .filter(|c| c.nres > 0)
            .map(|c| (c.name.clone(), c.spill, c.reserved, c.peak))
            .collect();
        exp.sort();
        if got != exp {
            return Err(format!("metrics() = {got:?} (name, can_spill, reserved, peak), expected {exp:?}"));
        }
    }
    if let Some(p) = &sub.peak {
        if p.peak_reserved() != m.peak {
            return Err(format!("peak_reserved() = {}, maximum total since last reset = {}", p.peak_reserved(), m.peak));
        }
        if p.max_reserved() != m.max {
            return Err(format!("max_reserved() = {}, maximum total since creation = {}", p.max_reserved(), m.max));
        }
    }
    Ok(())
}

/// A fallible growth of `add` bytes on reservation `r` was attempted (directly or
/// through `try_resize`); `granted` is what the implementation answered.
fn after_try_grow(
    m: &mut Model,
    r: usize,
    add: usize,
    granted: bool,
    info: &mut RunInfo,
    what: &str,
) -> Result<(), String> {
    let ci = m.res[r].cons;
    let spill = m.cons[ci].spill;
    let unspillable_before = m.unspillable();
    let n_spill = m.n_spill();
    if granted {
        info.granted = true;
        m.grow(r, add);
        if add == 0 {
            return Ok(());
        }
        if m.kind.is_greedy() && m.total > m.limit {
            return Err(format!("{what}: greedy pool granted {add} bytes taking the total to {} > limit {}", m.total, m.limit));
        }
        if m.kind.is_fair() {
            if !spill {
                if m.total > m.limit {
                    return Err(format!(
                        "{what}: fair pool granted {add} bytes to a non-spillable consumer taking the total to {} > limit {}",
                        m.total, m.limit
                    ));
                }
            } else {
                let share = m.limit.saturating_sub(unspillable_before) / n_spill.max(1);
                if m.res[r].size > share {
                    return Err(format!(
                        "{what}: fair pool granted {add} bytes taking a spillable reservation to {} > (limit {} - unspillable {unspillable_before}) / {n_spill} spillable consumer(s) = {share}",
                        m.res[r].size, m.limit
                    ));
                }
                if m.cons[ci].reserved > share && m.cons[ci].nres > 1 {
                    info.findings.push((
                        format!("{:?}(limit={}): fallible growth granted beyond the spillable consumer's fair share (consumer holds several reservations)", m.kind, m.limit),
                        format!(
                            "{what}: fair pool granted {add} bytes taking spillable consumer {} to {} bytes over {} reservations > fair share (limit {} - unspillable {unspillable_before}) / {n_spill} spillable consumer(s) = {share}; pool total now {}",
                            m.cons[ci].name, m.cons[ci].reserved, m.cons[ci].nres, m.limit, m.total
                        ),
                    ));
                }
            }
        }
    } else {
        info.refused = true;
        if m.kind == PoolKind::Unbounded {
            return Err(format!("{what}: unbounded pool refused a growth of {add}"));
        }
        if m.kind.is_greedy() && m.total + add <= m.limit {
            return Err(format!(
                "{what}: greedy pool refused {add} bytes although total {} + {add} <= limit {}",
                m.total, m.limit
            ));
        }
    }
    Ok(())
}

fn apply(sub: &mut Subject, m: &mut Model, op: Op, info: &mut RunInfo, probe: bool) -> Result<(), String> {
    if let Some(r) = op.slot() {
        if r >= m.res.len() {
            info.disabled = true;
            return Ok(());
        }
    }
    if op.adds_slot() && m.res.len() >= MAX_RES && !probe {
        info.disabled = true;
        return Ok(());
    }
    match op {
        Op::Register { spill } => {
            if m.live_cons() >= MAX_CONS && !probe {
                info.disabled = true;
                return Ok(());
            }
            let name = format!("c{}", m.cons.len());
            let pool = Arc::clone(&sub.pool);
            let res = mc_core::catch(|| MemoryConsumer::new(name.clone()).with_can_spill(spill).register(&pool))
                .map_err(|e| format!("register: {e}"))?;
            if res.size() != 0 {
                return Err(format!("register: new reservation has size {}", res.size()));
            }
            sub.res.push(res);
            m.cons.push(MCons { name, spill, nres: 1, reserved: 0, peak: 0 });
            m.res.push(MRes { cons: m.cons.len() - 1, size: 0 });
        }
        Op::Grow { r, s } => {
            mc_core::catch(|| sub.res[r].grow(s)).map_err(|e| format!("grow({s}): {e}"))?;
            m.grow(r, s);
        }
        Op::TryGrow { r, s } => {
            let res = mc_core::catch(|| sub.res[r].try_grow(s)).map_err(|e| format!("try_grow({s}): {e}"))?;
            after_try_grow(m, r, s, res.is_ok(), info, &format!("try_grow({s})"))?;
        }
        Op::Shrink { r, s } => {
            let res = mc_core::catch(|| sub.res[r].shrink(s));
            if s > m.res[r].size {
                // documented: "Panics if `capacity` exceeds `size`"; nothing may change
                if res.is_ok() {
                    return Err(format!("shrink({s}) of a reservation of size {} did not panic as documented", m.res[r].size));
                }
                info.expected_panic = true;
            } else {
                res.map_err(|e| format!("shrink({s}) within size {}: {e}", m.res[r].size))?;
                m.shrink(r, s);
            }
        }
        Op::TryShrink { r, s } => {
            let res = mc_core::catch(|| sub.res[r].try_shrink(s)).map_err(|e| format!("try_shrink({s}): {e}"))?;
            if s > m.res[r].size {
                if res.is_ok() {
                    return Err(format!("try_shrink({s}) of a reservation of size {} returned Ok", m.res[r].size));
                }
                info.expected_err = true;
            } else {
                m.shrink(r, s);
                match res {
                    Ok(n) if n == m.res[r].size => {}
                    Ok(n) => return Err(format!("try_shrink({s}) returned new size {n}, expected {}", m.res[r].size)),
                    Err(e) => return Err(format!("try_shrink({s}) within size failed: {e}")),
                }
            }
        }
        Op::Resize { r, s } => {
            mc_core::catch(|| sub.res[r].resize(s)).map_err(|e| format!("resize({s}): {e}"))?;
            let cur = m.res[r].size;
            if s > cur {
                m.grow(r, s - cur);
            } else {
                m.shrink(r, cur - s);
            }
        }
        Op::TryResize { r, s } => {
            let res = mc_core::catch(|| sub.res[r].try_resize(s)).map_err(|e| format!("try_resize({s}): {e}"))?;
            let cur = m.res[r].size;
            if s > cur {
                after_try_grow(m, r, s - cur, res.is_ok(), info, &format!("try_resize({s}) from {cur}"))?;
            } else {
                if let Err(e) = res {
                    return Err(format!("try_resize({s}) from {cur} (no growth) failed: {e}"));
                }
                m.shrink(r, cur - s);
            }
        }
        Op::Split { r, s } => {
            let res = mc_core::catch(|| sub.res[r].split(s));
            if s > m.res[r].size {
                if res.is_ok() {
                    return Err(format!("split({s}) of a reservation of size {} did not panic as documented", m.res[r].size));
                }
                info.expected_panic = true;
            } else {
                let new = res.map_err(|e| format!("split({s}) within size {}: {e}", m.res[r].size))?;
                sub.res.push(new);
                let ci = m.res[r].cons;
                m.res[r].size -= s;
                m.res.push(MRes { cons: ci, size: s });
                m.cons[ci].nres += 1;
            }
        }
        Op::Take { r } => {
            let new = mc_core::catch(|| sub.res[r].take()).map_err(|e| format!("take: {e}"))?;
            sub.res.push(new);
            let ci = m.res[r].cons;
            let s = m.res[r].size;
            m.res[r].size = 0;
            m.res.push(MRes { cons: ci, size: s });
            m.cons[ci].nres += 1;
        }
        Op::NewEmpty { r } => {
            let new = mc_core::catch(|| sub.res[r].new_empty()).map_err(|e| format!("new_empty: {e}"))?;
            sub.res.push(new);
            let ci = m.res[r].cons;
            m.res.push(MRes { cons: ci, size: 0 });
            m.cons[ci].nres += 1;
        }
        Op::Free { r } => {
            let n = mc_core::catch(|| sub.res[r].free()).map_err(|e| format!("free: {e}"))?;
            let cur = m.res[r].size;
            if n != cur {
                return Err(format!("free() returned {n}, reservation held {cur}"));
            }
            m.shrink(r, cur);
        }
        Op::Drop { r } => {
            let res = sub.res.remove(r);
            mc_core::catch(move || drop(res)).map_err(|e| format!("drop: {e}"))?;
            let cur = m.res[r].size;
            m.shrink(r, cur);
            let ci = m.res[r].cons;
            m.res.remove(r);
            m.cons[ci].nres -= 1;
        }
        Op::ResetPeak => match &sub.peak {
            Some(p) => {
                p.reset_peak();
                m.peak = m.total;
            }
            None => info.disabled = true,
        },
    }
    Ok(())
}

/// Probes of the pools' hidden state, run after the last step of every history
/// (the subject is fresh per history, so the probes may disturb it).  Without
/// them a divergence between the pool's private counters (FairSpillPool's
/// `num_spill` / `spillable` / `unspillable` split, PeakRecordingPool's running
/// total) and the reference would stay invisible until a later growth decision
/// and could be lost to state de-duplication.
///  * bounded pools: a fresh non-spillable consumer (and, for fair pools, a fresh
///    spillable one) attempts `try_grow(x)` for every x in 1..=limit+1, freeing
///    after every grant; the ordinary oracle of `try_grow` applies to each
///    attempt (Greedy: granted iff it fits; Fair: a grant must stay within the
///    limit / within the fair share computed from the reference state);
///  * peak-recording pools: `reset_peak()` must set the peak to the current total.
fn probe_hidden_state(sub: &mut Subject, m: &mut Model, info: &mut RunInfo) -> Result<(), String> {
    let kind = m.kind;
    if kind.is_greedy() || kind.is_fair() {
        for spill in [false, true] {
            if spill && !kind.is_fair() {
                continue;
            }
            let step = |sub: &mut Subject, m: &mut Model, info: &mut RunInfo, op: Op| -> Result<(), String> {
                apply(sub, m, op, info, true).map_err(|e| format!("fresh {} consumer, {op:?}: {e}", if spill { "spillable" } else { "non-spillable" }))
            };
            step(sub, m, info, Op::Register { spill })?;
            let r = m.res.len() - 1;
            for x in 1..=m.limit + 1 {
                step(sub, m, info, Op::TryGrow { r, s: x })?;
                step(sub, m, info, Op::Free { r })?;
            }
            step(sub, m, info, Op::Drop { r })?;
            observe(sub, m).map_err(|e| format!("after probing with a fresh consumer: {e}"))?;
        }
    }
    if kind.peaks() {
        apply(sub, m, Op::ResetPeak, info, true)?;
        observe(sub, m).map_err(|e| format!("after reset_peak: {e}"))?;
    }
    Ok(())
}

/// Build a fresh pool, replay `c.ops` in lock step with the model.  The oracle
/// on observables is evaluated after every step when `all_steps`, otherwise only
/// after the last one (the prefixes were checked at shallower BFS depth).  After
/// the last step everything is dropped and the pool must be empty.
fn run_case(c: &Case, all_steps: bool, mut trace: Option<&mut Vec<String>>) -> Result<RunInfo, String> {
    let mut sub = build(c.pool, c.limit);
    let mut m = Model::new(c.pool, c.limit);
    let mut info = RunInfo::default();
    observe(&sub, &m).map_err(|e| format!("fresh pool: {e}"))?;
    let n = c.ops.len();
    for (i, op) in c.ops.iter().enumerate() {
        info.granted = false;
        info.refused = false;
        info.expected_panic = false;
        info.expected_err = false;
        if !all_steps {
            info.findings.clear(); // exploration: a finding is attributed to the history whose last step raises it
        }
        let r = apply(&mut sub, &mut m, *op, &mut info, false);
        if let Some(t) = trace.as_deref_mut() {
            let outcome = match &r {
                Err(e) => format!("VIOLATION {e}"),
                Ok(()) if info.disabled => "disabled".into(),
                Ok(()) if info.granted => "granted".into(),
                Ok(()) if info.refused => "refused".into(),
                Ok(()) if info.expected_panic => "panicked as documented".into(),
                Ok(()) if info.expected_err => "Err as documented".into(),
                Ok(()) => "ok".into(),
            };
            t.push(format!(
                "{op:?} -> {outcome}; sizes={:?} total={}",
                m.res.iter().map(|r| (m.cons[r.cons].name.as_str(), r.size)).collect::<Vec<_>>(),
                m.total
            ));
        }
        r.map_err(|e| format!("step {i} {op:?}: {e}"))?;
        if info.disabled {
            if i + 1 == n {
                return Ok(info);
            }
            return Err(format!("step {i} {op:?}: operation not enabled inside a recorded history (bad case)"));
        }
        if all_steps || i + 1 == n {
            observe(&sub, &m).map_err(|e| format!("after step {i} {op:?}: {e}"))?;
        }
    }
    info.key = m.key();
    probe_hidden_state(&mut sub, &mut m, &mut info).map_err(|e| format!("probe after the history: {e}"))?;
    // teardown: drop every reservation, last first; everything must return to zero
    while let Some(res) = sub.res.pop() {
        mc_core::catch(move || drop(res)).map_err(|e| format!("teardown drop: {e}"))?;
        let r = m.res.len() - 1;
        let cur = m.res[r].size;
        m.shrink(r, cur);
        let ci = m.res[r].cons;
        m.res.pop();
        m.cons[ci].nres -= 1;
    }
    observe(&sub, &m).map_err(|e| format!("after dropping every reservation: {e}"))?;
    if sub.pool.reserved() != 0 {
        return Err(format!("after dropping every reservation reserved() = {}", sub.pool.reserved()));
    }
    Ok(info)
}

fn explore(ctx: &Ctx) {
    let depth = std::env::var("VERIF_C17_DEPTH").ok().and_then(|s| s.parse().ok()).unwrap_or(ctx.pick(6, 8));
    ctx.set_extra(
        "bounds",
        json!({"max_depth": depth, "sizes": SIZES, "limit": LIMIT, "max_live_reservations": MAX_RES,
               "max_live_consumers": MAX_CONS, "pools": KINDS.iter().map(|k| format!("{k:?}")).collect::<Vec<_>>(),
               "alphabet_size": alphabet(PoolKind::PeakGreedy).len()}),
    );
    ctx.assume("state de-duplication assumes the pools treat consumers and reservations symmetrically (canonical key = reference state up to renaming of consumers/reservation slots; consumer ids and names are not part of the key)");
    ctx.assume("sequential histories only; concurrent interleavings are the loom part of C17");
    let granted = AtomicU64::new(0);
    let refused = AtomicU64::new(0);
    let panics = AtomicU64::new(0);
    let errs = AtomicU64::new(0);
    let per_pool: Vec<(PoolKind, chk_exec::BfsStats)> = KINDS
        .par_iter()
        .map(|&kind| {
            let ops = alphabet(kind);
            let mut sampled = kind == PoolKind::Unbounded; // 6 samples are kept: one per bounded pool kind
            let mut on_state = |h: &[Op], k: &Vec<u16>| {
                // non-trivial: >= 2 live reservations and a non-zero total
                let nres = k[0];
                let off = if kind.peaks() { 4 } else { 2 };
                let mut total = 0u32;
                let mut i = off;
                while i < k.len() {
                    let n = k[i + 2] as usize;
                    total += k[i + 3..i + 3 + n].iter().map(|x| *x as u32).sum::<u32>();
                    i += 3 + n;
                }
                if nres >= 2 && total > 0 {
                    ctx.nontrivial(&(kind, k));
                    // one written-out sample per pool kind: a history that re-arranges reservations
                    // (split / take / new_empty) and ends in a fallible growth of > 0 bytes
                    if !sampled
                        && h.len() >= 5
                        && h.iter().any(|o| matches!(o, Op::Split { s, .. } if *s > 0) || matches!(o, Op::Take { .. }))
                        && h.iter().any(|o| matches!(o, Op::Grow { s, .. } if *s > 0))
                        && matches!(h.last(), Some(Op::TryGrow { s, .. }) if *s > 0)
                        && ctx.want_sample()
                    {
                        sampled = true;
                        let case = Case { pool: kind, limit: LIMIT, ops: h.to_vec() };
                        let mut tr = vec![];
                        let _ = run_case(&case, true, Some(&mut tr));
                        ctx.sample(json!({"case": case, "trace": tr}));
                    }
                }
            };
            let mut on_violation = |h: &[Op], what: String| {
                let case = Case { pool: kind, limit: LIMIT, ops: h.to_vec() };
                ctx.violation(serde_json::to_string(&case).unwrap(), what, serde_json::to_value(&case).unwrap());
            };
            let mut on_finding = |h: &[Op], key: String, what: String| {
                let case = Case { pool: kind, limit: LIMIT, ops: h.to_vec() };
                ctx.violation(key, what, serde_json::to_value(&case).unwrap());
            };
            let stats = par_bfs(
                &ops,
                depth,
                2048,
                |k: &Vec<u16>, op: &Op| {
                    let nres = k[0] as usize;
                    let ncons = k[1] as usize;
                    if let Some(r) = op.slot() {
                        if r >= nres {
                            return false;
                        }
                    }
                    if op.adds_slot() && nres >= MAX_RES {
                        return false;
                    }
                    if matches!(op, Op::Register { .. }) && ncons >= MAX_CONS {
                        return false;
                    }
                    true
                },
                |h: &[Op]| {
                    let case = Case { pool: kind, limit: LIMIT, ops: h.to_vec() };
                    ctx.eval();
                    match mc_core::catch(|| run_case(&case, false, None)).unwrap_or_else(|e| Err(format!("harness: {e}"))) {
                        Ok(info) if info.disabled => Visit::Disabled,
                        Ok(info) => {
                            if info.granted {
                                granted.fetch_add(1, Ordering::Relaxed);
                            }
                            if info.refused {
                                refused.fetch_add(1, Ordering::Relaxed);
                            }
                            if info.expected_panic {
                                panics.fetch_add(1, Ordering::Relaxed);
                            }
                            if info.expected_err {
                                errs.fetch_add(1, Ordering::Relaxed);
                            }
                            Visit::State { key: info.key, findings: info.findings }
                        }
                        Err(what) => Visit::Violation(what),
                    }
                },
                || ctx.should_stop(),
                BfsCallbacks { on_state: &mut on_state, on_violation: &mut on_violation, on_finding: &mut on_finding },
            );
            (kind, stats)
        })
        .collect();
    let mut per = serde_json::Map::new();
    for (kind, s) in &per_pool {
        ctx.add_states(s.states);
        ctx.add_transitions(s.transitions);
        if !s.complete {
            ctx.mark_capped("wall cap hit before the depth bound was completed");
        }
        per.insert(
            format!("{kind:?}"),
            json!({"states": s.states, "transitions": s.transitions, "max_depth": s.max_depth, "complete": s.complete,
                   "per_depth_new_states_transitions": s.per_depth}),
        );
    }
    ctx.set_extra("per_pool", Value::Object(per));
    ctx.count("fallible_growth_granted", granted.load(Ordering::Relaxed));
    ctx.count("fallible_growth_refused", refused.load(Ordering::Relaxed));
    ctx.count("documented_panics_observed", panics.load(Ordering::Relaxed));
    ctx.count("documented_errors_observed", errs.load(Ordering::Relaxed));
}

fn replay(v: &Value) -> Result<(), String> {
    let c: Case = serde_json::from_value(v.clone()).map_err(|e| format!("bad case: {e}"))?;
    let info = mc_core::catch(|| run_case(&c, true, None)).unwrap_or_else(|e| Err(format!("harness: {e}")))?;
    if info.disabled {
        return Err("bad case: last operation is not enabled".into());
    }
    match info.findings.into_iter().next() {
        Some((_, what)) => Err(what),
        None => Ok(()),
    }
}

fn main() {
    mc_core::quiet_panics();
    run_check(
        "C17",
        Level::ModelChecking,
        "breadth-first over all histories (depth bound) of register/grow/try_grow/shrink/try_shrink/resize/try_resize/split/take/new_empty/free/drop/reset_peak \
         with sizes {0,1,3,8} on each real pool kind (limit 8), one transition = one history executed on a fresh pool in lock step with the reference model, \
         states de-duplicated by the canonical reference state; non-trivial = distinct (pool kind, state) with >= 2 live reservations and a non-zero total",
        explore,
        replay,
    );
}
