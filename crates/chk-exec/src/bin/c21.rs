//! C21 (part "acct") — disk-usage accounting of spill files stays exact, with
//! injected OS write failures.
//!
//! Subject: the real `DiskManager` (OS temp-file backend) and the
//! `SpillFile` / `SpillWriter` objects it hands out (`RefCountedTempFile`,
//! `FileSpillWriter`) — the layer below `SpillManager` / `InProgressSpillFile`.
//! Breadth-first search over all histories (depth bound) of
//! {create file, open writer, write_all(small | large), **write_all whose
//! underlying OS write fails** after 0 or 2 bytes, finish, drop writer, clone
//! handle, drop handle, set limit in {0, one large write, unlimited}}.
//!
//! OS write failures are real: the soft `RLIMIT_FSIZE` of the process is set to
//! (current file length + partial) around the one `write_all` call (SIGXFSZ
//! ignored), so `write(2)` returns a short count / `EFBIG` inside
//! `FileSpillWriter::write` exactly where a full disk would make it fail.
//!
//! Oracle (property statement): after every step `used_disk_space()` equals the
//! bytes held by the live spill files — measured independently as the sum of
//! `metadata().len()` of their paths (after a failed write that left a partial
//! fragment on disk, the sum of the successfully written bytes is accepted as
//! well); an accepted write never takes the usage above the configured limit; a
//! write rejected by the limit changes nothing; a healthy write that fits the
//! limit is not rejected; when the last handle of a file is dropped the file is
//! deleted and its bytes are subtracted; once everything is released the usage
//! is 0.  `SpillFile::size()` and `spilling_progress().current_bytes` must agree
//! with the same numbers, and `read_stream()` must return the bytes on disk.

use chk_exec::{BfsCallbacks, Visit, fsize, par_bfs};
use datafusion_execution::disk_manager::{DiskManager, DiskManagerBuilder, DiskManagerMode};
use datafusion_execution::{SpillFile, SpillWriter};
use futures::StreamExt;
use mc_core::serde_json::{Value, json};
use mc_core::{Ctx, Level, run_check};
use serde::{Deserialize, Serialize};
use std::io::Write;
use std::path::PathBuf;
use std::sync::atomic::{AtomicU64, Ordering};
use std::sync::{Arc, OnceLock};

const SMALL: usize = 3;
const LARGE: usize = 10;
const UNLIMITED: u64 = 1 << 40;
const LIMITS: [u64; 3] = [0, LARGE as u64, UNLIMITED];
const MAX_FILES: usize = 2;
const MAX_WRITERS: usize = 2;
const MAX_HANDLES: usize = 2;
const NO_ROLLBACK: &str = "[os-write-failure-not-rolled-back]";

#[derive(Serialize, Deserialize, Clone, Copy, Debug, Hash, PartialEq, Eq)]
enum Op {
    /// `dm.create_tmp_file(..)` -> new file slot with one handle
    Create,
    /// `file.open_writer()` -> new writer slot
    OpenWriter { f: usize },
    /// `writer.write_all(&[n bytes])`, healthy OS
    Write { w: usize, n: usize },
    /// `writer.write_all(&[n bytes])` while the OS refuses to let the file grow by more than `partial` bytes
    WriteOsFail { w: usize, n: usize, partial: usize },
    /// `writer.flush()` + `SpillWriter::finish()`
    Finish { w: usize },
    DropWriter { w: usize },
    /// `Arc::clone` of the file handle
    CloneHandle { f: usize },
    /// drop one handle of the file (the last one releases the file; its writers are dropped first)
    DropHandle { f: usize },
    /// `dm.set_max_temp_directory_size(LIMITS[l])`
    SetLimit { l: usize },
}

fn alphabet() -> Vec<Op> {
    let mut v = vec![Op::Create];
    for f in 0..MAX_FILES {
        v.push(Op::OpenWriter { f });
    }
    for w in 0..MAX_WRITERS {
        for n in [SMALL, LARGE] {
            v.push(Op::Write { w, n });
        }
    }
    for w in 0..MAX_WRITERS {
        for n in [SMALL, LARGE] {
            for partial in [0, 2] {
                v.push(Op::WriteOsFail { w, n, partial });
            }
        }
    }
    for w in 0..MAX_WRITERS {
        v.push(Op::Finish { w });
        v.push(Op::DropWriter { w });
    }
    for f in 0..MAX_FILES {
        v.push(Op::CloneHandle { f });
        v.push(Op::DropHandle { f });
    }
    for l in 0..LIMITS.len() {
        v.push(Op::SetLimit { l });
    }
    v
}

#[derive(Serialize, Deserialize, Clone, Debug, Hash)]
struct Case {
    ops: Vec<Op>,
}

// ---------------------------------------------------------------- subject + model

struct SFile {
    handles: Vec<Arc<dyn SpillFile>>,
    path: PathBuf,
}

struct SWriter {
    w: Box<dyn SpillWriter>,
}

#[derive(Clone, Debug)]
struct MFile {
    handles: usize,
    /// bytes physically in the file (including fragments of failed writes)
    phys: Vec<u8>,
    /// bytes of successfully completed writes
    accounted: u64,
}

#[derive(Clone, Debug)]
struct Model {
    limit: u64,
    files: Vec<MFile>,
    writers: Vec<usize>, // writer slot -> file slot
}

impl Model {
    fn disk(&self) -> u64 {
        self.files.iter().map(|f| f.phys.len() as u64).sum()
    }
    fn accounted(&self) -> u64 {
        self.files.iter().map(|f| f.accounted).sum()
    }
    fn key(&self) -> Vec<u16> {
        let mut fs: Vec<Vec<u16>> = self
            .files
            .iter()
            .enumerate()
            .map(|(i, f)| {
                vec![
                    f.handles as u16,
                    f.phys.len() as u16,
                    f.accounted as u16,
                    self.writers.iter().filter(|w| **w == i).count() as u16,
                ]
            })
            .collect();
        fs.sort();
        let mut k = vec![
            LIMITS.iter().position(|l| *l == self.limit).unwrap() as u16,
            self.files.len() as u16,
            self.writers.len() as u16,
        ];
        for f in fs {
            k.extend(f);
        }
        k
    }
}

fn base_dir() -> &'static PathBuf {
    static BASE: OnceLock<PathBuf> = OnceLock::new();
    BASE.get_or_init(|| {
        let root = if std::path::Path::new("/dev/shm").is_dir() { PathBuf::from("/dev/shm") } else { std::env::temp_dir() };
        let d = root.join(format!("verif-c21-{}", std::process::id()));
        let _ = std::fs::create_dir_all(&d);
        d
    })
}

fn read_all(file: &Arc<dyn SpillFile>) -> Result<Vec<u8>, String> {
    thread_local! {
        static RT: tokio::runtime::Runtime = tokio::runtime::Builder::new_current_thread().build().unwrap();
    }
    RT.with(|rt| {
        rt.block_on(async {
            let mut s = file.read_stream().map_err(|e| format!("read_stream: {e}"))?;
            let mut out = vec![];
            while let Some(chunk) = s.next().await {
                out.extend_from_slice(&chunk.map_err(|e| format!("read_stream chunk: {e}"))?);
            }
            Ok(out)
        })
    })
}

#[derive(Default)]
struct Info {
    disabled: bool,
    key: Vec<u16>,
    quota_rejections: usize,
    os_failures: usize,
    releases: usize,
}

struct Run {
    dm: Arc<DiskManager>,
    files: Vec<SFile>,
    writers: Vec<SWriter>,
    m: Model,
}

impl Run {
    fn observe(&self, after_fault: bool) -> Result<(), String> {
        let used = self.dm.used_disk_space();
        let mut disk = 0u64;
        for (i, f) in self.files.iter().enumerate() {
            let len = std::fs::metadata(&f.path).map_err(|e| format!("HARNESS: live file {i} cannot be stat'ed: {e}"))?.len();
            if len != self.m.files[i].phys.len() as u64 {
                return Err(format!(
                    "HARNESS: file {i} is {len} bytes on disk, the harness expected {} (fault injection did not behave as assumed)",
                    self.m.files[i].phys.len()
                ));
            }
            disk += len;
            let size = f.handles[0].size();
            let ok = size == Some(len) || size == Some(self.m.files[i].accounted);
            if !ok {
                return Err(format!(
                    "file {i}: SpillFile::size() = {size:?}, on-disk length {len}, successfully written {}",
                    self.m.files[i].accounted
                ));
            }
        }
        let acct = self.m.accounted();
        if used != disk && used != acct {
            let tag = if after_fault { NO_ROLLBACK } else { "" };
            return Err(format!(
                "{tag}used_disk_space() = {used}, live spill files hold {disk} bytes on disk ({acct} bytes of successfully completed writes)"
            ));
        }
        let prog = self.dm.spilling_progress().current_bytes;
        if prog != used {
            return Err(format!("spilling_progress().current_bytes = {prog} but used_disk_space() = {used}"));
        }
        Ok(())
    }

    fn release_file(&mut self, f: usize, info: &mut Info) -> Result<(), String> {
        // writers of the file first (assumption: a writer is not used after its file was released)
        let mut w = 0;
        while w < self.m.writers.len() {
            if self.m.writers[w] == f {
                self.m.writers.remove(w);
                drop(self.writers.remove(w));
            } else {
                w += 1;
            }
        }
        let sf = self.files.remove(f);
        let path = sf.path.clone();
        drop(sf);
        self.m.files.remove(f);
        for w in self.m.writers.iter_mut() {
            if *w > f {
                *w -= 1;
            }
        }
        info.releases += 1;
        if path.exists() {
            return Err(format!("released spill file {} still exists", path.display()));
        }
        Ok(())
    }

    fn apply(&mut self, i: usize, op: Op, info: &mut Info) -> Result<bool, String> {
        let mut faulted = false;
        match op {
            Op::Create => {
                if self.m.files.len() >= MAX_FILES {
                    info.disabled = true;
                    return Ok(false);
                }
                let file = self.dm.create_tmp_file("c21 check").map_err(|e| format!("create_tmp_file failed: {e}"))?;
                let path = file.path().ok_or("create_tmp_file: no path for an OS temp file")?.to_path_buf();
                self.files.push(SFile { handles: vec![file], path });
                self.m.files.push(MFile { handles: 1, phys: vec![], accounted: 0 });
            }
            Op::OpenWriter { f } => {
                if f >= self.m.files.len() || self.m.writers.len() >= MAX_WRITERS {
                    info.disabled = true;
                    return Ok(false);
                }
                let w = self.files[f].handles[0].open_writer().map_err(|e| format!("open_writer failed: {e}"))?;
                self.writers.push(SWriter { w });
                self.m.writers.push(f);
            }
            Op::Write { w, n } => {
                if w >= self.m.writers.len() {
                    info.disabled = true;
                    return Ok(false);
                }
                let f = self.m.writers[w];
                let buf: Vec<u8> = (0..n).map(|j| (i * 16 + j) as u8).collect();
                let before = self.dm.used_disk_space();
                let res = fsize::with_limit(None, || self.writers[w].w.write_all(&buf));
                match res {
                    Ok(()) => {
                        self.m.files[f].phys.extend_from_slice(&buf);
                        self.m.files[f].accounted += n as u64;
                        let used = self.dm.used_disk_space();
                        if used > self.m.limit {
                            return Err(format!(
                                "write of {n} bytes was admitted taking used_disk_space() from {before} to {used} > limit {}",
                                self.m.limit
                            ));
                        }
                    }
                    Err(e) => {
                        info.quota_rejections += 1;
                        let disk = self.m.disk();
                        let acct = self.m.accounted();
                        if disk + n as u64 <= self.m.limit && acct + n as u64 <= self.m.limit {
                            return Err(format!(
                                "write of {n} bytes rejected ({e}) although live files hold {disk} bytes and the limit is {}",
                                self.m.limit
                            ));
                        }
                    }
                }
            }
            Op::WriteOsFail { w, n, partial } => {
                if w >= self.m.writers.len() {
                    info.disabled = true;
                    return Ok(false);
                }
                let f = self.m.writers[w];
                // only meaningful when the limit check lets the write through to the OS
                if self.m.disk().max(self.m.accounted()) + n as u64 > self.m.limit {
                    info.disabled = true;
                    return Ok(false);
                }
                let buf: Vec<u8> = (0..n).map(|j| (i * 16 + j) as u8).collect();
                let cap = (self.m.files[f].phys.len() + partial) as u64;
                let res = fsize::with_limit(Some(cap), || self.writers[w].w.write_all(&buf));
                if res.is_ok() {
                    return Err("HARNESS: RLIMIT_FSIZE did not make the write fail".into());
                }
                self.m.files[f].phys.extend_from_slice(&buf[..partial]);
                info.os_failures += 1;
                faulted = true;
            }
            Op::Finish { w } => {
                if w >= self.m.writers.len() {
                    info.disabled = true;
                    return Ok(false);
                }
                fsize::with_limit(None, || self.writers[w].w.flush()).map_err(|e| format!("flush failed: {e}"))?;
                self.writers[w].w.finish().map_err(|e| format!("finish failed: {e}"))?;
            }
            Op::DropWriter { w } => {
                if w >= self.m.writers.len() {
                    info.disabled = true;
                    return Ok(false);
                }
                self.m.writers.remove(w);
                drop(self.writers.remove(w));
            }
            Op::CloneHandle { f } => {
                if f >= self.m.files.len() || self.m.files[f].handles >= MAX_HANDLES {
                    info.disabled = true;
                    return Ok(false);
                }
                let h = Arc::clone(&self.files[f].handles[0]);
                self.files[f].handles.push(h);
                self.m.files[f].handles += 1;
            }
            Op::DropHandle { f } => {
                if f >= self.m.files.len() {
                    info.disabled = true;
                    return Ok(false);
                }
                if self.m.files[f].handles > 1 {
                    self.files[f].handles.pop();
                    self.m.files[f].handles -= 1;
                } else {
                    self.release_file(f, info)?;
                }
            }
            Op::SetLimit { l } => {
                if LIMITS[l] == self.m.limit {
                    info.disabled = true;
                    return Ok(false);
                }
                self.dm.set_max_temp_directory_size(LIMITS[l]).map_err(|e| format!("set_max_temp_directory_size failed: {e}"))?;
                self.m.limit = LIMITS[l];
                if self.dm.max_temp_directory_size() != LIMITS[l] {
                    return Err(format!("max_temp_directory_size() = {} after setting {}", self.dm.max_temp_directory_size(), LIMITS[l]));
                }
            }
        }
        Ok(faulted)
    }
}

fn run_case(c: &Case, all_steps: bool, mut trace: Option<&mut Vec<String>>) -> Result<Info, String> {
    let dm = Arc::new(
        DiskManagerBuilder::default()
            .with_mode(DiskManagerMode::Directories(vec![base_dir().clone()]))
            .with_max_temp_directory_size(UNLIMITED)
            .build()
            .map_err(|e| format!("HARNESS: DiskManager build failed: {e}"))?,
    );
    let mut run = Run { dm, files: vec![], writers: vec![], m: Model { limit: UNLIMITED, files: vec![], writers: vec![] } };
    let mut info = Info::default();
    let mut any_fault = false;
    run.observe(false).map_err(|e| format!("fresh disk manager: {e}"))?;
    let n = c.ops.len();
    for (i, op) in c.ops.iter().enumerate() {
        let r = run.apply(i, *op, &mut info);
        if let Some(t) = trace.as_deref_mut() {
            t.push(format!(
                "{op:?} -> {}; files (handles, on-disk bytes, accounted) = {:?}, used_disk_space() = {}, limit = {}",
                match &r {
                    Ok(_) if info.disabled => "disabled".to_string(),
                    Ok(true) => "OS write failed as injected".to_string(),
                    Ok(false) => "ok".to_string(),
                    Err(e) => format!("VIOLATION {e}"),
                },
                run.m.files.iter().map(|f| (f.handles, f.phys.len(), f.accounted)).collect::<Vec<_>>(),
                run.dm.used_disk_space(),
                if run.m.limit == UNLIMITED { "unlimited".to_string() } else { run.m.limit.to_string() }
            ));
        }
        let faulted = r.map_err(|e| format!("step {i} {op:?}: {e}"))?;
        any_fault |= faulted;
        if info.disabled {
            if i + 1 == n {
                return Ok(info);
            }
            return Err(format!("step {i} {op:?}: operation not enabled inside a recorded history (bad case)"));
        }
        if all_steps || i + 1 == n {
            if let Err(e) = run.observe(faulted) {
                // diagnostic only: what is left after releasing everything
                let dm = Arc::clone(&run.dm);
                drop(run);
                return Err(format!(
                    "after step {i} {op:?}: {e}; after then releasing every writer and file used_disk_space() = {}",
                    dm.used_disk_space()
                ));
            }
        }
    }
    info.key = run.m.key();
    // content: read_stream() returns exactly the bytes on disk
    for (i, f) in run.files.iter().enumerate() {
        let got = read_all(&f.handles[0]).map_err(|e| format!("file {i}: {e}"))?;
        if got != run.m.files[i].phys {
            return Err(format!("file {i}: read_stream() returned {} bytes {:?}, the file holds {:?}", got.len(), got, run.m.files[i].phys));
        }
    }
    // teardown: release everything; usage must return to zero
    while !run.files.is_empty() {
        let f = run.files.len() - 1;
        while run.m.files[f].handles > 1 {
            run.files[f].handles.pop();
            run.m.files[f].handles -= 1;
        }
        run.release_file(f, &mut info)?;
        run.observe(any_fault).map_err(|e| format!("teardown, after releasing file {f}: {e}"))?;
    }
    run.writers.clear();
    let used = run.dm.used_disk_space();
    if used != 0 {
        let tag = if any_fault { NO_ROLLBACK } else { "" };
        return Err(format!("{tag}after releasing every spill file used_disk_space() = {used}, expected 0"));
    }
    Ok(info)
}

fn explore(ctx: &Ctx) {
    let depth = std::env::var("VERIF_C21_DEPTH").ok().and_then(|s| s.parse().ok()).unwrap_or(ctx.pick(12, 18));
    ctx.set_extra(
        "bounds",
        json!({"max_depth": depth, "write_sizes": [SMALL, LARGE], "os_failure_after_bytes": [0, 2], "limits": ["0", LARGE.to_string(), "unlimited"],
               "max_files": MAX_FILES, "max_writers": MAX_WRITERS, "max_handles_per_file": MAX_HANDLES, "alphabet_size": alphabet().len(),
               "backend": "real OS temp files (DiskManagerMode::Directories) under /dev/shm or the system temp dir"}),
    );
    ctx.assume("a writer is not used after the last handle of its file was dropped (dropping the last handle drops the file's writers first)");
    ctx.assume("OS write failures are injected with RLIMIT_FSIZE (EFBIG after `partial` bytes), standing in for ENOSPC/EIO/EDQUOT; the failure point is the write(2) issued by FileSpillWriter::write");
    ctx.assume("state de-duplication: canonical key = (limit, per file: handles, on-disk bytes, accounted bytes, writers), files up to renaming");
    ctx.assume("a history that exhibits a violation is not extended; histories through a violating step are therefore not explored further");
    let quota = AtomicU64::new(0);
    let osf = AtomicU64::new(0);
    let rel = AtomicU64::new(0);
    let ops = alphabet();
    let mut on_state = |h: &[Op], k: &Vec<u16>| {
        // non-trivial: some live file holds bytes, or the history released a file / hit a rejection
        let nfiles = k[1] as usize;
        let bytes: u32 = (0..nfiles).map(|i| k[3 + 4 * i + 1] as u32).sum();
        if bytes > 0 {
            ctx.nontrivial(k);
            if h.len() >= 5 && ctx.want_sample() && h.iter().any(|o| matches!(o, Op::SetLimit { .. })) {
                let case = Case { ops: h.to_vec() };
                let mut tr = vec![];
                let _ = run_case(&case, true, Some(&mut tr));
                ctx.sample(json!({"case": case, "trace": tr}));
            }
        }
    };
    let mut on_violation = |h: &[Op], what: String| {
        let case = Case { ops: h.to_vec() };
        if what.starts_with("HARNESS") || what.contains(": HARNESS") {
            ctx.machinery_error(format!("{what} in {}", serde_json::to_string(&case).unwrap()));
            return;
        }
        let key = if what.contains(NO_ROLLBACK) {
            "FileSpillWriter::write: used_disk_space not rolled back when the OS write fails".to_string()
        } else {
            serde_json::to_string(&case).unwrap()
        };
        ctx.violation(key, what, serde_json::to_value(&case).unwrap());
    };
    let mut on_finding = |_: &[Op], _: String, _: String| {};
    let stats = par_bfs(
        &ops,
        depth,
        1024,
        |k: &Vec<u16>, op: &Op| {
            let nfiles = k[1] as usize;
            let nwriters = k[2] as usize;
            match *op {
                Op::Create => nfiles < MAX_FILES,
                Op::OpenWriter { f } => f < nfiles && nwriters < MAX_WRITERS,
                Op::Write { w, .. } | Op::WriteOsFail { w, .. } | Op::Finish { w } | Op::DropWriter { w } => w < nwriters,
                Op::CloneHandle { f } | Op::DropHandle { f } => f < nfiles,
                Op::SetLimit { .. } => true,
            }
        },
        |h: &[Op]| {
            let case = Case { ops: h.to_vec() };
            match mc_core::catch(|| run_case(&case, false, None)).unwrap_or_else(|e| Err(format!("harness or subject panicked: {e}"))) {
                Ok(info) if info.disabled => Visit::Disabled,
                Ok(info) => {
                    ctx.eval();
                    quota.fetch_add(info.quota_rejections as u64, Ordering::Relaxed);
                    osf.fetch_add(info.os_failures as u64, Ordering::Relaxed);
                    rel.fetch_add(info.releases as u64, Ordering::Relaxed);
                    Visit::State { key: info.key, findings: vec![] }
                }
                Err(what) => {
                    ctx.eval();
                    if h.iter().any(|o| matches!(o, Op::WriteOsFail { .. })) {
                        osf.fetch_add(1, Ordering::Relaxed);
                    }
                    Visit::Violation(what)
                }
            }
        },
        || ctx.should_stop(),
        BfsCallbacks { on_state: &mut on_state, on_violation: &mut on_violation, on_finding: &mut on_finding },
    );
    ctx.add_states(stats.states);
    ctx.add_transitions(stats.transitions);
    if !stats.complete {
        ctx.mark_capped("wall cap hit before the depth bound was completed");
    }
    ctx.set_extra(
        "bfs",
        json!({"states": stats.states, "transitions": stats.transitions, "max_depth": stats.max_depth, "complete": stats.complete,
               "per_depth_new_states_transitions": stats.per_depth}),
    );
    ctx.count("limit_rejections_in_executed_histories", quota.load(Ordering::Relaxed));
    ctx.count("os_write_failures_injected_in_executed_histories", osf.load(Ordering::Relaxed));
    ctx.count("file_releases_in_executed_histories", rel.load(Ordering::Relaxed));
    let _ = std::fs::remove_dir_all(base_dir());
}

fn replay(v: &Value) -> Result<(), String> {
    let c: Case = serde_json::from_value(v.clone()).map_err(|e| format!("bad case: {e}"))?;
    let res = mc_core::catch(|| run_case(&c, true, None)).unwrap_or_else(|e| Err(format!("harness or subject panicked: {e}")));
    let _ = std::fs::remove_dir(base_dir()); // only succeeds when empty
    let info = res?;
    if info.disabled {
        return Err("bad case: last operation is not enabled".into());
    }
    Ok(())
}

fn main() {
    mc_core::quiet_panics();
    fsize::init();
    run_check(
        "C21",
        Level::FaultEnumeration,
        "breadth-first over all histories (depth bound) of create/open_writer/write_all(3|10 bytes)/write_all with an injected OS write failure after 0|2 bytes/\
         finish/drop writer/clone handle/drop handle/set limit(0|10|unlimited) on the real DiskManager with OS temp files (<= 2 files, <= 2 writers, <= 2 handles per file); \
         after every step used_disk_space() is compared with the sum of the on-disk lengths of the live files; non-trivial = distinct states in which a live file holds bytes",
        explore,
        replay,
    );
}
