//! shared helpers for the chk-exec checks
