//! shared helpers for the chk-exec checks
//!
//! [`par_bfs`] is the level-synchronous, parallel variant of
//! `mc_core::explore::bfs_histories`: a state is the operation history that
//! reaches it; every (frontier history, operation) pair is executed on a fresh
//! subject (`run`), the oracle is evaluated inside `run`, and states are
//! de-duplicated by a canonical key supplied by the harness.  The frontier is
//! processed in chunks with rayon; results are merged sequentially in
//! (frontier index, operation index) order so that the set of states, the first
//! history reaching each state and the first history exhibiting each finding are
//! deterministic.

use mc_core::rayon::prelude::*;
use std::collections::HashSet;
use std::hash::Hash;

/// Result of executing one history on a fresh subject.
pub enum Visit<K> {
    /// Oracle satisfied (or only *keyed findings* raised, see below); canonical
    /// key of the reached state.  A finding `(key, what)` is a violation that is
    /// reported once per `key` (first = shortest history wins) and does not stop
    /// the exploration below this history.
    State { key: K, findings: Vec<(String, String)> },
    /// Last operation is not enabled in the state reached by the prefix.
    Disabled,
    /// Oracle violated; the history is reported and not extended.
    Violation(String),
}

#[derive(Debug, Default, Clone)]
pub struct BfsStats {
    pub states: u64,
    pub transitions: u64,
    pub max_depth: usize,
    pub complete: bool,
    /// (new states, transitions) per depth, depth 1 first.
    pub per_depth: Vec<(u64, u64)>,
}

pub struct BfsCallbacks<'a, Op, K> {
    /// Called (sequentially) for every newly discovered state.
    pub on_state: &'a mut dyn FnMut(&[Op], &K),
    /// Called (sequentially) for every violating history.
    pub on_violation: &'a mut dyn FnMut(&[Op], String),
    /// Called (sequentially) for every keyed finding.
    pub on_finding: &'a mut dyn FnMut(&[Op], String, String),
}

/// Parallel breadth-first search over operation histories.
///
/// * `prefilter(parent_key, op)` — cheap static enabledness test on the
///   canonical key of the parent state (`false` = certainly disabled, the
///   implementation is not run).
/// * `run(history)` — build a fresh subject + reference model, replay the
///   history, check the oracle, return the canonical key of the final state.
pub fn par_bfs<Op, K>(
    ops: &[Op],
    max_depth: usize,
    chunk: usize,
    prefilter: impl Fn(&K, &Op) -> bool + Sync,
    run: impl Fn(&[Op]) -> Visit<K> + Sync,
    stop: impl Fn() -> bool + Sync,
    cb: BfsCallbacks<'_, Op, K>,
) -> BfsStats
where
    Op: Clone + Send + Sync,
    K: Hash + Eq + Clone + Send + Sync,
{
    let mut stats = BfsStats { complete: true, ..Default::default() };
    let mut seen: HashSet<K> = HashSet::new();
    let mut frontier: Vec<(Vec<Op>, K)> = vec![];
    match run(&[]) {
        Visit::State { key, findings } => {
            (cb.on_state)(&[], &key);
            for (k, w) in findings {
                (cb.on_finding)(&[], k, w);
            }
            seen.insert(key.clone());
            frontier.push((vec![], key));
            stats.states = 1;
        }
        Visit::Disabled => return stats,
        Visit::Violation(w) => {
            (cb.on_violation)(&[], w);
            return stats;
        }
    }
    for depth in 1..=max_depth {
        let mut next: Vec<(Vec<Op>, K)> = vec![];
        let mut new_states = 0u64;
        let mut transitions = 0u64;
        for part in frontier.chunks(chunk.max(1)) {
            if stop() {
                stats.complete = false;
                stats.per_depth.push((new_states, transitions));
                stats.states += new_states;
                stats.transitions += transitions;
                return stats;
            }
            let results: Vec<Vec<(usize, Visit<K>)>> = part
                .par_iter()
                .map(|(hist, key)| {
                    let mut out = vec![];
                    let mut h = Vec::with_capacity(hist.len() + 1);
                    h.extend_from_slice(hist);
                    for (oi, op) in ops.iter().enumerate() {
                        if !prefilter(key, op) {
                            continue;
                        }
                        h.push(op.clone());
                        let v = run(&h);
                        h.pop();
                        if !matches!(v, Visit::Disabled) {
                            out.push((oi, v));
                        }
                    }
                    out
                })
                .collect();
            for ((hist, _), rs) in part.iter().zip(results) {
                for (oi, v) in rs {
                    transitions += 1;
                    let mut h = hist.clone();
                    h.push(ops[oi].clone());
                    match v {
                        Visit::State { key, findings } => {
                            for (k, w) in findings {
                                (cb.on_finding)(&h, k, w);
                            }
                            if !seen.contains(&key) {
                                seen.insert(key.clone());
                                (cb.on_state)(&h, &key);
                                new_states += 1;
                                next.push((h, key));
                            }
                        }
                        Visit::Violation(w) => (cb.on_violation)(&h, w),
                        Visit::Disabled => {}
                    }
                }
            }
        }
        stats.per_depth.push((new_states, transitions));
        stats.states += new_states;
        stats.transitions += transitions;
        if !next.is_empty() {
            stats.max_depth = depth;
        }
        frontier = next;
        if frontier.is_empty() {
            break;
        }
    }
    stats
}

/// Injection of OS-level write failures with `RLIMIT_FSIZE`.
///
/// The soft file-size limit of the process is lowered around one write call so
/// that `write(2)` on a regular file fails with `EFBIG` once the file would grow
/// beyond the limit (bytes below the limit are still written: a *partial*
/// write).  `SIGXFSZ` is ignored.  The limit is process wide, therefore *every*
/// file write of a harness must go through [`fsize::with_limit`], which
/// serialises them behind one lock.
pub mod fsize {
    use std::sync::Mutex;

    static LOCK: Mutex<()> = Mutex::new(());

    /// Ignore `SIGXFSZ` (default action: terminate) — call once at start-up.
    pub fn init() {
        unsafe {
            libc::signal(libc::SIGXFSZ, libc::SIG_IGN);
        }
    }

    struct Restore(libc::rlimit);
    impl Drop for Restore {
        fn drop(&mut self) {
            unsafe {
                libc::setrlimit(libc::RLIMIT_FSIZE, &self.0);
            }
        }
    }

    /// Run `f` holding the file-write lock; with `Some(l)` the soft
    /// `RLIMIT_FSIZE` is `l` bytes while `f` runs and is restored afterwards
    /// (also on unwind).
    pub fn with_limit<T>(limit: Option<u64>, f: impl FnOnce() -> T) -> T {
        let _g = LOCK.lock().unwrap_or_else(|e| e.into_inner());
        match limit {
            None => f(),
            Some(l) => {
                let mut old = libc::rlimit { rlim_cur: 0, rlim_max: 0 };
                let rc = unsafe { libc::getrlimit(libc::RLIMIT_FSIZE, &mut old) };
                assert!(rc == 0, "getrlimit failed");
                let _restore = Restore(old);
                let new = libc::rlimit { rlim_cur: l as libc::rlim_t, rlim_max: old.rlim_max };
                let rc = unsafe { libc::setrlimit(libc::RLIMIT_FSIZE, &new) };
                assert!(rc == 0, "setrlimit failed");
                f()
            }
        }
    }
}
