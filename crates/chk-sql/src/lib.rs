//! shared helpers for the chk-sql checks
