//! shared helpers for the chk-sql checks
pub mod sqlmc;
