//! C29 — statistics reported as exact are exact.
//!
//! Enumerated: grammar G × the 12 rich databases × the walker's configuration
//! menu; every node N of every physical plan executed standalone, all output
//! partitions.  For N as the engine built it the statistics are asked with
//! `StatisticsContext::compute(N, partition = None)` and `(…, Some(p))` for
//! every output partition p (the non-deprecated spelling of
//! `N.partition_statistics(None | Some(p))`: it resolves the children's
//! statistics and calls `N.statistics_from_inputs`).
//!
//! Oracle: every `Precision::Exact` entry must equal the value computed from
//! the rows N actually produced (all partitions for `None`, partition p for
//! `Some(p)`):
//!   num_rows; per column null_count, min_value, max_value (over the non-NULL
//!   values, independent comparator), sum_value (integers exactly, floats to
//!   1e-9 relative), distinct_count (distinct non-NULL values; a count that
//!   also includes NULL as one value is accepted, the definition being silent).
//! `Inexact` and `Absent` demand nothing; byte sizes are not among the
//! statistics the property names.  Columns of a type the oracle cannot order /
//! add are counted as undecided.
//!
//! Debug helper: `c29 --explain "<sql>" [--db <label>] [--config <name>]`.
#[path = "walker/mod.rs"]
mod walker;

use arrow::array::RecordBatch;
use chk_sql::sqlmc::engine;
use chk_sql::sqlmc::value::Value;
use datafusion::common::stats::Precision;
use datafusion::common::{ScalarValue, Statistics};
use datafusion::physical_plan::statistics::{StatisticsArgs, StatisticsContext};
use mc_core::serde_json::json;
use mc_core::{Ctx, Level, run_check};
use std::cmp::Ordering;
use std::collections::BTreeSet;
use walker::{Case, Checker, ExploreOpts, NodeRun, Outcome, PlanRun, cmp_non_null, column_values, same_value};

fn scalar_value(sv: &ScalarValue) -> Option<Value> {
    let a = sv.to_array_of_size(1).ok()?;
    engine::array_to_values(&a).into_iter().next()
}

fn ident(v: &Value) -> Option<String> {
    Some(match v {
        Value::Bool(b) => format!("b{b}"),
        Value::Int(i) => format!("i{i}"),
        Value::Float(f) => format!("f{:016x}", if *f == 0.0 { 0f64.to_bits() } else { f.to_bits() }),
        Value::Text(s) => format!("t{s:?}"),
        _ => return None,
    })
}

/// min (want = Less) or max (want = Greater) of the non-NULL cells; Err when undecidable.
fn extreme(vals: &[Value], want: Ordering) -> Result<Option<Value>, ()> {
    let mut best: Option<&Value> = None;
    for v in vals.iter().filter(|v| !v.is_null()) {
        match best {
            None => best = Some(v),
            Some(b) => match cmp_non_null(v, b) {
                None => return Err(()),
                Some(o) if o == want => best = Some(v),
                _ => {}
            },
        }
    }
    if let Some(Value::Float(f)) = best {
        if f.is_nan() {
            return Err(());
        }
    }
    if let Some(b) = best {
        if cmp_non_null(b, b).is_none() {
            return Err(());
        }
    }
    Ok(best.cloned())
}

struct Scope<'a> {
    what: String,
    batches: Vec<&'a RecordBatch>,
}

fn check_stats(n: &NodeRun, scope: &Scope, stats: &Statistics, out: &mut Outcome, nontrivial: &mut BTreeSet<String>) {
    let name = &n.node.name;
    let batches: Vec<RecordBatch> = scope.batches.iter().map(|b| (*b).clone()).collect();
    let rows: usize = batches.iter().map(|b| b.num_rows()).sum();
    let mut exact = |out: &mut Outcome, kind: &str| {
        out.count(&format!("exact_statistics_checked:{kind}"), 1);
        out.count(&format!("exact_statistics_checked_by_node:{name}"), 1);
        if rows > 0 {
            nontrivial.insert(kind.to_string());
        }
    };
    if let Precision::Exact(r) = &stats.num_rows {
        exact(out, "num_rows");
        if *r != rows {
            out.finding(&n.node, "exact num_rows differs from the rows produced", format!("{}: statistics say num_rows = Exact({r}), the node produced {rows} row(s)", scope.what));
        }
    }
    let schema = n.node.plan.schema();
    if stats.column_statistics.len() != schema.fields().len() {
        if !stats.column_statistics.is_empty() {
            out.count("undecided:column_statistics_length_differs_from_schema", 1);
        }
        return;
    }
    for (ci, cs) in stats.column_statistics.iter().enumerate() {
        let any_exact = matches!(cs.null_count, Precision::Exact(_))
            || matches!(cs.min_value, Precision::Exact(_))
            || matches!(cs.max_value, Precision::Exact(_))
            || matches!(cs.sum_value, Precision::Exact(_))
            || matches!(cs.distinct_count, Precision::Exact(_));
        if !any_exact {
            continue;
        }
        if batches.iter().any(|b| b.num_columns() <= ci) {
            out.count("undecided:batch_has_fewer_columns_than_the_schema", 1);
            continue;
        }
        let vals = column_values(&batches, ci);
        let fname = schema.field(ci).name().clone();
        let nulls = vals.iter().filter(|v| v.is_null()).count();
        if let Precision::Exact(nc) = &cs.null_count {
            exact(out, "null_count");
            if *nc != nulls {
                out.finding(&n.node, "exact null_count differs from the NULLs produced", format!("{}: column {ci} `{fname}` null_count = Exact({nc}), the output holds {nulls} NULL(s) in {rows} row(s)", scope.what));
            }
        }
        for (label, prec, want) in [("min_value", &cs.min_value, Ordering::Less), ("max_value", &cs.max_value, Ordering::Greater)] {
            let Precision::Exact(sv) = prec else { continue };
            let Some(declared) = scalar_value(sv) else {
                out.count("undecided:statistic_value_not_convertible", 1);
                continue;
            };
            match extreme(&vals, want) {
                Err(()) => out.count("undecided:min_max_of_a_type_without_known_order", 1),
                Ok(actual) => {
                    exact(out, label);
                    let actual_v = actual.clone().unwrap_or(Value::Null);
                    if same_value(&declared, &actual_v) != Some(true) {
                        // two keys: a wrong extreme of existing values, and an extreme claimed for a column that
                        // produced no value at all (statistics that are only right if the output is non-empty)
                        let prop = if actual.is_none() { "exact min/max claimed although the output has no non-NULL value" } else { "exact min/max differs from the values produced" };
                        out.finding(&n.node, prop, format!("{}: column {ci} `{fname}` {label} = Exact({sv}), the output's {label} is {}", scope.what, actual_v.sql_literal()));
                    }
                }
            }
        }
        if let Precision::Exact(sv) = &cs.sum_value {
            match scalar_value(sv) {
                None => out.count("undecided:statistic_value_not_convertible", 1),
                Some(declared) => {
                    let non_null: Vec<&Value> = vals.iter().filter(|v| !v.is_null()).collect();
                    if non_null.iter().all(|v| matches!(v, Value::Int(_))) {
                        exact(out, "sum_value");
                        let s: i128 = non_null.iter().map(|v| if let Value::Int(i) = v { *i as i128 } else { 0 }).sum();
                        let ok = match &declared {
                            Value::Int(d) => *d as i128 == s,
                            Value::Float(d) => *d == s as f64,
                            Value::Null => non_null.is_empty(),
                            _ => false,
                        };
                        if !ok {
                            out.finding(&n.node, "exact sum_value differs from the sum of the values produced", format!("{}: column {ci} `{fname}` sum_value = Exact({sv}), the output sums to {s} over {} non-NULL value(s)", scope.what, non_null.len()));
                        }
                    } else if non_null.iter().all(|v| matches!(v, Value::Int(_) | Value::Float(_))) {
                        exact(out, "sum_value");
                        let s: f64 = non_null.iter().filter_map(|v| v.as_f64()).sum();
                        let ok = match declared.as_f64() {
                            Some(d) => (d - s).abs() <= 1e-9 * s.abs().max(1.0),
                            None => declared.is_null() && non_null.is_empty(),
                        };
                        if !ok {
                            out.finding(&n.node, "exact sum_value differs from the sum of the values produced", format!("{}: column {ci} `{fname}` sum_value = Exact({sv}), the output sums to {s}", scope.what));
                        }
                    } else {
                        out.count("undecided:sum_of_a_non_numeric_column", 1);
                    }
                }
            }
        }
        if let Precision::Exact(dc) = &cs.distinct_count {
            let ids: Option<BTreeSet<String>> = vals.iter().filter(|v| !v.is_null()).map(ident).collect();
            match ids {
                None => out.count("undecided:distinct_count_of_a_type_without_known_identity", 1),
                Some(ids) => {
                    exact(out, "distinct_count");
                    let d = ids.len();
                    if !(*dc == d || (nulls > 0 && *dc == d + 1)) {
                        out.finding(
                            &n.node,
                            if d == 0 { "exact distinct_count claimed although the output has no non-NULL value" } else { "exact distinct_count differs from the distinct values produced" },
                            format!("{}: column {ci} `{fname}` distinct_count = Exact({dc}), the output holds {d} distinct non-NULL value(s){}", scope.what, if nulls > 0 { " and NULLs" } else { "" }),
                        );
                    }
                }
            }
        }
    }
}

fn check(case: &Case, run: &PlanRun, out: &mut Outcome) {
    for n in &run.nodes {
        let Some(o) = n.output() else { continue };
        if !o.complete() {
            continue;
        }
        out.evals += 1;
        let plan = n.node.plan.as_ref();
        let mut nontrivial: BTreeSet<String> = BTreeSet::new();
        let mut sample_stats: Option<String> = None;
        let scopes: Vec<Option<usize>> = std::iter::once(None).chain((0..o.parts.len()).map(Some)).collect();
        for sc in scopes {
            let computed = mc_core::catch(|| StatisticsContext::new().compute(plan, &StatisticsArgs::new().with_partition(sc)));
            let stats = match computed {
                Ok(Ok(s)) => s,
                Ok(Err(e)) => {
                    out.count("statistics_calls_returning_an_error", 1);
                    out.notes.push(("statistics error".into(), format!("node {:?} {} partition {sc:?}: {e}", n.node.path, n.node.name)));
                    continue;
                }
                Err(p) => {
                    out.count("statistics_calls_panicking", 1);
                    out.notes.push(("statistics panic".into(), format!("node {:?} {} partition {sc:?}: {p}", n.node.path, n.node.name)));
                    continue;
                }
            };
            out.count("statistics_calls", 1);
            let scope = match sc {
                None => Scope { what: "partition_statistics(None)".into(), batches: o.parts.iter().flatten().collect() },
                Some(p) => Scope { what: format!("partition_statistics(Some({p}))"), batches: o.parts[p].iter().collect() },
            };
            if sc.is_none() {
                sample_stats = Some(format!("{stats}"));
            }
            check_stats(n, &scope, &stats, out, &mut nontrivial);
        }
        for k in &nontrivial {
            out.nontrivial.push(format!("{:?}/{k}", n.node.path));
            out.count(&format!("nodes_with_an_exact_{k}_checked_on_rows"), 1);
        }
        if !nontrivial.is_empty() {
            out.count(&format!("nodes_with_exact_statistics_on_rows:{}", n.node.name), 1);
            if out.sample.is_none() && nontrivial.len() >= 2 && n.node.path.len() >= 1 && n.node.plan.children().len() >= 1 {
                out.sample = Some(json!({
                    "sql": case.sql, "db": case.db_label, "config": case.config, "node": n.node.path, "node_text": walker::one_line(plan),
                    "statistics(None)": sample_stats, "exact_kinds_checked": nontrivial,
                    "partitions": o.parts.iter().map(|b| chk_sql::sqlmc::value::show_rows(&engine::batches_to_result(n.node.plan.schema().as_ref(), b).rows)).collect::<Vec<_>>(),
                }));
            }
        }
    }
}

const CHECKER: Checker = Checker { check: &check, needs_all_nodes: false };

fn explore(ctx: &Ctx) {
    let configs: Vec<&str> = ctx.pick(vec!["default", "tp3", "smj_bs2", "parquet"], walker::ALL_CONFIGS.to_vec());
    walker::explore(ctx, &ExploreOpts { configs: &configs }, &CHECKER);
}

fn main() {
    if walker::debug_main(&mc_core::extra_args(), &CHECKER) {
        return;
    }
    mc_core::quiet_panics();
    run_check(
        "C29",
        Level::Exploration,
        "every query of grammar G (tier menus) x the 12 rich databases x the configuration menu (quick: default, target_partitions=3 over 2-partition tables, sort-merge join + batch_size 2, Parquet files with collected statistics; \
         thorough adds declared-sorted MemTables): every node of the physical plan executed standalone (all partitions, fresh state); its statistics for partition None and for each Some(p) \
         (StatisticsContext::compute = partition_statistics) are compared entry by entry with the values computed from the rows produced wherever the entry is Precision::Exact \
         (num_rows, null_count, min, max, sum, distinct_count); evaluations = node executions with a complete output; non-trivial = distinct (query, database, configuration, node, \
         statistic kind) where an Exact entry was compared against a non-empty output",
        explore,
        |v| walker::replay(v, &CHECKER),
    );
}
