//! C18 — memory-limited queries are exact or fail cleanly, and release everything.
//!
//! Exploration over the CONFIGURATION dimension (the data dimension is fixed:
//! it must exceed the budgets): a fixed list of spilling-capable SQL queries
//! over a deterministic ≈ 2 000-row dataset (duplicate- and NULL-heavy keys,
//! multi-partition multi-batch MemTables) × memory limit grid × pool policy ×
//! spill compression × max spill file size × max spill merge fan-in. Full
//! cross product in the thorough tier; in the quick tier every memory limit at
//! the base configuration plus single deviations of the other four dimensions
//! at four base limits.
//!
//! Oracle per run (exactly the statement):
//! * the run succeeds and its result equals the unlimited run's (multiset;
//!   sequence / sequence-up-to-ties for ORDER BY queries), OR it fails and
//!   `DataFusionError::find_root()` is `ResourcesExhausted`;
//! * never a panic, never a hang (wall-clock watchdog per run);
//! * after the stream is exhausted / the error returned and stream, plan and
//!   session are dropped (plus a bounded grace period for aborted tasks and
//!   in-flight blocking reads to be reaped): `pool.reserved() == 0`,
//!   `DiskManager::used_disk_space() == 0`, no active spill file, and no
//!   regular file left below the disk manager's temp directory.
use arrow::array::{ArrayRef, Int64Array, RecordBatch, StringArray, StringViewArray};
use arrow::datatypes::{DataType, Field, Schema, SchemaRef};
use chk_sql::sqlmc::engine::batches_to_result;
use chk_sql::sqlmc::value::{Row, Value};
use datafusion::catalog::MemTable;
use datafusion::common::{DataFusionError, JoinType};
use datafusion::execution::disk_manager::{DiskManagerBuilder, DiskManagerMode};
use datafusion::execution::memory_pool::{
    FairSpillPool, GreedyMemoryPool, MemoryConsumer, MemoryPool, MemoryReservation, UnboundedMemoryPool,
};
use datafusion::execution::runtime_env::RuntimeEnvBuilder;
use datafusion::physical_plan::joins::NestedLoopJoinExec;
use datafusion::physical_plan::{ExecutionPlan, execute_stream};
use datafusion::prelude::{SessionConfig, SessionContext};
use futures::StreamExt;
use mc_core::serde_json::{self, Value as Json, json};
use mc_core::{Ctx, Level, rayon::prelude::*, run_check};
use serde::{Deserialize, Serialize};
use std::collections::BTreeMap;
use std::sync::{Arc, OnceLock};
use std::time::{Duration, Instant};

// ------------------------------------------------------------------ demo switch

/// DETECTION-DEMO switch (oracle / harness side only; off unless the
/// environment variable `VERIF_DEMO_C18` is set):
/// * `success_only` — the oracle wrongly accepts only successful runs (a clean
///   `ResourcesExhausted` failure is then reported);
/// * `leak`         — the harness pool leaks: one extra byte charged on the
///   first successful `try_grow` of every run is never given back, so
///   `reserved() == 0` must be reported;
/// * `expect`       — the reference result of every query loses its last row
///   (every successful limited run must then be reported as a wrong result).
fn demo(which: &str) -> bool {
    static ON: OnceLock<String> = OnceLock::new();
    ON.get_or_init(|| std::env::var("VERIF_DEMO_C18").unwrap_or_default()) == which
}

// ------------------------------------------------------------------ dataset

fn mix(i: u64, salt: u64) -> u64 {
    // splitmix64 finaliser: fixed arithmetic, the dataset is a constant
    let mut z = i.wrapping_mul(0x9E37_79B9_7F4A_7C15).wrapping_add(salt.wrapping_mul(0xD1B5_4A32_D192_ED03));
    z = (z ^ (z >> 30)).wrapping_mul(0xBF58_476D_1CE4_E5B9);
    z = (z ^ (z >> 27)).wrapping_mul(0x94D0_49BB_1331_11EB);
    z ^ (z >> 31)
}

const T_ROWS: u64 = 2000;
const U_ROWS: u64 = 300;

struct TableData {
    schema: SchemaRef,
    partitions: Vec<Vec<RecordBatch>>,
}

struct Data {
    t: TableData,
    u: TableData,
}

fn text_of(i: u64, salt: u64) -> Option<String> {
    if mix(i, salt) % 100 < 10 {
        return None;
    }
    let c = mix(i, salt + 1) % 60;
    Some(format!("str-{c:03}-{}", "x".repeat(10 + (c % 20) as usize)))
}

fn layout(schema: &SchemaRef, cols: Vec<ArrayRef>, parts: usize, batch_rows: usize) -> Vec<Vec<RecordBatch>> {
    // row i goes to partition i % parts; each partition is cut into batches
    let whole = RecordBatch::try_new(Arc::clone(schema), cols).unwrap();
    let n = whole.num_rows();
    (0..parts)
        .map(|p| {
            let idx: Vec<u32> = (0..n as u32).filter(|i| (*i as usize) % parts == p).collect();
            idx.chunks(batch_rows)
                .map(|c| {
                    let ind = arrow::array::UInt32Array::from(c.to_vec());
                    let cols: Vec<ArrayRef> = whole.columns().iter().map(|a| arrow::compute::take(a, &ind, None).unwrap()).collect();
                    RecordBatch::try_new(Arc::clone(schema), cols).unwrap()
                })
                .collect()
        })
        .collect()
}

fn data() -> &'static Data {
    static D: OnceLock<Data> = OnceLock::new();
    D.get_or_init(|| {
        // t(id, k, g, s, v): k duplicate-heavy (half of the rows on 4 keys) with 15 % NULL,
        // g ≈ 700 groups with 5 % NULL, s ≈ 60 strings of 18..38 bytes with 10 % NULL
        let t_schema: SchemaRef = Arc::new(Schema::new(vec![
            Field::new("id", DataType::Int64, false),
            Field::new("k", DataType::Int64, true),
            Field::new("g", DataType::Int64, true),
            Field::new("s", DataType::Utf8View, true),
            Field::new("v", DataType::Int64, true),
        ]));
        let ids: Vec<i64> = (0..T_ROWS as i64).collect();
        let k: Vec<Option<i64>> = (0..T_ROWS)
            .map(|i| {
                if mix(i, 1) % 100 < 15 {
                    None
                } else {
                    let r = mix(i, 2) % 100;
                    Some(if r < 50 { (r % 4) as i64 } else { 4 + (mix(i, 3) % 36) as i64 })
                }
            })
            .collect();
        let g: Vec<Option<i64>> = (0..T_ROWS).map(|i| if mix(i, 4) % 100 < 5 { None } else { Some((mix(i, 5) % 700) as i64) }).collect();
        let s: Vec<Option<String>> = (0..T_ROWS).map(|i| text_of(i, 6)).collect();
        let v: Vec<Option<i64>> = (0..T_ROWS).map(|i| if mix(i, 8) % 100 < 7 { None } else { Some((mix(i, 9) % 2001) as i64 - 1000) }).collect();
        let t_cols: Vec<ArrayRef> = vec![
            Arc::new(Int64Array::from(ids)),
            Arc::new(Int64Array::from(k)),
            Arc::new(Int64Array::from(g)),
            Arc::new(StringViewArray::from_iter(s.iter().map(|x| x.as_deref()))),
            Arc::new(Int64Array::from(v)),
        ];
        // u(id, k, g, s, w): keys 40..43 / groups 700..799 have no partner in t, key 7 none in u
        let u_schema: SchemaRef = Arc::new(Schema::new(vec![
            Field::new("id", DataType::Int64, false),
            Field::new("k", DataType::Int64, true),
            Field::new("g", DataType::Int64, true),
            Field::new("s", DataType::Utf8, true),
            Field::new("w", DataType::Int64, true),
        ]));
        let uid: Vec<i64> = (0..U_ROWS as i64).map(|j| 10_000 + j).collect();
        let uk: Vec<Option<i64>> = (0..U_ROWS)
            .map(|j| {
                if mix(j, 11) % 100 < 10 {
                    None
                } else {
                    let x = (mix(j, 12) % 44) as i64;
                    Some(if x == 7 { 41 } else { x })
                }
            })
            .collect();
        let ug: Vec<Option<i64>> = (0..U_ROWS).map(|j| if mix(j, 13) % 100 < 5 { None } else { Some((mix(j, 14) % 800) as i64) }).collect();
        let us: Vec<Option<String>> = (0..U_ROWS).map(|j| text_of(j, 15)).collect();
        let uw: Vec<Option<i64>> = (0..U_ROWS).map(|j| if mix(j, 17) % 100 < 5 { None } else { Some((mix(j, 18) % 2001) as i64 - 1000) }).collect();
        let u_cols: Vec<ArrayRef> = vec![
            Arc::new(Int64Array::from(uid)),
            Arc::new(Int64Array::from(uk)),
            Arc::new(Int64Array::from(ug)),
            Arc::new(StringArray::from(us)),
            Arc::new(Int64Array::from(uw)),
        ];
        Data {
            t: TableData { partitions: layout(&t_schema, t_cols, 4, 125), schema: t_schema },
            u: TableData { partitions: layout(&u_schema, u_cols, 2, 50), schema: u_schema },
        }
    })
}

// ------------------------------------------------------------------ queries

#[derive(Clone, Debug)]
enum Cmp {
    /// no ORDER BY: multiset equality
    Multiset,
    /// ORDER BY a total order (unique tie-breaker): exact sequence
    Sequence,
    /// ORDER BY on these output columns only: key sequence equal, rows may
    /// permute inside runs of equal keys
    OrderedTies(Vec<usize>),
}

struct Query {
    name: &'static str,
    sql: &'static str,
    target_partitions: usize,
    prefer_hash_join: bool,
    cmp: Cmp,
}

fn q(name: &'static str, target_partitions: usize, prefer_hash_join: bool, cmp: Cmp, sql: &'static str) -> Query {
    Query { name, sql, target_partitions, prefer_hash_join, cmp }
}

fn queries() -> &'static Vec<Query> {
    static Q: OnceLock<Vec<Query>> = OnceLock::new();
    Q.get_or_init(|| {
        use Cmp::*;
        vec![
            // --- sort
            q("sort_multi_key", 1, true, Sequence, "SELECT id, k, s, v FROM t ORDER BY k, s, id"),
            q("sort_desc_nulls_first_p4", 4, true, Sequence, "SELECT id, g, v FROM t ORDER BY g DESC NULLS FIRST, v, id"),
            q("sort_ties_p2", 2, true, OrderedTies(vec![0]), "SELECT k, s FROM t ORDER BY k"),
            // --- sort + limit
            q("topk", 1, true, Sequence, "SELECT id, k, s FROM t ORDER BY s DESC, id LIMIT 100"),
            q("sort_big_limit_offset_p2", 2, true, Sequence, "SELECT id, v FROM t ORDER BY v, id LIMIT 1500 OFFSET 200"),
            // --- grouping
            q("group_many", 1, true, Multiset, "SELECT g, count(*) AS c, sum(v) AS sv, min(s) AS mn, max(s) AS mx FROM t GROUP BY g"),
            q("group_two_keys_p4", 4, true, Multiset, "SELECT k, s, count(*) AS c, sum(v) AS sv, min(id) AS lo, max(id) AS hi FROM t GROUP BY k, s"),
            q("group_then_sort_p2", 2, true, Sequence, "SELECT g, count(*) AS c, sum(v) AS sv FROM t GROUP BY g ORDER BY g"),
            q("group_expr_text_p3", 3, true, Multiset, "SELECT id % 977 AS m, s, count(*) AS c, sum(v) AS sv FROM t GROUP BY id % 977, s"),
            // --- distinct
            q("distinct_dup_heavy", 1, true, Multiset, "SELECT DISTINCT k, s FROM t"),
            q("distinct_many_p4", 4, true, Multiset, "SELECT DISTINCT g, v FROM t"),
            q("count_distinct_p2", 2, true, Multiset, "SELECT k, count(DISTINCT g) AS dg, count(DISTINCT s) AS ds FROM t GROUP BY k"),
            // --- hash joins
            q("hash_inner", 1, true, Multiset, "SELECT t.id, u.id AS uid, t.s, u.w FROM t JOIN u ON t.g = u.g"),
            q("hash_inner_two_keys_p4", 4, true, Multiset, "SELECT t.id, u.id AS uid, t.v + u.w AS x FROM t JOIN u ON t.g = u.g AND t.k = u.k"),
            q("hash_left_dup_heavy_agg_p2", 2, true, Multiset, "SELECT t.k, count(*) AS c, sum(u.w) AS sw FROM t LEFT JOIN u ON t.k = u.k GROUP BY t.k"),
            q("hash_full", 1, true, Multiset, "SELECT t.id, u.id AS uid FROM t FULL JOIN u ON t.g = u.g"),
            // --- sort-merge joins
            q("smj_inner", 1, false, Multiset, "SELECT t.id, u.id AS uid, t.s FROM t JOIN u ON t.g = u.g"),
            q("smj_left_dup_heavy_p2", 2, false, Multiset, "SELECT t.id, u.id AS uid FROM t LEFT JOIN u ON t.k = u.k"),
            q("smj_full_filter", 1, false, Multiset, "SELECT t.id, u.id AS uid FROM t FULL JOIN u ON t.g = u.g AND t.v < u.w"),
            q("smj_semi_p2", 2, false, Multiset, "SELECT id, s FROM t WHERE EXISTS (SELECT 1 FROM u WHERE u.g = t.g)"),
            q("smj_anti", 1, false, Multiset, "SELECT id, s FROM t WHERE NOT EXISTS (SELECT 1 FROM u WHERE u.k = t.k)"),
            // --- nested-loop joins
            q("nlj_inner", 1, true, Multiset, "SELECT t.id, u.id AS uid FROM t JOIN u ON t.v + u.w = 7"),
            q("nlj_left_p2", 2, true, Multiset, "SELECT t.id, u.id AS uid FROM t LEFT JOIN u ON t.v + u.w = 7"),
            q("nlj_full", 1, true, Multiset, "SELECT t.id, u.id AS uid FROM t FULL JOIN u ON t.v + u.w = 7"),
            // --- windows
            q("window_partitioned", 1, true, Multiset,
              "SELECT id, k, row_number() OVER (PARTITION BY k ORDER BY id) AS rn, sum(v) OVER (PARTITION BY k ORDER BY id ROWS BETWEEN 3 PRECEDING AND CURRENT ROW) AS sv FROM t"),
            q("window_rank_lag_p4", 4, true, Multiset,
              "SELECT id, g, rank() OVER (PARTITION BY g ORDER BY v, id) AS r, lag(s) OVER (PARTITION BY g ORDER BY v, id) AS ls FROM t"),
            q("window_running_sum", 1, true, Multiset, "SELECT id, sum(v) OVER (ORDER BY id ROWS BETWEEN UNBOUNDED PRECEDING AND CURRENT ROW) AS rs FROM t"),
            // --- repartition-heavy pipelines
            q("union_group_sort_p4", 4, true, Sequence,
              "SELECT k, count(*) AS c FROM (SELECT k FROM t UNION ALL SELECT k FROM u UNION ALL SELECT g AS k FROM t) AS x GROUP BY k ORDER BY k"),
            q("join_group_sort_p3", 3, true, Sequence,
              "SELECT t.s, count(*) AS c, sum(u.w) AS sw FROM t JOIN u ON t.g = u.g GROUP BY t.s ORDER BY c DESC, t.s"),
        ]
    })
}

fn query_by_name(name: &str) -> Option<&'static Query> {
    queries().iter().find(|q| q.name == name)
}

// ------------------------------------------------------------------ configuration space

#[derive(Serialize, Deserialize, Clone, Copy, Debug, Hash, PartialEq, Eq)]
enum Pool {
    Greedy,
    Fair,
}

#[derive(Serialize, Deserialize, Clone, Copy, Debug, Hash, PartialEq, Eq)]
enum Compression {
    Uncompressed,
    Lz4Frame,
    Zstd,
}

#[derive(Serialize, Deserialize, Clone, Debug, Hash, PartialEq, Eq)]
struct Case {
    query: String,
    /// memory limit in bytes; None = unlimited (UnboundedMemoryPool)
    limit: Option<usize>,
    pool: Pool,
    compression: Compression,
    /// datafusion.execution.max_spill_file_size_bytes; None = default
    max_spill_file_size: Option<usize>,
    /// DiskManager max_spill_merge_fan_in; 0 = default (unbounded)
    merge_fan_in: usize,
    #[serde(default)]
    sql: String,
}

const KIB: usize = 1024;
/// 1 KiB … 64 MiB: ×4 steps at both ends, ×2 steps between 16 KiB and 1 MiB
/// (where the working sets of the queries over this dataset lie).
const LIMITS: [usize; 12] =
    [KIB, 4 * KIB, 16 * KIB, 32 * KIB, 64 * KIB, 128 * KIB, 256 * KIB, 512 * KIB, 1024 * KIB, 4096 * KIB, 16384 * KIB, 65536 * KIB];
const BASE_LIMIT: usize = 64 * KIB;
/// Quick tier: the limits at which the other four dimensions are deviated (one
/// at a time). Chosen so that most queries of the list spill *and* finish at
/// one of them (see the per-query `equal_after_spilling` counters in evidence).
const QUICK_BASE_LIMITS: [usize; 4] = [1024 * KIB, 128 * KIB, 64 * KIB, 4 * KIB];
const POOLS: [Pool; 2] = [Pool::Greedy, Pool::Fair];
const COMPRESSIONS: [Compression; 3] = [Compression::Uncompressed, Compression::Lz4Frame, Compression::Zstd];
const FILE_SIZES: [Option<usize>; 3] = [None, Some(1), Some(4 * KIB)];
const FAN_INS: [usize; 2] = [0, 2];

/// Fixed part of the session configuration (identical in the reference run).
const BATCH_SIZE: usize = 64;
const SORT_SPILL_RESERVATION: usize = 2 * KIB;

fn base_case(q: &Query) -> Case {
    Case {
        query: q.name.to_string(),
        limit: Some(BASE_LIMIT),
        pool: Pool::Greedy,
        compression: Compression::Uncompressed,
        max_spill_file_size: None,
        merge_fan_in: 0,
        sql: q.sql.to_string(),
    }
}

fn limit_points() -> Vec<Option<usize>> {
    let mut v: Vec<Option<usize>> = vec![None];
    v.extend(LIMITS.iter().rev().map(|l| Some(*l))); // ample first, tiny last
    v
}

fn cases(quick: bool) -> Vec<Case> {
    let mut out = vec![];
    for q in queries() {
        let base = base_case(q);
        if quick {
            // every memory limit at the base configuration, plus single deviations of
            // the other four dimensions at the base limits QUICK_BASE_LIMITS
            for l in limit_points() {
                let at = Case { limit: l, ..base.clone() };
                out.push(at.clone());
                if !l.map(|l| QUICK_BASE_LIMITS.contains(&l)).unwrap_or(false) {
                    continue;
                }
                out.push(Case { pool: Pool::Fair, ..at.clone() });
                for c in &COMPRESSIONS[1..] {
                    out.push(Case { compression: *c, ..at.clone() });
                }
                for f in &FILE_SIZES[1..] {
                    out.push(Case { max_spill_file_size: *f, ..at.clone() });
                }
                out.push(Case { merge_fan_in: 2, ..at.clone() });
            }
        } else {
            for l in limit_points() {
                for p in POOLS {
                    if l.is_none() && p != Pool::Greedy {
                        continue; // the pool policy is meaningless without a limit
                    }
                    for c in COMPRESSIONS {
                        for f in FILE_SIZES {
                            for m in FAN_INS {
                                out.push(Case { limit: l, pool: p, compression: c, max_spill_file_size: f, merge_fan_in: m, ..base.clone() });
                            }
                        }
                    }
                }
            }
        }
    }
    out
}

// ------------------------------------------------------------------ one run

/// Harness pool for the `leak` detection demo: forwards to the real pool but
/// charges one extra byte on the first successful `try_grow` of the run and
/// never gives it back.
#[derive(Debug)]
struct LeakyPool {
    inner: Arc<dyn MemoryPool>,
    leaked: std::sync::atomic::AtomicBool,
}

impl std::fmt::Display for LeakyPool {
    fn fmt(&self, f: &mut std::fmt::Formatter<'_>) -> std::fmt::Result {
        write!(f, "LeakyPool({})", self.inner)
    }
}

impl MemoryPool for LeakyPool {
    fn name(&self) -> &str {
        "LeakyPool"
    }
    fn grow(&self, r: &MemoryReservation, additional: usize) {
        self.inner.grow(r, additional)
    }
    fn shrink(&self, r: &MemoryReservation, shrink: usize) {
        self.inner.shrink(r, shrink)
    }
    fn try_grow(&self, r: &MemoryReservation, additional: usize) -> datafusion::common::Result<()> {
        self.inner.try_grow(r, additional)?;
        if !self.leaked.swap(true, std::sync::atomic::Ordering::SeqCst) {
            self.inner.grow(r, 1); // never shrunk: the reservation does not know about it
        }
        Ok(())
    }
    fn reserved(&self) -> usize {
        self.inner.reserved()
    }
    fn register(&self, c: &MemoryConsumer) {
        self.inner.register(c)
    }
    fn unregister(&self, c: &MemoryConsumer) {
        self.inner.unregister(c)
    }
    fn memory_limit(&self) -> datafusion::execution::memory_pool::MemoryLimit {
        self.inner.memory_limit()
    }
}

#[derive(Debug, Clone)]
enum Outcome {
    Rows(Vec<Row>),
    /// (root is ResourcesExhausted, root variant + message)
    Failed(bool, String),
}

#[derive(Debug, Clone)]
struct Report {
    outcome: Outcome,
    spills: u64,
    spills_by_op: BTreeMap<String, u64>,
    /// plan contains a NestedLoopJoinExec whose join type emits unmatched / right-driven rows
    nlj_right_emitting_with_spill: bool,
    /// Some(description) if something was still held after everything was dropped
    leak: Option<String>,
    /// polling rounds needed until nothing was held (0 = released synchronously)
    grace_rounds: u32,
    plan: String,
}

fn session_config(q: &Query, c: &Case) -> SessionConfig {
    let mut cfg = SessionConfig::new()
        .with_target_partitions(q.target_partitions)
        .with_batch_size(BATCH_SIZE)
        .with_sort_spill_reservation_bytes(SORT_SPILL_RESERVATION)
        .with_sort_in_place_threshold_bytes(0)
        .set_bool("datafusion.optimizer.prefer_hash_join", q.prefer_hash_join)
        .set_str(
            "datafusion.execution.spill_compression",
            match c.compression {
                Compression::Uncompressed => "uncompressed",
                Compression::Lz4Frame => "lz4_frame",
                Compression::Zstd => "zstd",
            },
        );
    if let Some(n) = c.max_spill_file_size {
        cfg = cfg.set_usize("datafusion.execution.max_spill_file_size_bytes", n);
    }
    cfg
}

fn walk_metrics(p: &Arc<dyn ExecutionPlan>, total: &mut u64, by_op: &mut BTreeMap<String, u64>, nlj_flag: &mut bool) {
    let n = p.metrics().and_then(|m| m.spill_count()).unwrap_or(0) as u64;
    if n > 0 {
        *total += n;
        *by_op.entry(p.name().to_string()).or_insert(0) += n;
    }
    if let Some(j) = p.downcast_ref::<NestedLoopJoinExec>() {
        if n > 0
            && matches!(
                j.join_type(),
                JoinType::Right | JoinType::Full | JoinType::RightSemi | JoinType::RightAnti | JoinType::RightMark
            )
        {
            *nlj_flag = true;
        }
    }
    for c in p.children() {
        walk_metrics(c, total, by_op, nlj_flag);
    }
}

fn count_files(dir: &std::path::Path) -> usize {
    let mut n = 0;
    if let Ok(rd) = std::fs::read_dir(dir) {
        for e in rd.flatten() {
            let p = e.path();
            if p.is_dir() {
                n += count_files(&p);
            } else {
                n += 1;
            }
        }
    }
    n
}

const GRACE: Duration = Duration::from_secs(10);

/// Err = machinery error (harness could not even set the run up).
async fn run_async(q: &Query, c: &Case, check_release: bool) -> Result<Report, String> {
    let tmp = tempfile::tempdir().map_err(|e| format!("tempdir: {e}"))?;
    let real_pool: Arc<dyn MemoryPool> = match (c.limit, c.pool) {
        (None, _) => Arc::new(UnboundedMemoryPool::default()),
        (Some(l), Pool::Greedy) => Arc::new(GreedyMemoryPool::new(l)),
        (Some(l), Pool::Fair) => Arc::new(FairSpillPool::new(l)),
    };
    let pool: Arc<dyn MemoryPool> = if demo("leak") { Arc::new(LeakyPool { inner: real_pool, leaked: Default::default() }) } else { real_pool };
    let dm = DiskManagerBuilder::default()
        .with_mode(DiskManagerMode::Directories(vec![tmp.path().to_path_buf()]))
        .with_max_spill_merge_fan_in(c.merge_fan_in);
    let rt = RuntimeEnvBuilder::new()
        .with_memory_pool(Arc::clone(&pool))
        .with_disk_manager_builder(dm)
        .build_arc()
        .map_err(|e| format!("RuntimeEnv: {e}"))?;
    let ctx = SessionContext::new_with_config_rt(session_config(q, c), Arc::clone(&rt));
    let d = data();
    for (name, td) in [("t", &d.t), ("u", &d.u)] {
        let mt = MemTable::try_new(Arc::clone(&td.schema), td.partitions.clone()).map_err(|e| format!("MemTable {name}: {e}"))?;
        ctx.register_table(name, Arc::new(mt)).map_err(|e| format!("register {name}: {e}"))?;
    }
    let df = ctx.sql(q.sql).await.map_err(|e| format!("logical planning of {}: {e}", q.name))?;
    let plan = df.create_physical_plan().await.map_err(|e| format!("physical planning of {}: {e}", q.name))?;
    let plan_text = datafusion::physical_plan::displayable(plan.as_ref()).indent(false).to_string();
    let schema = plan.schema();

    let describe = |e: &DataFusionError| -> (bool, String) {
        let root = e.find_root();
        let is_re = matches!(root, DataFusionError::ResourcesExhausted(_));
        let msg: String = format!("{root}").chars().take(300).collect();
        (is_re, msg)
    };
    let outcome = match execute_stream(Arc::clone(&plan), ctx.task_ctx()) {
        Err(e) => {
            let (re, m) = describe(&e);
            Outcome::Failed(re, m)
        }
        Ok(mut stream) => {
            let mut batches = vec![];
            let mut failed = None;
            while let Some(item) = stream.next().await {
                match item {
                    Ok(b) => batches.push(b),
                    Err(e) => {
                        failed = Some(describe(&e));
                        break;
                    }
                }
            }
            drop(stream);
            match failed {
                Some((re, m)) => Outcome::Failed(re, m),
                None => Outcome::Rows(batches_to_result(schema.as_ref(), &batches).rows),
            }
        }
    };
    let (mut spills, mut by_op, mut nlj) = (0u64, BTreeMap::new(), false);
    walk_metrics(&plan, &mut spills, &mut by_op, &mut nlj);
    drop(plan);
    drop(ctx);

    // everything is dropped; give aborted tasks / in-flight blocking reads a
    // bounded grace period to be reaped, then demand that nothing is held
    // (the disk manager's own directories, `temp_dir_paths()`, live below `tmp`)
    let held = |rt: &datafusion::execution::runtime_env::RuntimeEnv| -> Option<String> {
        let reserved = pool.reserved();
        let disk = rt.disk_manager.used_disk_space();
        let active = rt.disk_manager.spilling_progress().active_files_count;
        let files: usize = count_files(tmp.path());
        if reserved == 0 && disk == 0 && active == 0 && files == 0 {
            None
        } else {
            Some(format!(
                "pool.reserved() = {reserved}, used_disk_space() = {disk}, active spill files = {active}, files left in temp dir = {files}"
            ))
        }
    };
    let start = Instant::now();
    let mut rounds = 0u32;
    let leak = loop {
        if !check_release {
            break None;
        }
        match held(rt.as_ref()) {
            None => break None,
            Some(h) => {
                if start.elapsed() > GRACE {
                    break Some(h);
                }
                rounds += 1;
                if rounds <= 64 {
                    tokio::task::yield_now().await;
                } else {
                    tokio::time::sleep(Duration::from_millis(2)).await;
                }
            }
        }
    };
    drop(rt);
    drop(tmp);
    Ok(Report { outcome, spills, spills_by_op: by_op, nlj_right_emitting_with_spill: nlj, leak, grace_rounds: rounds, plan: plan_text })
}

fn watchdog() -> Duration {
    Duration::from_secs(std::env::var("VERIF_C18_WATCHDOG_S").ok().and_then(|s| s.parse().ok()).unwrap_or(90))
}

enum Ran {
    Done(Report),
    Panic(String),
    Hang(String),
    Machinery(String),
}

/// One run on its own OS thread and its own current-thread runtime, under a
/// wall-clock watchdog.
fn run_guarded(q: &'static Query, c: &Case, check_release: bool) -> Ran {
    let (tx, rx) = std::sync::mpsc::channel();
    let c2 = c.clone();
    let limit = watchdog();
    let spawned = std::thread::Builder::new().name(format!("c18-{}", q.name)).spawn(move || {
        let r = mc_core::catch(|| {
            let rt = tokio::runtime::Builder::new_current_thread().enable_all().build().expect("tokio runtime");
            let r = rt.block_on(async { tokio::time::timeout(limit, run_async(q, &c2, check_release)).await });
            drop(rt);
            r
        });
        let _ = tx.send(r);
    });
    if let Err(e) = spawned {
        return Ran::Machinery(format!("cannot spawn thread: {e}"));
    }
    match rx.recv_timeout(limit + Duration::from_secs(30)) {
        Ok(Ok(Ok(Ok(rep)))) => Ran::Done(rep),
        Ok(Ok(Ok(Err(m)))) => Ran::Machinery(m),
        Ok(Ok(Err(_elapsed))) => Ran::Hang(format!("no result after {} s (all futures pending: the query neither finished nor failed)", limit.as_secs())),
        Ok(Err(p)) => Ran::Panic(p),
        Err(_) => Ran::Hang(format!("no result after {} s and the run does not yield to the runtime (thread abandoned)", limit.as_secs() + 30)),
    }
}

// ------------------------------------------------------------------ oracle

fn reference(q: &'static Query) -> Result<Arc<Vec<Row>>, String> {
    static CACHE: OnceLock<parking_lot::Mutex<BTreeMap<String, Arc<Vec<Row>>>>> = OnceLock::new();
    let cache = CACHE.get_or_init(Default::default);
    if let Some(r) = cache.lock().get(q.name) {
        return Ok(Arc::clone(r));
    }
    let c = Case { limit: None, ..base_case(q) };
    let rows = match run_guarded(q, &c, false) {
        Ran::Done(Report { outcome: Outcome::Rows(r), .. }) => r,
        Ran::Done(Report { outcome: Outcome::Failed(_, m), .. }) => return Err(format!("unlimited run of {} failed: {m}", q.name)),
        Ran::Panic(p) => return Err(format!("unlimited run of {} panicked: {p}", q.name)),
        Ran::Hang(h) => return Err(format!("unlimited run of {}: {h}", q.name)),
        Ran::Machinery(m) => return Err(m),
    };
    let mut rows = rows;
    if demo("expect") {
        rows.pop();
    }
    let r = Arc::new(rows);
    cache.lock().insert(q.name.to_string(), Arc::clone(&r));
    Ok(r)
}

fn show(rows: &[&Row]) -> String {
    let v: Vec<String> = rows.iter().take(4).map(|r| serde_json::to_string(r).unwrap_or_default()).collect();
    format!("{}{}", v.join(" "), if rows.len() > 4 { " …" } else { "" })
}

/// (missing from got, unexpected in got) as multisets
fn bag_diff<'a>(expected: &'a [Row], got: &'a [Row]) -> (Vec<&'a Row>, Vec<&'a Row>) {
    let mut m: BTreeMap<&Row, i64> = BTreeMap::new();
    for r in expected {
        *m.entry(r).or_insert(0) += 1;
    }
    for r in got {
        *m.entry(r).or_insert(0) -= 1;
    }
    let mut missing = vec![];
    let mut extra = vec![];
    for (r, n) in m {
        for _ in 0..n.max(0) {
            missing.push(r);
        }
        for _ in 0..(-n).max(0) {
            extra.push(r);
        }
    }
    (missing, extra)
}

/// Err((what, only_missing_rows))
fn compare(cmp: &Cmp, expected: &[Row], got: &[Row]) -> Result<(), (String, bool)> {
    let (missing, extra) = bag_diff(expected, got);
    if !missing.is_empty() || !extra.is_empty() {
        return Err((
            format!(
                "wrong result: {} rows, the unlimited run has {}; {} rows missing [{}], {} unexpected rows [{}]",
                got.len(),
                expected.len(),
                missing.len(),
                show(&missing),
                extra.len(),
                show(&extra)
            ),
            extra.is_empty(),
        ));
    }
    match cmp {
        Cmp::Multiset => Ok(()),
        Cmp::Sequence => match (0..got.len()).find(|i| got[*i] != expected[*i]) {
            None => Ok(()),
            Some(i) => Err((
                format!(
                    "wrong order: same multiset but row {i} is {} where the unlimited run has {} (ORDER BY is total)",
                    serde_json::to_string(&got[i]).unwrap_or_default(),
                    serde_json::to_string(&expected[i]).unwrap_or_default()
                ),
                false,
            )),
        },
        Cmp::OrderedTies(keys) => {
            let key = |r: &Row| -> Vec<Value> { keys.iter().map(|k| r[*k].clone()).collect() };
            if let Some(i) = (0..got.len()).find(|i| key(&got[*i]) != key(&expected[*i])) {
                return Err((format!("wrong order: sort key of row {i} is {:?}, the unlimited run has {:?}", key(&got[i]), key(&expected[i])), false));
            }
            // equal key sequences + equal multisets: compare run by run
            let mut p = 0;
            while p < got.len() {
                let mut e = p + 1;
                while e < got.len() && key(&got[e]) == key(&got[p]) {
                    e += 1;
                }
                let (m, x) = bag_diff(&expected[p..e], &got[p..e]);
                if !m.is_empty() || !x.is_empty() {
                    return Err((format!("rows with sort key {:?} differ from the unlimited run: missing [{}], unexpected [{}]", key(&got[p]), show(&m), show(&x)), false));
                }
                p = e;
            }
            Ok(())
        }
    }
}

const KNOWN_NLJ_KEY: &str = "known:NestedLoopJoin memory-limited fallback drops unmatched right rows (RIGHT/FULL/right semi/anti/mark)";

struct Verdict {
    /// (key, what) per violated clause
    violations: Vec<(String, String)>,
    spills: u64,
    by_op: BTreeMap<String, u64>,
    /// "equal" | "resources_exhausted" | other
    class: &'static str,
    plan: String,
    rows: usize,
    grace_rounds: u32,
    failure: String,
}

fn case_key(c: &Case) -> String {
    format!(
        "{}|limit={}|{:?}|{:?}|file={}|fanin={}",
        c.query,
        c.limit.map(|l| l.to_string()).unwrap_or("unlimited".into()),
        c.pool,
        c.compression,
        c.max_spill_file_size.map(|l| l.to_string()).unwrap_or("default".into()),
        c.merge_fan_in
    )
}

/// Err = machinery error.
fn judge(c: &Case) -> Result<Verdict, String> {
    let q = query_by_name(&c.query).ok_or_else(|| format!("unknown query {}", c.query))?;
    let expected = reference(q)?;
    let mut v = Verdict { violations: vec![], spills: 0, by_op: BTreeMap::new(), class: "violation", plan: String::new(), rows: 0, grace_rounds: 0, failure: String::new() };
    let key = case_key(c);
    match run_guarded(q, c, true) {
        Ran::Machinery(m) => return Err(m),
        Ran::Panic(p) => v.violations.push((format!("panic|{key}"), format!("the query panicked: {p}"))),
        Ran::Hang(h) => v.violations.push((format!("hang|{key}"), format!("the query hangs: {h}"))),
        Ran::Done(rep) => {
            v.spills = rep.spills;
            v.by_op = rep.spills_by_op.clone();
            v.plan = rep.plan.clone();
            v.grace_rounds = rep.grace_rounds;
            if let Outcome::Failed(_, m) = &rep.outcome {
                v.failure = m.clone();
            }
            match &rep.outcome {
                Outcome::Rows(rows) => {
                    v.rows = rows.len();
                    match compare(&q.cmp, &expected, rows) {
                        Ok(()) => v.class = "equal",
                        Err((what, only_missing)) => {
                            if rep.nlj_right_emitting_with_spill && only_missing {
                                v.violations.push((KNOWN_NLJ_KEY.to_string(), format!("[{key}] {what}")));
                            } else {
                                v.violations.push((format!("wrong-result|{key}"), what));
                            }
                        }
                    }
                }
                Outcome::Failed(true, _) => {
                    if demo("success_only") {
                        v.violations.push((format!("demo-success-only|{key}"), "DEMO oracle: run failed (ResourcesExhausted) but only success is accepted".into()));
                    } else {
                        v.class = "resources_exhausted";
                    }
                }
                Outcome::Failed(false, m) => {
                    v.violations.push((format!("unclean-failure|{key}"), format!("the query failed and the root cause is not ResourcesExhausted: {m}")));
                }
            }
            if let Some(l) = &rep.leak {
                v.violations.push((format!("leak|{key}"), format!("after the stream, the plan and the session were dropped (and {} s grace): {l}", GRACE.as_secs())));
            }
        }
    }
    Ok(v)
}

// ------------------------------------------------------------------ explore / replay

fn limit_label(l: Option<usize>) -> String {
    match l {
        None => "unlimited".into(),
        Some(l) if l >= 1024 * KIB => format!("{:05}MiB", l / (1024 * KIB)),
        Some(l) => format!("{:05}KiB", l / KIB),
    }
}

fn explore(ctx: &Ctx) {
    let all = cases(ctx.quick());
    ctx.set_extra(
        "bounds",
        json!({
            "queries": queries().iter().map(|q| json!({"name": q.name, "sql": q.sql, "target_partitions": q.target_partitions, "prefer_hash_join": q.prefer_hash_join})).collect::<Vec<_>>(),
            "dataset": {"t_rows": T_ROWS, "t_partitions": 4, "t_batch_rows": 125, "u_rows": U_ROWS, "u_partitions": 2, "u_batch_rows": 50,
                        "keys": "k: 40 values, half of the rows on 4 of them, 15 % NULL; g: 700 values, 5 % NULL; s: 60 strings of 18..38 bytes, 10 % NULL"},
            "memory_limits_bytes": LIMITS, "plus": "unlimited",
            "pools": ["GreedyMemoryPool", "FairSpillPool"],
            "spill_compression": ["uncompressed", "lz4_frame", "zstd"],
            "max_spill_file_size_bytes": ["default", 1, 4096],
            "max_spill_merge_fan_in": [0, 2],
            "product": if ctx.quick() { "every memory limit at {greedy, uncompressed, default, 0} + single deviations of the other four dimensions at the limits {1 MiB, 128 KiB, 64 KiB, 4 KiB}" } else { "full cross product" },
            "fixed_session_config": {"batch_size": BATCH_SIZE, "sort_spill_reservation_bytes": SORT_SPILL_RESERVATION, "sort_in_place_threshold_bytes": 0},
            "watchdog_s": watchdog().as_secs(), "release_grace_s": GRACE.as_secs(),
        }),
    );
    ctx.assume("the unlimited run (UnboundedMemoryPool, same session configuration) is the reference: the property is relative to it");
    ctx.assume("release is checked after stream, plan and session are dropped, polling for at most the grace period so that aborted tasks and in-flight blocking spill reads are reaped");
    if let Ok(d) = std::env::var("VERIF_DEMO_C18") {
        ctx.set_extra("DETECTION_DEMO", json!(d));
    }
    // references first (sequentially cheap, in parallel)
    let bad_ref: Vec<String> = queries().par_iter().filter_map(|q| reference(q).err()).collect();
    if let Some(e) = bad_ref.first() {
        ctx.machinery_error(format!("reference run failed: {e}"));
        return;
    }
    let leaks = std::sync::atomic::AtomicUsize::new(0);
    all.par_iter().for_each(|c| {
        if ctx.should_stop() {
            return;
        }
        if leaks.load(std::sync::atomic::Ordering::Relaxed) >= 6 {
            // every leaking run costs the whole grace period (and two replays)
            ctx.mark_capped("stopped after 6 runs that did not release everything");
            return;
        }
        ctx.eval();
        match judge(c) {
            Err(m) => ctx.machinery_error(m),
            Ok(v) => {
                let bucket = match v.spills {
                    0 => "0",
                    1 => "1",
                    _ => "2+",
                };
                ctx.count(&format!("runs_spilled_{bucket}"), 1);
                ctx.count(&format!("limit_{}.spilled_{bucket}", limit_label(c.limit)), 1);
                ctx.count(&format!("limit_{}.{}", limit_label(c.limit), v.class), 1);
                ctx.count(&format!("outcome.{}", v.class), 1);
                if v.class == "equal" && v.spills > 0 {
                    ctx.count("outcome.equal_after_spilling", 1);
                    ctx.count(&format!("query_{}.equal_after_spilling", c.query), 1);
                }
                for (op, n) in &v.by_op {
                    ctx.count(&format!("spills_by_operator.{op}"), *n);
                }
                if v.grace_rounds > 0 {
                    ctx.count("release_needed_polling_after_drop", 1);
                }
                if c.limit.is_some() && (v.spills > 0 || v.class == "resources_exhausted") {
                    ctx.nontrivial(&case_key(c));
                    if v.class == "equal" && v.spills >= 2 && ctx.want_sample() {
                        ctx.sample(json!({"case": c, "outcome": "equal to the unlimited run", "rows": v.rows, "spill_count": v.spills, "spills_by_operator": v.by_op, "plan": v.plan}));
                    }
                }
                for (key, what) in v.violations {
                    if key.starts_with("leak|") {
                        leaks.fetch_add(1, std::sync::atomic::Ordering::Relaxed);
                    }
                    ctx.violation(key, what, serde_json::to_value(c).unwrap());
                }
            }
        }
    });
}

fn replay(v: &Json) -> Result<(), String> {
    let c: Case = serde_json::from_value(v.clone()).map_err(|e| format!("bad case: {e}"))?;
    let verdict = judge(&c).map_err(|m| format!("machinery: {m}"))?;
    match verdict.violations.first() {
        None => Ok(()),
        Some(_) => Err(verdict.violations.iter().map(|(_, w)| w.clone()).collect::<Vec<_>>().join("; ")),
    }
}

/// `c18 --probe [query]`: print, per query and limit at the base point, the
/// outcome and the spill count (tuning / debugging aid; not a verdict).
fn debug_main(args: &[String]) -> bool {
    if args.first().map(|s| s.as_str()) != Some("--probe") {
        return false;
    }
    for q in queries() {
        if let Some(name) = args.get(1) {
            if !q.name.contains(name.as_str()) {
                continue;
            }
        }
        println!("== {} (tp={}, prefer_hash_join={})", q.name, q.target_partitions, q.prefer_hash_join);
        let mut shown = false;
        for l in limit_points() {
            let c = Case { limit: l, ..base_case(q) };
            let t0 = Instant::now();
            match judge(&c) {
                Err(m) => println!("  {:>10}: MACHINERY {m}", limit_label(l)),
                Ok(v) => {
                    if !shown && args.get(1).is_some() {
                        println!("{}", v.plan);
                        shown = true;
                    }
                    println!(
                        "  {:>10}: {:<20} rows={:<6} spills={:<4} {:?} {:.0} ms grace_rounds={} {} {}",
                        limit_label(l),
                        v.class,
                        v.rows,
                        v.spills,
                        v.by_op,
                        t0.elapsed().as_secs_f64() * 1e3,
                        v.grace_rounds,
                        v.failure.chars().take(160).collect::<String>(),
                        v.violations.iter().map(|(k, w)| format!("\n      VIOLATION {k}: {w}")).collect::<String>()
                    );
                }
            }
        }
    }
    true
}

fn main() {
    mc_core::quiet_panics();
    if debug_main(&mc_core::extra_args()) {
        return;
    }
    run_check(
        "C18",
        Level::Exploration,
        "every (query of the fixed list, memory limit of the grid or unlimited, pool policy, spill compression, max spill file size, merge fan-in) in the tier's product (quick: every memory limit at the base configuration + single deviations of the other four dimensions at four base limits; thorough: full cross product), \
         each run on the real engine and compared with the unlimited run of the same query; non-trivial = a run under a finite limit that spilled at least once (metric spill_count) or ended in ResourcesExhausted, i.e. the limit was felt",
        explore,
        replay,
    );
}
