//! `HStore`: the in-memory `ObjectStore` of the C40 query-level check.
//!
//! * `last_modified` of an object is `EPOCH + mtime` where `mtime` is a logical
//!   counter handed in by the harness with every write (the stock `InMemory`
//!   store stamps wall-clock time, which would make "same mtime" a race);
//! * every LIST / GET / HEAD issued by the engine is logged and handed to the
//!   harness by `take_calls`, so the check sees when a cache answered instead of
//!   the store;
//! * range semantics follow `object_store::GetRange::as_range` (start beyond the
//!   object is an error, the end is clamped).
//! The engine only reads; the harness mutates through `put` / `delete`.
use async_trait::async_trait;
use bytes::Bytes;
use futures::StreamExt;
use futures::stream::BoxStream;
use object_store::path::Path;
use object_store::{
    Attributes, CopyOptions, Error, GetOptions, GetRange, GetResult, GetResultPayload, ListResult, MultipartUpload, ObjectMeta,
    ObjectStore, PutMultipartOptions, PutOptions, PutPayload, PutResult, Result,
};
use std::collections::BTreeMap;
use std::fmt;
use std::sync::Mutex;

/// `last_modified` = EPOCH + logical mtime (seconds).
pub const EPOCH: i64 = 1_700_000_000;

#[derive(Clone, Debug)]
struct Obj {
    content: u8,
    bytes: Bytes,
    mtime: i64,
}

#[derive(Clone, Debug)]
pub struct ListCall {
    #[allow(dead_code)]
    pub at: u64,
    /// (path, content id, logical mtime) of every object the call returned
    #[allow(dead_code)]
    pub files: Vec<(String, u8, i64)>,
}

#[derive(Default, Debug)]
pub struct Calls {
    pub lists: Vec<ListCall>,
    /// path of every GET (with a body) in call order
    pub gets: Vec<String>,
    /// path of every HEAD (and `GetOptions::head`)
    pub heads: Vec<String>,
}

#[derive(Default, Debug)]
struct Inner {
    files: BTreeMap<String, Obj>,
    now: u64,
    calls: Calls,
}

#[derive(Debug, Default)]
pub struct HStore {
    inner: Mutex<Inner>,
}

impl HStore {
    pub fn new() -> Self {
        HStore::default()
    }
    pub fn put(&self, path: &str, content: u8, bytes: Bytes, mtime: i64) {
        self.inner.lock().unwrap().files.insert(path.to_string(), Obj { content, bytes, mtime });
    }
    pub fn delete(&self, path: &str) {
        self.inner.lock().unwrap().files.remove(path);
    }
    pub fn mtime_of(&self, path: &str) -> Option<i64> {
        self.inner.lock().unwrap().files.get(path).map(|o| o.mtime)
    }
    pub fn set_now(&self, now: u64) {
        self.inner.lock().unwrap().now = now;
    }
    pub fn take_calls(&self) -> Calls {
        std::mem::take(&mut self.inner.lock().unwrap().calls)
    }
}

fn meta(path: &str, o: &Obj) -> ObjectMeta {
    ObjectMeta {
        location: Path::from(path),
        last_modified: chrono::DateTime::<chrono::Utc>::from_timestamp(EPOCH + o.mtime, 0).unwrap(),
        size: o.bytes.len() as u64,
        e_tag: None,
        version: None,
    }
}

impl fmt::Display for HStore {
    fn fmt(&self, f: &mut fmt::Formatter<'_>) -> fmt::Result {
        write!(f, "HStore")
    }
}

fn not_impl(op: &str) -> Error {
    Error::NotImplemented { operation: op.to_string(), implementer: "HStore".to_string() }
}

fn generic(msg: String) -> Error {
    Error::Generic { store: "HStore", source: msg.into() }
}

#[async_trait]
impl ObjectStore for HStore {
    async fn put_opts(&self, _: &Path, _: PutPayload, _: PutOptions) -> Result<PutResult> {
        Err(not_impl("put_opts"))
    }
    async fn put_multipart_opts(&self, _: &Path, _: PutMultipartOptions) -> Result<Box<dyn MultipartUpload>> {
        Err(not_impl("put_multipart_opts"))
    }
    async fn get_opts(&self, location: &Path, options: GetOptions) -> Result<GetResult> {
        let mut g = self.inner.lock().unwrap();
        let p = location.to_string();
        if options.head {
            g.calls.heads.push(p.clone());
        } else {
            g.calls.gets.push(p.clone());
        }
        let o = g.files.get(&p).cloned().ok_or_else(|| Error::NotFound { path: p.clone(), source: "no such object".into() })?;
        drop(g);
        let len = o.bytes.len() as u64;
        let range = match &options.range {
            None => 0..len,
            Some(GetRange::Bounded(r)) => {
                if r.start >= r.end {
                    return Err(generic(format!("inconsistent range {}..{}", r.start, r.end)));
                }
                if r.start >= len {
                    return Err(generic(format!("range start {} beyond object length {}", r.start, len)));
                }
                r.start..r.end.min(len)
            }
            Some(GetRange::Offset(s)) => {
                if *s >= len {
                    return Err(generic(format!("offset {s} beyond object length {len}")));
                }
                *s..len
            }
            Some(GetRange::Suffix(n)) => len.saturating_sub(*n)..len,
        };
        let chunks: Vec<Result<Bytes>> = if options.head { vec![] } else { vec![Ok(o.bytes.slice(range.start as usize..range.end as usize))] };
        Ok(GetResult {
            payload: GetResultPayload::Stream(futures::stream::iter(chunks).boxed()),
            meta: meta(&p, &o),
            range,
            attributes: Attributes::default(),
        })
    }
    fn delete_stream(&self, _: BoxStream<'static, Result<Path>>) -> BoxStream<'static, Result<Path>> {
        futures::stream::iter(vec![Err(not_impl("delete_stream"))]).boxed()
    }
    fn list(&self, prefix: Option<&Path>) -> BoxStream<'static, Result<ObjectMeta>> {
        let root = Path::default();
        let prefix = prefix.unwrap_or(&root);
        let mut g = self.inner.lock().unwrap();
        let hits: Vec<(String, Obj)> = g
            .files
            .iter()
            // like the stock stores: listed under a prefix only if the prefix is a strict directory prefix
            .filter(|(p, _)| Path::from(p.as_str()).prefix_match(prefix).map(|mut it| it.next().is_some()).unwrap_or(false))
            .map(|(p, o)| (p.clone(), o.clone()))
            .collect();
        let at = g.now;
        g.calls.lists.push(ListCall { at, files: hits.iter().map(|(p, o)| (p.clone(), o.content, o.mtime)).collect() });
        let v: Vec<Result<ObjectMeta>> = hits.iter().map(|(p, o)| Ok(meta(p, o))).collect();
        futures::stream::iter(v).boxed()
    }
    async fn list_with_delimiter(&self, prefix: Option<&Path>) -> Result<ListResult> {
        let root = Path::default();
        let prefix = prefix.unwrap_or(&root);
        let mut g = self.inner.lock().unwrap();
        let mut common = std::collections::BTreeSet::new();
        let mut objects = vec![];
        let mut listed = vec![];
        for (p, o) in &g.files {
            let path = Path::from(p.as_str());
            let Some(mut parts) = path.prefix_match(prefix) else { continue };
            let Some(first) = parts.next() else { continue };
            if parts.next().is_some() {
                common.insert(prefix.clone().join(first));
            } else {
                objects.push(meta(p, o));
                listed.push((p.clone(), o.content, o.mtime));
            }
        }
        let at = g.now;
        g.calls.lists.push(ListCall { at, files: listed });
        Ok(ListResult { common_prefixes: common.into_iter().collect(), objects })
    }
    async fn copy_opts(&self, _: &Path, _: &Path, _: CopyOptions) -> Result<()> {
        Err(not_impl("copy_opts"))
    }
}
