//! C44 — files with a differing schema are read faithfully into the table schema.
//!
//! Table schema T = (a Int64, b Utf8, c Struct{x Int32, y Utf8}), all nullable.
//! File schemas: every column permutation, every non-empty column subset, an
//! extra column, each column in another castable type, struct fields added /
//! removed / reordered / retyped, and two uncastable pairs (struct <-> scalar).
//!
//! Three routes against the real code:
//!  * `batch`: `BatchAdapterFactory::new(T).make_adapter(F).adapt_batch(file batch)`
//!  * `expr`:  `DefaultPhysicalExprAdapter::new(T, F).rewrite(predicate over T)`
//!             evaluated on the *file* batch
//!  * `scan`:  `ListingTable` with explicit schema T over Parquet files written
//!             in F (alone, or next to a file written in T), pushdown_filters on/off
//!
//! Oracle (own model): a table row takes each column from the same-named file
//! column converted to the table type (integers / integral floats / numeric
//! strings <-> Int64, any string type <-> Utf8, struct fields by name), NULL for
//! a missing column or struct field; a predicate selects the rows for which an
//! own three-valued evaluation over those table rows is TRUE; uncastable pairs
//! must produce an error.
use arrow::array::{
    Array, ArrayRef, BooleanArray, DictionaryArray, Float64Array, Int32Array, Int64Array, LargeStringArray, RecordBatch, StringArray,
    StringViewArray, StructArray, UInt8Array,
};
use arrow::buffer::NullBuffer;
use arrow::datatypes::{DataType, Field, Fields, Int8Type, Schema, SchemaRef};
use bytes::Bytes;
use chk_sql::sqlmc::engine::block_on;
use datafusion::datasource::file_format::parquet::ParquetFormat;
use datafusion::datasource::listing::{ListingOptions, ListingTable, ListingTableConfig, ListingTableUrl};
use datafusion::prelude::{SessionConfig, SessionContext};
use datafusion_common::DFSchema;
use datafusion_physical_expr_adapter::{BatchAdapterFactory, DefaultPhysicalExprAdapter, PhysicalExprAdapter};
use mc_core::serde_json::{Value as Json, json};
use mc_core::{Ctx, Level, rayon::prelude::*, run_check};
use object_store::memory::InMemory;
use object_store::path::Path;
use object_store::{ObjectStoreExt, PutPayload};
use serde::{Deserialize, Serialize};
use std::sync::Arc;

// ---------------------------------------------------------------------------
// case description
// ---------------------------------------------------------------------------

#[derive(Serialize, Deserialize, Clone, Copy, Debug, Hash, PartialEq, Eq)]
enum NumTy {
    Int64,
    Int32,
    UInt8,
    Float64,
    Utf8,
    DictInt32,
}

#[derive(Serialize, Deserialize, Clone, Copy, Debug, Hash, PartialEq, Eq)]
enum StrTy {
    Utf8,
    LargeUtf8,
    Utf8View,
    DictUtf8,
    Int64,
}

#[derive(Serialize, Deserialize, Clone, Copy, Debug, Hash, PartialEq, Eq)]
enum SField {
    X(NumTy),
    Y(StrTy),
    /// extra field `z Int32` (value 9)
    Z,
}

#[derive(Serialize, Deserialize, Clone, Debug, Hash, PartialEq, Eq)]
enum Col {
    A(NumTy),
    B(StrTy),
    C(Vec<SField>),
    /// extra top-level column `z Int32`
    Extra,
    /// `a` stored as Struct{q Int32}: not castable to Int64
    ABad,
    /// `c` stored as Int64: not castable to a struct
    CBad,
}

/// logical content of one file row, by index into small domains
#[derive(Serialize, Deserialize, Clone, Copy, Debug, Hash, PartialEq, Eq)]
struct Row {
    /// 0 = NULL, 1, 2
    a: u8,
    /// 0 = NULL, 1 = first value, 2 = second value
    b: u8,
    /// 0 = NULL struct, 1 = {x:1, y:first}, 2 = {x:NULL, y:NULL}, 3 = {x:2, y:NULL}
    c: u8,
}

#[derive(Serialize, Deserialize, Clone, Copy, Debug, Hash, PartialEq, Eq)]
enum Route {
    Batch,
    Expr,
    /// file in F alone
    Scan { pushdown: bool, with_t_file: bool },
}

#[derive(Serialize, Deserialize, Clone, Debug, Hash)]
struct Case {
    file: Vec<Col>,
    rows: Vec<Row>,
    /// index into `PREDICATES` (ignored by `Route::Batch`)
    pred: usize,
    route: Route,
    /// in-memory routes only: the children of a NULL struct row hold non-NULL
    /// values (a valid Arrow array; Parquet cannot store this)
    #[serde(default)]
    garbage: bool,
}

// ---------------------------------------------------------------------------
// reference model
// ---------------------------------------------------------------------------

#[derive(Clone, Debug, PartialEq, Eq, PartialOrd, Ord)]
struct TRow {
    a: Option<i64>,
    b: Option<String>,
    /// None = NULL struct; Some((x, y))
    c: Option<(Option<i64>, Option<String>)>,
}

const STR_VALS: [&str; 2] = ["a", "2"];
const STR_AS_INT: [i64; 2] = [7, 2];

fn num_val(k: u8) -> Option<i64> {
    match k {
        0 => None,
        k => Some(k as i64),
    }
}

/// what the table must show for string-domain index `k` stored in type `t`
fn str_expected(t: StrTy, k: u8) -> Option<String> {
    match k {
        0 => None,
        k => Some(match t {
            StrTy::Int64 => STR_AS_INT[k as usize - 1].to_string(),
            _ => STR_VALS[k as usize - 1].to_string(),
        }),
    }
}

fn c_parts(c: u8) -> Option<(u8, u8)> {
    // (x index, y index) into the numeric / string domains
    match c {
        0 => None,
        1 => Some((1, 1)),
        2 => Some((0, 0)),
        _ => Some((2, 0)),
    }
}

/// Expected table row, or Err if the file schema is not castable to T.
fn expected_row(file: &[Col], r: &Row) -> Result<TRow, ()> {
    let mut out = TRow { a: None, b: None, c: None };
    for col in file {
        match col {
            Col::A(_) => out.a = num_val(r.a),
            Col::B(t) => out.b = str_expected(*t, r.b),
            Col::C(fields) => {
                out.c = c_parts(r.c).map(|(xi, yi)| {
                    let mut x = None;
                    let mut y = None;
                    for f in fields {
                        match f {
                            SField::X(_) => x = num_val(xi),
                            SField::Y(t) => y = str_expected(*t, yi),
                            SField::Z => {}
                        }
                    }
                    (x, y)
                })
            }
            Col::Extra => {}
            Col::ABad | Col::CBad => return Err(()),
        }
    }
    Ok(out)
}

/// (sql text, evaluator)
struct Pred {
    sql: &'static str,
    eval: fn(&TRow) -> Option<bool>,
}

fn cx(r: &TRow) -> Option<i64> {
    r.c.as_ref().and_then(|c| c.0)
}
fn cy(r: &TRow) -> Option<&String> {
    r.c.as_ref().and_then(|c| c.1.as_ref())
}
fn or3(a: Option<bool>, b: Option<bool>) -> Option<bool> {
    match (a, b) {
        (Some(true), _) | (_, Some(true)) => Some(true),
        (Some(false), Some(false)) => Some(false),
        _ => None,
    }
}
fn and3(a: Option<bool>, b: Option<bool>) -> Option<bool> {
    match (a, b) {
        (Some(false), _) | (_, Some(false)) => Some(false),
        (Some(true), Some(true)) => Some(true),
        _ => None,
    }
}

const PREDICATES: [Pred; 14] = [
    Pred { sql: "true", eval: |_| Some(true) },
    Pred { sql: "a = 1", eval: |r| r.a.map(|a| a == 1) },
    Pred { sql: "a > 1", eval: |r| r.a.map(|a| a > 1) },
    Pred { sql: "a IS NULL", eval: |r| Some(r.a.is_none()) },
    Pred { sql: "b = 'a'", eval: |r| r.b.as_ref().map(|b| b == "a") },
    Pred { sql: "b = '2'", eval: |r| r.b.as_ref().map(|b| b == "2") },
    Pred { sql: "b IS NOT NULL", eval: |r| Some(r.b.is_some()) },
    Pred { sql: "c['x'] = 1", eval: |r| cx(r).map(|x| x == 1) },
    Pred { sql: "c['y'] = 'a'", eval: |r| cy(r).map(|y| y == "a") },
    Pred { sql: "c['x'] IS NULL", eval: |r| Some(cx(r).is_none()) },
    Pred { sql: "c IS NULL", eval: |r| Some(r.c.is_none()) },
    Pred { sql: "a = 1 OR c['x'] = 2", eval: |r| or3(r.a.map(|a| a == 1), cx(r).map(|x| x == 2)) },
    Pred { sql: "NOT (b = 'a')", eval: |r| r.b.as_ref().map(|b| b != "a") },
    Pred { sql: "a = 2 AND c['y'] IS NULL", eval: |r| and3(r.a.map(|a| a == 2), Some(cy(r).is_none())) },
];

// ---------------------------------------------------------------------------
// building file batches
// ---------------------------------------------------------------------------

fn table_schema() -> SchemaRef {
    Arc::new(Schema::new(vec![
        Field::new("a", DataType::Int64, true),
        Field::new("b", DataType::Utf8, true),
        Field::new(
            "c",
            DataType::Struct(Fields::from(vec![Field::new("x", DataType::Int32, true), Field::new("y", DataType::Utf8, true)])),
            true,
        ),
    ]))
}

fn num_array(t: NumTy, vals: &[Option<i64>]) -> ArrayRef {
    match t {
        NumTy::Int64 => Arc::new(Int64Array::from(vals.to_vec())),
        NumTy::Int32 => Arc::new(Int32Array::from(vals.iter().map(|v| v.map(|x| x as i32)).collect::<Vec<_>>())),
        NumTy::UInt8 => Arc::new(UInt8Array::from(vals.iter().map(|v| v.map(|x| x as u8)).collect::<Vec<_>>())),
        NumTy::Float64 => Arc::new(Float64Array::from(vals.iter().map(|v| v.map(|x| x as f64)).collect::<Vec<_>>())),
        NumTy::Utf8 => Arc::new(StringArray::from(vals.iter().map(|v| v.map(|x| x.to_string())).collect::<Vec<_>>())),
        NumTy::DictInt32 => {
            let plain = Int32Array::from(vals.iter().map(|v| v.map(|x| x as i32)).collect::<Vec<_>>());
            arrow::compute::cast(&plain, &DataType::Dictionary(Box::new(DataType::Int8), Box::new(DataType::Int32))).unwrap()
        }
    }
}

fn str_array(t: StrTy, idx: &[u8]) -> ArrayRef {
    let strs: Vec<Option<&str>> = idx.iter().map(|k| if *k == 0 { None } else { Some(STR_VALS[*k as usize - 1]) }).collect();
    match t {
        StrTy::Utf8 => Arc::new(StringArray::from(strs)),
        StrTy::LargeUtf8 => Arc::new(LargeStringArray::from(strs)),
        StrTy::Utf8View => Arc::new(StringViewArray::from(strs)),
        StrTy::DictUtf8 => Arc::new(strs.into_iter().collect::<DictionaryArray<Int8Type>>()),
        StrTy::Int64 => Arc::new(Int64Array::from(idx.iter().map(|k| if *k == 0 { None } else { Some(STR_AS_INT[*k as usize - 1]) }).collect::<Vec<_>>())),
    }
}

fn file_batch(file: &[Col], rows: &[Row], garbage: bool) -> RecordBatch {
    let n = rows.len();
    let mut fields = vec![];
    let mut arrays: Vec<ArrayRef> = vec![];
    for col in file {
        let (name, arr): (&str, ArrayRef) = match col {
            Col::A(t) => ("a", num_array(*t, &rows.iter().map(|r| num_val(r.a)).collect::<Vec<_>>())),
            Col::B(t) => ("b", str_array(*t, &rows.iter().map(|r| r.b).collect::<Vec<_>>())),
            Col::Extra => ("z", Arc::new(Int32Array::from(vec![Some(9); n]))),
            Col::ABad => {
                let q: ArrayRef = Arc::new(Int32Array::from(vec![Some(1); n]));
                ("a", Arc::new(StructArray::from(vec![(Arc::new(Field::new("q", DataType::Int32, true)), q)])))
            }
            Col::CBad => ("c", Arc::new(Int64Array::from(vec![Some(1); n]))),
            Col::C(sf) => {
                let parts: Vec<Option<(u8, u8)>> = rows.iter().map(|r| c_parts(r.c)).collect();
                let mut fs = vec![];
                let mut ars: Vec<ArrayRef> = vec![];
                for f in sf {
                    let (nm, ar): (&str, ArrayRef) = match f {
                        // children under a NULL parent: NULL, or (garbage) a non-NULL value
                        SField::X(t) => ("x", num_array(*t, &parts.iter().map(|p| p.map_or(if garbage { Some(2) } else { None }, |(xi, _)| num_val(xi))).collect::<Vec<_>>())),
                        SField::Y(t) => ("y", str_array(*t, &parts.iter().map(|p| p.map_or(if garbage { 1 } else { 0 }, |(_, yi)| yi)).collect::<Vec<_>>())),
                        SField::Z => ("z", Arc::new(Int32Array::from(vec![Some(9); n]))),
                    };
                    fs.push(Arc::new(Field::new(nm, ar.data_type().clone(), true)));
                    ars.push(ar);
                }
                let nulls = NullBuffer::from(parts.iter().map(|p| p.is_some()).collect::<Vec<bool>>());
                ("c", Arc::new(StructArray::new(Fields::from(fs), ars, Some(nulls))))
            }
        };
        fields.push(Field::new(name, arr.data_type().clone(), true));
        arrays.push(arr);
    }
    RecordBatch::try_new(Arc::new(Schema::new(fields)), arrays).expect("file batch")
}

/// rows of a batch in table schema T -> reference rows
fn table_rows(b: &RecordBatch) -> Result<Vec<TRow>, String> {
    let t = table_schema();
    if b.schema().fields().len() != 3 {
        return Err(format!("adapted batch has {} columns", b.schema().fields().len()));
    }
    for (i, f) in t.fields().iter().enumerate() {
        let g = b.schema().field(i).clone();
        if g.name() != f.name() || g.data_type() != f.data_type() {
            return Err(format!("adapted column {i} is {} {}, table schema says {} {}", g.name(), g.data_type(), f.name(), f.data_type()));
        }
    }
    let a = b.column(0).as_any().downcast_ref::<Int64Array>().unwrap();
    let s = b.column(1).as_any().downcast_ref::<StringArray>().unwrap();
    let c = b.column(2).as_any().downcast_ref::<StructArray>().unwrap();
    let x = c.column(0).as_any().downcast_ref::<Int32Array>().ok_or("c.x is not Int32")?;
    let y = c.column(1).as_any().downcast_ref::<StringArray>().ok_or("c.y is not Utf8")?;
    Ok((0..b.num_rows())
        .map(|i| TRow {
            a: if a.is_null(i) { None } else { Some(a.value(i)) },
            b: if s.is_null(i) { None } else { Some(s.value(i).to_string()) },
            c: if c.is_null(i) {
                None
            } else {
                Some((if x.is_null(i) { None } else { Some(x.value(i) as i64) }, if y.is_null(i) { None } else { Some(y.value(i).to_string()) }))
            },
        })
        .collect())
}

// ---------------------------------------------------------------------------
// routes
// ---------------------------------------------------------------------------

fn run_batch(c: &Case) -> Result<(), String> {
    let fb = file_batch(&c.file, &c.rows, c.garbage);
    let want: Result<Vec<TRow>, ()> = c.rows.iter().map(|r| expected_row(&c.file, r)).collect();
    let got = BatchAdapterFactory::new(table_schema()).make_adapter(&fb.schema()).and_then(|a| a.adapt_batch(&fb));
    match (want, got) {
        (Err(()), Err(_)) => Ok(()),
        (Err(()), Ok(b)) => Err(format!("file schema {} is not castable to the table schema, but adapt_batch returned {:?}", fb.schema(), b.columns())),
        (Ok(_), Err(e)) => Err(format!("adapt_batch failed on a castable file schema {}: {e}", fb.schema())),
        (Ok(w), Ok(b)) => {
            let g = table_rows(&b)?;
            if g != w {
                return Err(format!("file schema {}: adapted rows {g:?}, expected {w:?}", fb.schema()));
            }
            Ok(())
        }
    }
}

thread_local! {
    /// the predicates planned once per thread against the table schema
    static PHYS: Vec<Result<Arc<dyn datafusion::physical_plan::PhysicalExpr>, String>> = {
        let ctx = SessionContext::new();
        let dfs = DFSchema::try_from(table_schema().as_ref().clone()).expect("df schema");
        PREDICATES
            .iter()
            .map(|p| {
                let le = ctx.parse_sql_expr(p.sql, &dfs).map_err(|e| format!("parse {}: {e}", p.sql))?;
                ctx.create_physical_expr(le, &dfs).map_err(|e| format!("physical expr {}: {e}", p.sql))
            })
            .collect()
    };
}

fn physical_predicate(i: usize) -> Result<Arc<dyn datafusion::physical_plan::PhysicalExpr>, String> {
    PHYS.with(|v| v[i].clone())
}

fn run_expr(c: &Case) -> Result<(), String> {
    let fb = file_batch(&c.file, &c.rows, c.garbage);
    let p = &PREDICATES[c.pred];
    let want: Result<Vec<bool>, ()> = c.rows.iter().map(|r| expected_row(&c.file, r).map(|t| (p.eval)(&t) == Some(true))).collect();
    let t = table_schema();
    let pe = physical_predicate(c.pred)?;
    let got = DefaultPhysicalExprAdapter::new(t, fb.schema())
        .rewrite(pe)
        .and_then(|e| Ok((format!("{e}"), e.evaluate(&fb)?.into_array(fb.num_rows())?)));
    // which columns does the predicate touch? an uncastable column that is not
    // referenced cannot (and need not) make the rewrite fail
    let touches_bad = c.file.iter().any(|col| match col {
        Col::ABad => p.sql.contains("a "),
        Col::CBad => p.sql.contains('c'),
        _ => false,
    });
    match (want, got) {
        (Err(()), Err(_)) => Ok(()),
        (Err(()), Ok((e, arr))) => {
            if touches_bad {
                Err(format!("file schema {} is not castable, but `{}` was rewritten to `{e}` and evaluated to {arr:?}", fb.schema(), p.sql))
            } else {
                Ok(())
            }
        }
        (Ok(_), Err(e)) => Err(format!("`{}` against file schema {}: {e}", p.sql, fb.schema())),
        (Ok(w), Ok((e, arr))) => {
            let ba = arr.as_any().downcast_ref::<BooleanArray>().ok_or("predicate result is not Boolean")?;
            let g: Vec<bool> = (0..ba.len()).map(|i| !ba.is_null(i) && ba.value(i)).collect();
            if g != w {
                return Err(format!("`{}` rewritten to `{e}` selects {g:?} of the file rows, filtering the adapted rows selects {w:?} (file schema {})", p.sql, fb.schema()));
            }
            Ok(())
        }
    }
}

fn parquet_bytes(b: &RecordBatch) -> Bytes {
    let mut buf = vec![];
    let mut w = parquet::arrow::ArrowWriter::try_new(&mut buf, b.schema(), None).unwrap();
    w.write(b).unwrap();
    w.close().unwrap();
    Bytes::from(buf)
}

type OutRow = (Option<i64>, Option<String>, Option<i64>, Option<String>, bool);

fn out_row(t: &TRow) -> OutRow {
    (t.a, t.b.clone(), cx(t), cy(t).cloned(), t.c.is_none())
}

fn run_scan(c: &Case, pushdown: bool, with_t_file: bool) -> Result<(), String> {
    let fb = file_batch(&c.file, &c.rows, false);
    let p = &PREDICATES[c.pred];
    let store = Arc::new(InMemory::new());
    futures::executor::block_on(store.put(&Path::from("t/f1.parquet"), PutPayload::from_bytes(parquet_bytes(&fb)))).unwrap();
    // the companion file is written in the table schema itself
    let t_file: Vec<Col> = vec![Col::A(NumTy::Int64), Col::B(StrTy::Utf8), Col::C(vec![SField::X(NumTy::Int32), SField::Y(StrTy::Utf8)])];
    let t_rows = vec![Row { a: 2, b: 1, c: 1 }, Row { a: 0, b: 0, c: 0 }];
    if with_t_file {
        let tb = file_batch(&t_file, &t_rows, false);
        futures::executor::block_on(store.put(&Path::from("t/f0.parquet"), PutPayload::from_bytes(parquet_bytes(&tb)))).unwrap();
    }
    let mut all: Result<Vec<TRow>, ()> = c.rows.iter().map(|r| expected_row(&c.file, r)).collect();
    if with_t_file {
        if let Ok(v) = all.as_mut() {
            v.extend(t_rows.iter().map(|r| expected_row(&t_file, r).unwrap()));
        }
    }
    let want: Result<Vec<OutRow>, ()> = all.map(|v| {
        let mut w: Vec<OutRow> = v.iter().filter(|t| (p.eval)(t) == Some(true)).map(out_row).collect();
        w.sort();
        w
    });
    let cfg = SessionConfig::new().with_target_partitions(2).set_bool("datafusion.execution.parquet.pushdown_filters", pushdown);
    let ctx = SessionContext::new_with_config(cfg);
    ctx.register_object_store(&url::Url::parse("mem://b").unwrap(), store);
    let opts = ListingOptions::new(Arc::new(ParquetFormat::default())).with_file_extension(".parquet");
    let lc = ListingTableConfig::new(ListingTableUrl::parse("mem://b/t/").unwrap()).with_listing_options(opts).with_schema(table_schema());
    let table = ListingTable::try_new(lc).map_err(|e| e.to_string())?;
    ctx.register_table("t", Arc::new(table)).map_err(|e| e.to_string())?;
    let q = format!("SELECT a, b, c['x'], c['y'], c IS NULL FROM t WHERE {}", p.sql);
    let got: Result<Vec<OutRow>, String> = block_on(async {
        let batches = ctx.sql(&q).await.map_err(|e| e.to_string())?.collect().await.map_err(|e| e.to_string())?;
        let mut out = vec![];
        for b in &batches {
            let cast = |i: usize, dt: &DataType| arrow::compute::cast(b.column(i), dt).map_err(|e| e.to_string());
            let (a, s, x, y) = (cast(0, &DataType::Int64)?, cast(1, &DataType::Utf8)?, cast(2, &DataType::Int64)?, cast(3, &DataType::Utf8)?);
            let a = a.as_any().downcast_ref::<Int64Array>().unwrap();
            let s = s.as_any().downcast_ref::<StringArray>().unwrap();
            let x = x.as_any().downcast_ref::<Int64Array>().unwrap();
            let y = y.as_any().downcast_ref::<StringArray>().unwrap();
            let n = b.column(4).as_any().downcast_ref::<BooleanArray>().ok_or("c IS NULL is not Boolean")?;
            for i in 0..b.num_rows() {
                out.push((
                    if a.is_null(i) { None } else { Some(a.value(i)) },
                    if s.is_null(i) { None } else { Some(s.value(i).to_string()) },
                    if x.is_null(i) { None } else { Some(x.value(i)) },
                    if y.is_null(i) { None } else { Some(y.value(i).to_string()) },
                    n.value(i),
                ));
            }
        }
        out.sort();
        Ok(out)
    });
    match (want, got) {
        (Err(()), Err(_)) => Ok(()),
        (Err(()), Ok(g)) => Err(format!("{q}: file schema {} is not castable to the table schema, but the scan returned {g:?}", fb.schema())),
        (Ok(_), Err(e)) => Err(format!("{q}: scan of a castable file schema {} failed: {e}", fb.schema())),
        (Ok(w), Ok(g)) => {
            if g != w {
                return Err(format!("{q}: file schema {}: got {g:?}, expected {w:?}", fb.schema()));
            }
            Ok(())
        }
    }
}

fn run_case(c: &Case) -> Result<(), String> {
    match c.route {
        Route::Batch => run_batch(c),
        Route::Expr => run_expr(c),
        Route::Scan { pushdown, with_t_file } => run_scan(c, pushdown, with_t_file),
    }
}

// ---------------------------------------------------------------------------
// enumeration
// ---------------------------------------------------------------------------

fn file_specs(thorough: bool) -> Vec<Vec<Col>> {
    let a = Col::A(NumTy::Int64);
    let b = Col::B(StrTy::Utf8);
    let cs = |v: &[SField]| Col::C(v.to_vec());
    let x = SField::X(NumTy::Int32);
    let y = SField::Y(StrTy::Utf8);
    let c = cs(&[x, y]);
    let mut out: Vec<Vec<Col>> = vec![];
    // permutations
    for p in [[0, 1, 2], [0, 2, 1], [1, 0, 2], [1, 2, 0], [2, 0, 1], [2, 1, 0]] {
        let base = [a.clone(), b.clone(), c.clone()];
        out.push(p.iter().map(|i| base[*i].clone()).collect());
    }
    // non-empty proper subsets
    for m in 1..7u8 {
        let base = [a.clone(), b.clone(), c.clone()];
        out.push((0..3).filter(|i| m & (1 << i) != 0).map(|i| base[i].clone()).collect());
    }
    // extra column
    out.push(vec![Col::Extra, a.clone(), b.clone(), c.clone()]);
    out.push(vec![c.clone(), b.clone(), Col::Extra, a.clone()]);
    // retyped top-level columns
    let nts = [NumTy::Int32, NumTy::UInt8, NumTy::Float64, NumTy::Utf8, NumTy::DictInt32];
    let sts = [StrTy::LargeUtf8, StrTy::Utf8View, StrTy::DictUtf8, StrTy::Int64];
    for t in nts {
        out.push(vec![Col::A(t), b.clone(), c.clone()]);
    }
    for t in sts {
        out.push(vec![a.clone(), Col::B(t), c.clone()]);
    }
    // struct changes
    let svars: Vec<Vec<SField>> = vec![
        vec![x, y, SField::Z],
        vec![SField::Z, x, y],
        vec![x],
        vec![y],
        vec![y, x],
        vec![SField::X(NumTy::Int64), y],
        vec![SField::X(NumTy::Utf8), y],
        vec![x, SField::Y(StrTy::LargeUtf8)],
        vec![x, SField::Y(StrTy::Utf8View)],
        vec![SField::Y(StrTy::LargeUtf8), SField::Z, SField::X(NumTy::Int64)],
        vec![SField::Z, y],
    ];
    for v in &svars {
        out.push(vec![a.clone(), b.clone(), cs(v)]);
    }
    // combined: reordered + retyped + struct change
    out.push(vec![cs(&svars[9]), Col::B(StrTy::Utf8View), Col::A(NumTy::Int32)]);
    out.push(vec![Col::B(StrTy::Int64), cs(&svars[4])]);
    // uncastable
    out.push(vec![Col::ABad, b.clone(), c.clone()]);
    out.push(vec![a.clone(), b.clone(), Col::CBad]);
    if thorough {
        for nt in [NumTy::Int64, NumTy::Int32, NumTy::Float64, NumTy::Utf8] {
            for st in [StrTy::Utf8, StrTy::Utf8View, StrTy::DictUtf8, StrTy::Int64] {
                for v in &svars {
                    out.push(vec![cs(v), Col::A(nt), Col::B(st)]);
                }
            }
        }
    }
    out
}

fn datasets() -> Vec<Vec<Row>> {
    let mut singles = vec![];
    for a in 0..3u8 {
        for b in 0..3u8 {
            for c in 0..4u8 {
                singles.push(Row { a, b, c });
            }
        }
    }
    let seconds = [Row { a: 0, b: 0, c: 0 }, Row { a: 1, b: 1, c: 1 }, Row { a: 2, b: 2, c: 3 }, Row { a: 1, b: 0, c: 2 }];
    let mut out: Vec<Vec<Row>> = singles.iter().map(|r| vec![*r]).collect();
    for r in &singles {
        for s in &seconds {
            out.push(vec![*r, *s]);
        }
    }
    out
}

fn explore(ctx: &Ctx) {
    let specs = file_specs(ctx.thorough());
    let ds = datasets();
    let scan_rows = vec![Row { a: 1, b: 1, c: 1 }, Row { a: 2, b: 2, c: 3 }, Row { a: 0, b: 0, c: 0 }, Row { a: 1, b: 0, c: 2 }];
    ctx.set_extra(
        "bounds",
        json!({"table_schema": "a Int64, b Utf8, c Struct{x Int32, y Utf8}", "file_schemas": specs.len(),
               "file_schema_kinds": "6 column permutations, 6 column subsets, extra column (2 positions), a in {Int32, UInt8, Float64, Utf8, Dictionary(Int8,Int32)}, b in {LargeUtf8, Utf8View, Dictionary(Int8,Utf8), Int64}, 11 struct variants (field added / removed / reordered / retyped), 2 combined, 2 uncastable (struct<->scalar); thorough adds a-type x b-type x struct variant",
               "datasets (batch / expr routes)": format!("{} = every single row over a in {{NULL,1,2}} x b in {{NULL,v1,v2}} x c in {{NULL,{{1,v1}},{{NULL,NULL}},{{2,NULL}}}}, and each followed by one of 4 second rows", ds.len()),
               "scan route": "one 4-row dataset, file alone / next to a file written in the table schema, pushdown_filters off / on",
               "predicates": PREDICATES.iter().map(|p| p.sql).collect::<Vec<_>>()}),
    );
    let mut cases: Vec<Case> = vec![];
    for f in &specs {
        for rows in &ds {
            // garbage under NULL parents only matters when some row has a NULL struct
            let garbage_variants: &[bool] = if rows.iter().any(|r| r.c == 0) { &[false, true] } else { &[false] };
            for &garbage in garbage_variants {
                cases.push(Case { file: f.clone(), rows: rows.clone(), pred: 0, route: Route::Batch, garbage });
                for pi in 1..PREDICATES.len() {
                    cases.push(Case { file: f.clone(), rows: rows.clone(), pred: pi, route: Route::Expr, garbage });
                }
            }
        }
        for pi in 0..PREDICATES.len() {
            for pushdown in [false, true] {
                for with_t_file in [false, true] {
                    cases.push(Case { file: f.clone(), rows: scan_rows.clone(), pred: pi, route: Route::Scan { pushdown, with_t_file }, garbage: false });
                }
            }
        }
    }
    let identity = specs[0].clone();
    let getfield_class: std::sync::Mutex<Vec<(String, String)>> = std::sync::Mutex::new(vec![]);
    let simplifier_class: std::sync::Mutex<Vec<(String, String)>> = std::sync::Mutex::new(vec![]);
    cases.par_iter().for_each(|c| {
        if ctx.should_stop() {
            return;
        }
        ctx.eval();
        match mc_core::catch(|| run_case(c)).unwrap_or_else(Err) {
            Ok(()) => {
                ctx.count(
                    match c.route {
                        Route::Batch => "batch_cases",
                        Route::Expr => "expr_cases",
                        Route::Scan { .. } => "scan_cases",
                    },
                    1,
                );
                // non-trivial: the file schema differs from the table schema
                if c.file != identity {
                    ctx.nontrivial(c);
                    if matches!(c.route, Route::Scan { pushdown: true, with_t_file: true }) && c.pred == 7 && ctx.want_sample() {
                        ctx.sample(json!({"case": c, "predicate": PREDICATES[c.pred].sql, "file_schema": format!("{}", file_batch(&c.file, &c.rows, false).schema())}));
                    }
                }
            }
            Err(what) => {
                let j = serde_json::to_value(c).unwrap();
                // Root-cause triage: the case passes when the children of NULL
                // struct rows are NULL too => the failure is `get_field` not
                // applying the parent's validity, not schema adaptation.
                if c.garbage {
                    let mut twin = c.clone();
                    twin.garbage = false;
                    if mc_core::catch(|| run_case(&twin)).unwrap_or_else(Err).is_ok() {
                        ctx.count("violations_of_class_get_field_ignores_parent_nulls", 1);
                        getfield_class.lock().unwrap().push((j.to_string(), what));
                        return;
                    }
                }
                // Root-cause triage: a panic in the batch route that disappears when
                // the extra file column is removed => the adapter's simplifier is
                // looking at the (narrower) target schema.
                if c.route == Route::Batch && c.file.contains(&Col::Extra) && what.starts_with("panic") {
                    let mut twin = c.clone();
                    twin.file.retain(|x| *x != Col::Extra);
                    if mc_core::catch(|| run_case(&twin)).unwrap_or_else(Err).is_ok() {
                        ctx.count("violations_of_class_batch_adapter_simplifier_schema", 1);
                        simplifier_class.lock().unwrap().push((j.to_string(), what));
                        return;
                    }
                }
                ctx.violation(format!("{j}"), what, j);
            }
        }
    });
    let mut v = simplifier_class.into_inner().unwrap();
    v.sort_by(|a, b| (a.0.len(), &a.0).cmp(&(b.0.len(), &b.0)));
    if let Some((j, what)) = v.first() {
        ctx.violation(ROOT_CAUSE_SIMPLIFIER, what.clone(), serde_json::from_str(j).unwrap());
    }
    let mut v = getfield_class.into_inner().unwrap();
    v.sort_by(|a, b| (a.0.len(), &a.0).cmp(&(b.0.len(), &b.0)));
    if let Some((j, what)) = v.first() {
        ctx.violation(ROOT_CAUSE_GET_FIELD, what.clone(), serde_json::from_str(j).unwrap());
    }
}

/// `BatchAdapterFactory::make_adapter` simplifies the rewritten projection
/// (column indices of the *source* schema) with a `PhysicalExprSimplifier` built
/// on the *target* schema; a needed source column at an index >= the target
/// width trips the simplifier's debug assertion (debug-assertion builds only).
const ROOT_CAUSE_SIMPLIFIER: &str = "C44:BatchAdapterFactory::make_adapter:simplifier-built-on-target-schema-panics-on-wider-source";

/// `get_field(struct_array, 'f')` returns the child array as is; rows whose
/// *parent* struct is NULL keep whatever the child holds
/// (`extract_single_field` in datafusion/functions/src/core/getfield.rs).
const ROOT_CAUSE_GET_FIELD: &str = "C44:get_field:parent-struct-validity-not-applied-to-extracted-child";

fn replay(v: &Json) -> Result<(), String> {
    let c: Case = serde_json::from_value(v.clone()).map_err(|e| format!("bad case: {e}"))?;
    mc_core::catch(|| run_case(&c)).unwrap_or_else(Err)
}

fn main() {
    mc_core::quiet_panics();
    run_check(
        "C44",
        Level::Exploration,
        "every (file schema, dataset, predicate, route) in the stated lists; routes: BatchAdapter, DefaultPhysicalExprAdapter rewrite evaluated on the file batch, ListingTable scan over Parquet written in the file schema; \
         non-trivial = distinct cases whose file schema differs from the table schema",
        explore,
        replay,
    );
}
