//! C26 — parallel byte-range scans read every record exactly once.
//!
//! Four parts, all bounded-exhaustive against the real code:
//!
//! * `stream`: `AlignedBoundaryStream::new(store, path, start, end, size, b'\n')`
//!   over `ChunkStore` (own `ObjectStore`, chunked GET answers): every file of
//!   length <= 10 (quick) / <= 13 (thorough) over {'a','\n','\r'} x every cut of
//!   [0,len) into 2 and 3 consecutive ranges (empty ranges included) x chunk
//!   modes {1,2,3,whole, 2+trailing empty chunk}.
//! * `lookahead`: files with one line longer than `END_SCAN_LOOKAHEAD`, every
//!   cut within +-d of each newline, of each newline minus j*16 KiB, of each
//!   multiple of 16 KiB and of both file ends; chunk sizes {7,4096,16384,whole}.
//! * `scan`: CSV / NDJSON external tables over `ChunkStore` scanned with
//!   `repartition_file_scans`, `repartition_file_min_size = 0` and
//!   target_partitions 2..4 against the same table scanned with one partition.
//! * `groups`: `FileGroupPartitioner::repartition_file_groups` on small file
//!   size lists: the produced ranges of every file tile [0,size) exactly.
//!
//! Oracle (stream/lookahead): the concatenation of the ranges' outputs is the
//! file, byte for byte (= every record exactly once and in order), and every
//! non-empty output begins at a record start (offset 0 or just after '\n').
//! The documented ownership rule (a record belongs to the range containing its
//! first byte) is computed too, but only *counted* when it disagrees — the
//! property does not demand a particular owner.
#[path = "c26/store.rs"]
mod store;

use bytes::Bytes;
use chk_sql::sqlmc::engine::block_on;
use datafusion::arrow::array::{Array, AsArray};
use datafusion::arrow::datatypes::{DataType, Int64Type};
use datafusion::physical_plan::{ExecutionPlan, collect_partitioned};
use datafusion::prelude::{SessionConfig, SessionContext};
use datafusion_datasource::boundary_stream::{AlignedBoundaryStream, END_SCAN_LOOKAHEAD};
use datafusion_datasource::file_groups::{FileGroup, FileGroupPartitioner};
use datafusion_datasource::file_scan_config::FileScanConfig;
use datafusion_datasource::source::DataSourceExec;
use datafusion_datasource::PartitionedFile;
use futures::StreamExt;
use mc_core::serde_json::{Value as Json, json};
use mc_core::{Ctx, Level, rayon::prelude::*, run_check};
use object_store::ObjectStore;
use object_store::path::Path;
use serde::{Deserialize, Serialize};
use std::collections::{BTreeMap, BTreeSet, HashMap};
use std::sync::Arc;
use store::ChunkStore;

const L: usize = END_SCAN_LOOKAHEAD as usize;

/// at most two written-out samples per part
static SAMPLES: [std::sync::atomic::AtomicUsize; 3] =
    [std::sync::atomic::AtomicUsize::new(0), std::sync::atomic::AtomicUsize::new(0), std::sync::atomic::AtomicUsize::new(0)];
fn take_sample(part: usize) -> bool {
    SAMPLES[part].fetch_add(1, std::sync::atomic::Ordering::Relaxed) < 2
}

#[derive(Serialize, Deserialize, Clone, Copy, Debug, Hash, PartialEq, Eq)]
enum Fmt {
    Csv,
    Json,
}

#[derive(Serialize, Deserialize, Clone, Debug, Hash)]
#[serde(tag = "kind")]
enum Case {
    /// direct stream check; `file` is the literal content
    Stream { file: String, cuts: Vec<usize>, chunk: usize, trailing_empty: bool },
    /// `pre` x "ab\n", then `long` x 'A' and '\n', then `post` x "cd\n"; without
    /// `final_nl` the last '\n' is removed
    Lookahead { pre: usize, long: usize, post: usize, final_nl: bool, cuts: Vec<usize>, chunk: usize },
    /// end-to-end scan; `files` are literal contents of t/f0.., t/f1.. ;
    /// `batch_size` 0 = default
    Scan { fmt: Fmt, files: Vec<String>, header: bool, tp: usize, chunk: usize, ordered: bool, batch_size: usize },
    /// file sizes per initial group
    Groups { groups: Vec<Vec<u64>>, tp: usize, min_size: usize, preserve_order: bool },
}

// ---------------------------------------------------------------------------
// stream part
// ---------------------------------------------------------------------------

fn obj_path() -> Path {
    Path::from("d/obj")
}

fn make_store(file: &[u8], chunk: usize, trailing_empty: bool) -> Arc<dyn ObjectStore> {
    Arc::new(ChunkStore::new([(obj_path(), Bytes::copy_from_slice(file))], chunk, trailing_empty))
}

/// Drive one real `AlignedBoundaryStream` to the end.
fn stream_range(store: &Arc<dyn ObjectStore>, s: u64, e: u64, size: u64) -> Result<Vec<u8>, String> {
    // every yielded item consumes at least one inner chunk; the inner streams
    // together yield at most size + (gets) items; a generous cap turns a
    // non-terminating stream into a reported violation instead of a hang
    let cap = 4 * size as usize + 64;
    futures::executor::block_on(async {
        let mut st = AlignedBoundaryStream::new(Arc::clone(store), obj_path(), s, e, size, b'\n')
            .await
            .map_err(|e| format!("new({s},{e},{size}) failed: {e}"))?;
        let mut out = vec![];
        let mut items = 0usize;
        while let Some(x) = st.next().await {
            let b = x.map_err(|e| format!("range [{s},{e}) of {size}: stream error: {e}"))?;
            out.extend_from_slice(&b);
            items += 1;
            if items > cap {
                return Err(format!("range [{s},{e}) of {size}: stream yielded more than {cap} items"));
            }
        }
        // a finished stream stays finished
        if st.next().await.is_some() {
            return Err(format!("range [{s},{e}) of {size}: item after end of stream"));
        }
        Ok(out)
    })
}

fn bounds_of(cuts: &[usize], n: usize) -> Vec<usize> {
    let mut b = vec![0];
    b.extend_from_slice(cuts);
    b.push(n);
    b
}

/// Reference: the records (terminated by '\n', last one possibly unterminated)
/// whose first byte lies in [s,e) — the documented ownership rule.
fn owned_by_rule(file: &[u8], s: usize, e: usize) -> Vec<u8> {
    let mut out = vec![];
    let mut p = 0;
    while p < file.len() {
        let q = match file[p..].iter().position(|&b| b == b'\n') {
            Some(i) => p + i + 1,
            None => file.len(),
        };
        if s <= p && p < e {
            out.extend_from_slice(&file[p..q]);
        }
        p = q;
    }
    out
}

struct SplitVerdict {
    ownership_rule_holds: bool,
}

/// The property: concatenation = file, each non-empty piece starts at a record start.
fn check_split(file: &[u8], bounds: &[usize], outs: &[&Result<Vec<u8>, String>]) -> Result<SplitVerdict, String> {
    let mut off = 0usize;
    let mut rule = true;
    for (i, o) in outs.iter().enumerate() {
        let o = match o {
            Ok(o) => o,
            Err(e) => return Err(e.clone()),
        };
        let (s, e) = (bounds[i], bounds[i + 1]);
        if !o.is_empty() {
            if off > 0 && off <= file.len() && file[off - 1] != b'\n' {
                return Err(format!(
                    "range {i} [{s},{e}) output {:?} does not start at a record start: outputs so far cover {off} bytes and byte {} is not a terminator",
                    show(o),
                    off - 1
                ));
            }
            if off + o.len() > file.len() || &file[off..off + o.len()] != o.as_slice() {
                return Err(format!(
                    "range {i} [{s},{e}) produced {:?} but the records not yet produced start at offset {off}: {:?} (lost or duplicated record)",
                    show(o),
                    show(&file[off.min(file.len())..])
                ));
            }
            off += o.len();
        }
        if *o != owned_by_rule(file, s, e) {
            rule = false;
        }
    }
    if off != file.len() {
        return Err(format!(
            "all ranges together produced {off} of {} bytes; lost tail {:?}",
            file.len(),
            show(&file[off..])
        ));
    }
    Ok(SplitVerdict { ownership_rule_holds: rule })
}

fn show(b: &[u8]) -> String {
    if b.len() > 60 {
        format!("{}…({} bytes)…{}", String::from_utf8_lossy(&b[..20]), b.len(), String::from_utf8_lossy(&b[b.len() - 20..]))
    } else {
        String::from_utf8_lossy(b).into_owned()
    }
}

fn run_stream_case(file: &[u8], cuts: &[usize], chunk: usize, trailing_empty: bool) -> Result<SplitVerdict, String> {
    let n = file.len();
    if cuts.windows(2).any(|w| w[0] > w[1]) || cuts.iter().any(|c| *c > n) {
        return Err("bad case: cuts not sorted / out of range".into());
    }
    let store = make_store(file, chunk, trailing_empty);
    let b = bounds_of(cuts, n);
    let outs: Vec<Result<Vec<u8>, String>> =
        (0..b.len() - 1).map(|i| stream_range(&store, b[i] as u64, b[i + 1] as u64, n as u64)).collect();
    let refs: Vec<&Result<Vec<u8>, String>> = outs.iter().collect();
    check_split(file, &b, &refs)
}

const ALPHA: [u8; 3] = [b'a', b'\n', b'\r'];
const MODES: [(usize, bool); 5] = [(1, false), (2, false), (3, false), (0, false), (2, true)];

fn nth_file(n: usize, mut idx: usize) -> Vec<u8> {
    let mut f = Vec::with_capacity(n);
    for _ in 0..n {
        f.push(ALPHA[idx % 3]);
        idx /= 3;
    }
    f
}

/// true iff some interior cut is not a record start (a record straddles it)
fn has_straddle(file: &[u8], cuts: &[usize]) -> bool {
    cuts.iter().any(|&c| c > 0 && c < file.len() && file[c - 1] != b'\n')
}

fn explore_streams(ctx: &Ctx) {
    let max_len = ctx.pick(10, 13);
    ctx.set_extra(
        "bounds_stream",
        json!({"alphabet": "a, \\n, \\r", "max_file_len": max_len, "ranges": "every 0<=c1<=len (2 ranges) and 0<=c1<=c2<=len (3 ranges), empty ranges included",
               "chunk_modes": "1, 2, 3, whole, 2 + trailing empty chunk", "terminator": "\\n"}),
    );
    for n in 0..=max_len {
        let count = 3usize.pow(n as u32);
        (0..count).into_par_iter().for_each(|idx| {
            if ctx.should_stop() {
                return;
            }
            let file = nth_file(n, idx);
            let mut cases = 0u64;
            let mut straddling = 0u64;
            let mut rule_mismatch = 0u64;
            let mut any_straddle = false;
            for (chunk, te) in MODES {
                let store = make_store(&file, chunk, te);
                // every range once
                let mut table: Vec<Vec<Option<Result<Vec<u8>, String>>>> = vec![vec![None; n + 1]; n + 1];
                for s in 0..=n {
                    for e in s..=n {
                        table[s][e] = Some(stream_range(&store, s as u64, e as u64, n as u64));
                    }
                }
                let get = |s: usize, e: usize| table[s][e].as_ref().unwrap();
                let mut one = |cuts: Vec<usize>| {
                    let b = bounds_of(&cuts, n);
                    let outs: Vec<&Result<Vec<u8>, String>> = (0..b.len() - 1).map(|i| get(b[i], b[i + 1])).collect();
                    cases += 1;
                    let st = has_straddle(&file, &cuts);
                    if st {
                        straddling += 1;
                        any_straddle = true;
                    }
                    match check_split(&file, &b, &outs) {
                        Ok(v) => {
                            if !v.ownership_rule_holds {
                                rule_mismatch += 1;
                            }
                            if st && cuts.len() == 2 && chunk == 2 && n >= 6 && SAMPLES[0].load(std::sync::atomic::Ordering::Relaxed) < 2 && take_sample(0) {
                                let c = Case::Stream { file: String::from_utf8(file.clone()).unwrap(), cuts: cuts.clone(), chunk, trailing_empty: te };
                                let outs: Vec<String> = outs.iter().map(|o| show(o.as_ref().unwrap())).collect();
                                ctx.sample(json!({"case": c, "outputs": outs}));
                            }
                        }
                        Err(what) => {
                            let c = Case::Stream { file: String::from_utf8(file.clone()).unwrap(), cuts, chunk, trailing_empty: te };
                            let j = serde_json::to_value(&c).unwrap();
                            ctx.violation(format!("stream:{j}"), what, j);
                        }
                    }
                };
                for c1 in 0..=n {
                    one(vec![c1]);
                }
                for c1 in 0..=n {
                    for c2 in c1..=n {
                        one(vec![c1, c2]);
                    }
                }
            }
            ctx.evals(cases);
            ctx.count("stream_cases", cases);
            ctx.count("stream_cases_with_straddling_cut", straddling);
            ctx.count("stream_ownership_rule_mismatch", rule_mismatch);
            if any_straddle {
                ctx.nontrivial(&("stream", &file));
            }
        });
    }
}

// ---------------------------------------------------------------------------
// lookahead part
// ---------------------------------------------------------------------------

fn look_file(pre: usize, long: usize, post: usize, final_nl: bool) -> Vec<u8> {
    let mut f = vec![];
    for _ in 0..pre {
        f.extend_from_slice(b"ab\n");
    }
    f.extend(std::iter::repeat_n(b'A', long));
    f.push(b'\n');
    for _ in 0..post {
        f.extend_from_slice(b"cd\n");
    }
    if !final_nl {
        f.pop();
    }
    f
}

fn interesting_cuts(file: &[u8], d: usize) -> Vec<usize> {
    let n = file.len() as i64;
    let d = d as i64;
    let mut s = BTreeSet::new();
    let mut around = |p: i64| {
        for c in p - d..=p + d + 1 {
            if c >= 0 && c <= n {
                s.insert(c as usize);
            }
        }
    };
    around(0);
    around(n);
    for j in 1..=2 {
        around(j * L as i64);
    }
    for (p, b) in file.iter().enumerate() {
        if *b == b'\n' {
            around(p as i64);
            for j in 1..=2 {
                around(p as i64 - j * L as i64);
            }
        }
    }
    s.into_iter().collect()
}

fn explore_lookahead(ctx: &Ctx) {
    let d = ctx.pick(2, 3);
    let longs: Vec<usize> = if ctx.quick() { vec![L - 1, L + 5, 2 * L + 5] } else { vec![L - 1, L, L + 1, L + 5, 2 * L, 2 * L + 5] };
    let chunks: Vec<usize> = if ctx.quick() { vec![7, 4096, 0] } else { vec![7, 4096, 16384, 0] };
    let posts: Vec<usize> = if ctx.quick() { vec![0, 2] } else { vec![0, 1, 2] };
    ctx.set_extra(
        "bounds_lookahead",
        json!({"files": "pre x 'ab\\n' + long x 'A' + '\\n' + post x 'cd\\n', with / without final newline", "pre": [0, 1], "long": longs, "post": posts,
               "cuts": format!("2- and 3-range splits with every cut within +-{d} of: 0, len, each newline, each newline - j*16384 (j=1,2), j*16384"), "chunk_sizes(0=whole)": chunks}),
    );
    let mut configs = vec![];
    for &long in &longs {
        for pre in [0usize, 1] {
            for &post in &posts {
                for final_nl in [true, false] {
                    for &chunk in &chunks {
                        configs.push((pre, long, post, final_nl, chunk));
                    }
                }
            }
        }
    }
    configs.par_iter().for_each(|&(pre, long, post, final_nl, chunk)| {
        if ctx.should_stop() {
            return;
        }
        let file = look_file(pre, long, post, final_nl);
        let n = file.len();
        let cuts = interesting_cuts(&file, d);
        let store = make_store(&file, chunk, false);
        let mut memo: HashMap<(usize, usize), Result<Vec<u8>, String>> = HashMap::new();
        let mut splits: Vec<Vec<usize>> = cuts.iter().map(|c| vec![*c]).collect();
        for (i, c1) in cuts.iter().enumerate() {
            for c2 in &cuts[i..] {
                splits.push(vec![*c1, *c2]);
            }
        }
        let mut cases = 0u64;
        let mut overflow = 0u64;
        for sp in splits {
            let b = bounds_of(&sp, n);
            for i in 0..b.len() - 1 {
                memo.entry((b[i], b[i + 1])).or_insert_with(|| stream_range(&store, b[i] as u64, b[i + 1] as u64, n as u64));
            }
            let outs: Vec<&Result<Vec<u8>, String>> = (0..b.len() - 1).map(|i| &memo[&(b[i], b[i + 1])]).collect();
            cases += 1;
            // non-trivial: some range must look beyond its initial fetch window
            // [.., end + 16 KiB) to find its terminator
            let needs_overflow = (0..b.len() - 1).any(|i| {
                let (s, e) = (b[i], b[i + 1]);
                s < e && e < n && e + L < n && !file[e - 1..e + L].contains(&b'\n')
            });
            if needs_overflow {
                overflow += 1;
                ctx.nontrivial(&("lookahead", pre, long, post, final_nl, &sp));
            }
            match check_split(&file, &b, &outs) {
                Ok(_) => {
                    if needs_overflow && sp.len() == 2 && chunk == 7 && take_sample(1) {
                        let c = Case::Lookahead { pre, long, post, final_nl, cuts: sp.clone(), chunk };
                        let lens: Vec<usize> = outs.iter().map(|o| o.as_ref().unwrap().len()).collect();
                        ctx.sample(json!({"case": c, "file_len": n, "output_lengths": lens}));
                    }
                }
                Err(what) => {
                    let c = Case::Lookahead { pre, long, post, final_nl, cuts: sp, chunk };
                    let j = serde_json::to_value(&c).unwrap();
                    ctx.violation(format!("lookahead:{j}"), what, j);
                }
            }
        }
        ctx.evals(cases);
        ctx.count("lookahead_cases", cases);
        ctx.count("lookahead_cases_needing_overflow_get", overflow);
    });
}

// ---------------------------------------------------------------------------
// scan part (end to end)
// ---------------------------------------------------------------------------

type RowT = (i64, Option<String>);

struct ScanOut {
    /// rows per output partition
    parts: Vec<Vec<RowT>>,
    /// (file index, start, end) of every ranged file in the plan, by group
    ranges: Vec<Vec<(usize, i64, i64)>>,
}

fn find_scan(plan: &Arc<dyn ExecutionPlan>) -> Option<Vec<Vec<(usize, i64, i64)>>> {
    if let Some(ds) = plan.downcast_ref::<DataSourceExec>() {
        let cfg = ds.data_source().downcast_ref::<FileScanConfig>()?;
        let mut out = vec![];
        for g in &cfg.file_groups {
            let mut v = vec![];
            for f in g.files() {
                let name = f.object_meta.location.filename().unwrap_or("").to_string();
                let idx: usize = name.trim_start_matches('f').split('.').next().and_then(|s| s.parse().ok()).unwrap_or(usize::MAX);
                let (s, e) = match &f.range {
                    Some(r) => (r.start, r.end),
                    None => (0, f.object_meta.size as i64),
                };
                v.push((idx, s, e));
            }
            out.push(v);
        }
        return Some(out);
    }
    plan.children().into_iter().find_map(find_scan)
}

fn scan(fmt: Fmt, files: &[String], header: bool, tp: usize, chunk: usize, ordered: bool, batch_size: usize) -> Result<ScanOut, String> {
    let ext = match fmt {
        Fmt::Csv => "csv",
        Fmt::Json => "json",
    };
    let objs: Vec<(Path, Bytes)> = files
        .iter()
        .enumerate()
        .map(|(i, f)| (Path::from(format!("t/f{i}.{ext}")), Bytes::copy_from_slice(f.as_bytes())))
        .collect();
    let store: Arc<dyn ObjectStore> = Arc::new(ChunkStore::new(objs, chunk, false));
    let mut cfg = SessionConfig::new()
        .with_target_partitions(tp)
        .with_repartition_file_scans(true)
        .with_repartition_file_min_size(0);
    if batch_size > 0 {
        cfg = cfg.with_batch_size(batch_size);
    }
    let ctx = SessionContext::new_with_config(cfg);
    ctx.register_object_store(&url::Url::parse("chk://s").unwrap(), store);
    let order = if ordered { "WITH ORDER (a ASC)" } else { "" };
    let ddl = match fmt {
        Fmt::Csv => format!(
            "CREATE EXTERNAL TABLE t (a BIGINT, b VARCHAR) STORED AS CSV {order} LOCATION 'chk://s/t/' OPTIONS ('format.has_header' '{header}')"
        ),
        Fmt::Json => format!("CREATE EXTERNAL TABLE t (a BIGINT, b VARCHAR) STORED AS JSON {order} LOCATION 'chk://s/t/'"),
    };
    let q = if ordered { "SELECT a, b FROM t ORDER BY a" } else { "SELECT a, b FROM t" };
    block_on(async {
        ctx.sql(&ddl).await.map_err(|e| format!("ddl: {e}"))?.collect().await.map_err(|e| format!("ddl: {e}"))?;
        let df = ctx.sql(q).await.map_err(|e| format!("plan: {e}"))?;
        let plan = df.create_physical_plan().await.map_err(|e| format!("physical plan: {e}"))?;
        let ranges = find_scan(&plan).ok_or_else(|| "no DataSourceExec/FileScanConfig in plan".to_string())?;
        let batches = collect_partitioned(plan, ctx.task_ctx()).await.map_err(|e| format!("execute: {e}"))?;
        let mut parts = vec![];
        for p in batches {
            let mut rows = vec![];
            for b in p {
                let a = b.column(0).as_primitive_opt::<Int64Type>().ok_or("column a is not Int64")?.clone();
                let s = datafusion::arrow::compute::cast(b.column(1), &DataType::Utf8).map_err(|e| e.to_string())?;
                let s = s.as_string::<i32>();
                for i in 0..b.num_rows() {
                    if a.is_null(i) {
                        return Err(format!("NULL id in row {i}"));
                    }
                    rows.push((a.value(i), if s.is_null(i) { None } else { Some(s.value(i).to_string()) }));
                }
            }
            parts.push(rows);
        }
        Ok(ScanOut { parts, ranges })
    })
}

struct ScanStats {
    straddle: bool,
    ranged_files: usize,
    rows: usize,
}

/// `Ok(None)`: the single-partition scan itself fails (case skipped, counted).
fn run_scan_case(fmt: Fmt, files: &[String], header: bool, tp: usize, chunk: usize, ordered: bool, batch_size: usize) -> Result<Option<ScanStats>, String> {
    let twin = match mc_core::catch(|| scan(fmt, files, header, 1, 0, false, 0)).unwrap_or_else(Err) {
        Ok(t) => t,
        Err(_) => return Ok(None),
    };
    let mut expect: Vec<RowT> = twin.parts.into_iter().flatten().collect();
    expect.sort();
    let got = mc_core::catch(|| scan(fmt, files, header, tp, chunk, ordered, batch_size))
        .unwrap_or_else(Err)
        .map_err(|e| format!("single-partition scan returns {} rows but the {tp}-partition scan fails: {e}", expect.len()))?;
    // the ranges of every file tile it
    let mut per_file: BTreeMap<usize, Vec<(i64, i64)>> = BTreeMap::new();
    for g in &got.ranges {
        for (f, s, e) in g {
            per_file.entry(*f).or_default().push((*s, *e));
        }
    }
    let mut straddle = false;
    let mut ranged = 0;
    for (f, rs) in per_file.iter_mut() {
        rs.sort();
        if rs.len() > 1 {
            ranged += 1;
        }
        let content = files.get(*f).ok_or("plan mentions an unknown file")?.as_bytes();
        for (s, _) in rs.iter() {
            let s = *s as usize;
            if s > 0 && s < content.len() && content[s - 1] != b'\n' {
                straddle = true;
            }
        }
    }
    let desc = || format!("plan ranges (file, start, end) per partition: {:?}", got.ranges);
    // same rows
    let mut all: Vec<RowT> = got.parts.iter().flatten().cloned().collect();
    if ordered {
        if all.windows(2).any(|w| w[0].0 > w[1].0) {
            return Err(format!("ORDER BY a over a table declared WITH ORDER (a): output not sorted: {:?}; {}", all, desc()));
        }
    } else {
        // file order within a partition: ids of one file ascend
        for (pi, p) in got.parts.iter().enumerate() {
            let mut last: BTreeMap<i64, i64> = BTreeMap::new();
            for (id, _) in p {
                let f = id / 100;
                if let Some(prev) = last.get(&f) {
                    if prev >= id {
                        return Err(format!("partition {pi}: record {id} after record {prev} of the same file; {}", desc()));
                    }
                }
                last.insert(f, *id);
            }
        }
    }
    all.sort();
    if all != expect {
        return Err(format!("{tp}-partition scan rows {:?} != single-partition scan rows {:?}; {}", all, expect, desc()));
    }
    Ok(Some(ScanStats { straddle, ranged_files: ranged, rows: expect.len() }))
}

/// element of a generated file: a record with a payload of the given length, or a blank line
#[derive(Clone, Copy, PartialEq)]
enum El {
    Rec(usize),
    Blank,
}

fn render_file(fmt: Fmt, file_idx: usize, els: &[El], crlf: bool, final_nl: bool, header: bool) -> String {
    let nl = if crlf { "\r\n" } else { "\n" };
    let mut lines: Vec<String> = vec![];
    if header && fmt == Fmt::Csv {
        lines.push("a,b".to_string());
    }
    let mut id = file_idx * 100;
    for e in els {
        match e {
            El::Blank => lines.push(String::new()),
            El::Rec(k) => {
                let payload = &"xyzw"[..*k];
                lines.push(match fmt {
                    Fmt::Csv => format!("{id},{payload}"),
                    Fmt::Json => format!("{{\"a\":{id},\"b\":\"{payload}\"}}"),
                });
                id += 1;
            }
        }
    }
    let mut s = lines.join(nl);
    if final_nl && !lines.is_empty() {
        s.push_str(nl);
    }
    s
}

fn explore_scans(ctx: &Ctx) {
    let max_els = ctx.pick(3, 4);
    let chunks: Vec<usize> = if ctx.quick() { vec![0, 1, 3] } else { vec![0, 1, 2, 3, 5] };
    let alpha = [El::Rec(0), El::Rec(1), El::Rec(3), El::Blank];
    let seqs = mc_core::enumerate::sequences(&alpha, 1, max_els);
    ctx.set_extra(
        "bounds_scan",
        json!({"formats": ["CSV", "NDJSON"], "single_file": format!("every sequence of 1..={max_els} lines over {{record with payload length 0/1/3, blank line}} x {{LF, CRLF}} x final newline yes/no x CSV header yes/no"),
               "multi_file": "2 files (thorough: also 3) each a sequence of 1..=2 lines over {record payload 1/3, blank}, LF, final newline",
               "target_partitions": [2, 3, 4], "chunk_sizes(0=whole)": chunks, "ordered (WITH ORDER + ORDER BY, SortPreservingMerge path)": "chunk whole only",
               "batch_size": "default; single-file cases also with 1", "reference": "same table, target_partitions=1, unchunked"}),
    );
    let mut cases: Vec<Case> = vec![];
    let mut push = |fmt: Fmt, files: Vec<String>, header: bool, single: bool| {
        for tp in [2usize, 3, 4] {
            for &chunk in &chunks {
                cases.push(Case::Scan { fmt, files: files.clone(), header, tp, chunk, ordered: false, batch_size: 0 });
            }
            cases.push(Case::Scan { fmt, files: files.clone(), header, tp, chunk: 0, ordered: true, batch_size: 0 });
            if single {
                cases.push(Case::Scan { fmt, files: files.clone(), header, tp, chunk: 2, ordered: false, batch_size: 1 });
            }
        }
    };
    let mut seen = BTreeSet::new();
    for fmt in [Fmt::Csv, Fmt::Json] {
        for s in &seqs {
            for crlf in [false, true] {
                for final_nl in [true, false] {
                    for header in [false, true] {
                        if header && fmt == Fmt::Json {
                            continue;
                        }
                        let f = render_file(fmt, 0, s, crlf, final_nl, header);
                        if f.is_empty() || !seen.insert((fmt as u8, header, f.clone())) {
                            continue;
                        }
                        push(fmt, vec![f], header, true);
                    }
                }
            }
        }
    }
    let small = mc_core::enumerate::sequences(&[El::Rec(1), El::Rec(3), El::Blank], 1, 2);
    for fmt in [Fmt::Csv, Fmt::Json] {
        for a in &small {
            for b in &small {
                let fa = render_file(fmt, 0, a, false, true, false);
                let fb = render_file(fmt, 1, b, false, true, false);
                push(fmt, vec![fa.clone(), fb.clone()], false, false);
                if ctx.thorough() {
                    for c in &small {
                        let fc = render_file(fmt, 2, c, false, true, false);
                        push(fmt, vec![fa.clone(), fb.clone(), fc], false, false);
                    }
                }
            }
        }
    }
    cases.par_iter().for_each(|c| {
        if ctx.should_stop() {
            return;
        }
        let Case::Scan { fmt, files, header, tp, chunk, ordered, batch_size } = c else { unreachable!() };
        ctx.eval();
        ctx.count("scan_cases", 1);
        match run_scan_case(*fmt, files, *header, *tp, *chunk, *ordered, *batch_size) {
            Ok(None) => ctx.count("scan_cases_skipped_single_partition_scan_fails", 1),
            Ok(Some(st)) => {
                if st.ranged_files > 0 {
                    ctx.count("scan_cases_with_a_file_split_into_ranges", 1);
                }
                if st.straddle && st.rows > 0 {
                    ctx.count("scan_cases_with_straddling_boundary", 1);
                    ctx.nontrivial(&("scan", *fmt as u8, files, header, tp, ordered));
                    if files.len() == 2 && *chunk == 1 && take_sample(2) {
                        ctx.sample(serde_json::to_value(c).unwrap());
                    }
                }
            }
            Err(what) => {
                let j = serde_json::to_value(c).unwrap();
                ctx.violation(format!("scan:{j}"), what, j);
            }
        }
    });
}

// ---------------------------------------------------------------------------
// groups part
// ---------------------------------------------------------------------------

fn run_groups_case(groups: &[Vec<u64>], tp: usize, min_size: usize, preserve_order: bool) -> Result<bool, String> {
    let mut sizes: BTreeMap<String, u64> = BTreeMap::new();
    let mut k = 0;
    let input: Vec<FileGroup> = groups
        .iter()
        .map(|g| {
            FileGroup::new(
                g.iter()
                    .map(|sz| {
                        let name = format!("f{k}");
                        k += 1;
                        sizes.insert(name.clone(), *sz);
                        PartitionedFile::new(name, *sz)
                    })
                    .collect(),
            )
        })
        .collect();
    let out = FileGroupPartitioner::new()
        .with_target_partitions(tp)
        .with_repartition_file_min_size(min_size)
        .with_preserve_order_within_groups(preserve_order)
        .repartition_file_groups(&input);
    let Some(out) = out else { return Ok(false) };
    let mut per: BTreeMap<String, Vec<(u64, u64)>> = BTreeMap::new();
    for g in &out {
        for f in g.files() {
            let name = f.object_meta.location.to_string();
            let size = *sizes.get(&name).ok_or_else(|| format!("unknown file {name} in output"))?;
            let (s, e) = match &f.range {
                Some(r) => {
                    if r.start < 0 || r.end < r.start {
                        return Err(format!("file {name}: malformed range [{},{})", r.start, r.end));
                    }
                    (r.start as u64, r.end as u64)
                }
                None => (0, size),
            };
            per.entry(name).or_default().push((s, e));
        }
    }
    let mut split = false;
    for (name, size) in &sizes {
        let mut rs = per.remove(name).unwrap_or_default();
        rs.sort();
        rs.retain(|(s, e)| s != e);
        if rs.len() > 1 {
            split = true;
        }
        let mut pos = 0;
        for (s, e) in &rs {
            if *s != pos {
                return Err(format!("file {name} (size {size}): ranges {rs:?} do not tile [0,{size}) (gap or overlap at {pos})"));
            }
            pos = *e;
        }
        if pos != *size {
            return Err(format!("file {name} (size {size}): ranges {rs:?} end at {pos}"));
        }
    }
    Ok(split)
}

fn explore_groups(ctx: &Ctx) {
    let sizes: Vec<u64> = if ctx.quick() { vec![0, 1, 2, 3, 5, 8] } else { vec![0, 1, 2, 3, 4, 5, 7, 8, 13] };
    let lists = mc_core::enumerate::sequences(&sizes, 1, 3);
    let tps: Vec<usize> = (1..=ctx.pick(5, 6)).collect();
    ctx.set_extra(
        "bounds_groups",
        json!({"file_sizes": sizes, "files": "1..=3", "initial_grouping": "every cut of the file list into consecutive groups", "target_partitions": tps,
               "repartition_file_min_size": [0, 4, 100], "preserve_order_within_groups": [false, true]}),
    );
    let mut cases = vec![];
    for l in &lists {
        for sp in mc_core::enumerate::splits(l.len(), 3) {
            let groups = mc_core::enumerate::apply_split(l, &sp);
            for &tp in &tps {
                for min_size in [0usize, 4, 100] {
                    for preserve_order in [false, true] {
                        cases.push(Case::Groups { groups: groups.clone(), tp, min_size, preserve_order });
                    }
                }
            }
        }
    }
    cases.par_iter().for_each(|c| {
        let Case::Groups { groups, tp, min_size, preserve_order } = c else { unreachable!() };
        ctx.eval();
        ctx.count("groups_cases", 1);
        match mc_core::catch(|| run_groups_case(groups, *tp, *min_size, *preserve_order)).unwrap_or_else(Err) {
            Ok(split) => {
                if split {
                    ctx.count("groups_cases_with_a_split_file", 1);
                    ctx.nontrivial(&("groups", groups, tp, min_size, preserve_order));
                }
            }
            Err(what) => {
                let j = serde_json::to_value(c).unwrap();
                ctx.violation(format!("groups:{j}"), what, j);
            }
        }
    });
}

// ---------------------------------------------------------------------------

fn explore(ctx: &Ctx) {
    let only = std::env::var("C26_PART").ok();
    let want = |p: &str| only.as_deref().map(|o| o == p).unwrap_or(true);
    if want("groups") {
        explore_groups(ctx);
    }
    if want("scan") {
        explore_scans(ctx);
    }
    if want("lookahead") {
        explore_lookahead(ctx);
    }
    if want("stream") {
        explore_streams(ctx);
    }
    if only.is_some() {
        // development aid: a partial run never claims to be exhaustive
        ctx.mark_capped("C26_PART restricts the run to one part");
    }
}

fn replay(v: &Json) -> Result<(), String> {
    let c: Case = serde_json::from_value(v.clone()).map_err(|e| format!("bad case: {e}"))?;
    match c {
        Case::Stream { file, cuts, chunk, trailing_empty } => {
            mc_core::catch(|| run_stream_case(file.as_bytes(), &cuts, chunk, trailing_empty)).unwrap_or_else(Err).map(|_| ())
        }
        Case::Lookahead { pre, long, post, final_nl, cuts, chunk } => {
            let f = look_file(pre, long, post, final_nl);
            mc_core::catch(|| run_stream_case(&f, &cuts, chunk, false)).unwrap_or_else(Err).map(|_| ())
        }
        Case::Scan { fmt, files, header, tp, chunk, ordered, batch_size } => {
            run_scan_case(fmt, &files, header, tp, chunk, ordered, batch_size).map(|_| ())
        }
        Case::Groups { groups, tp, min_size, preserve_order } => {
            mc_core::catch(|| run_groups_case(&groups, tp, min_size, preserve_order)).unwrap_or_else(Err).map(|_| ())
        }
    }
}

fn main() {
    mc_core::quiet_panics();
    run_check(
        "C26",
        Level::Exploration,
        "stream: every file over {a,\\n,\\r} up to the length bound x every cut into 2 and 3 consecutive byte ranges x 5 chunk modes, each range read by a real AlignedBoundaryStream; \
         lookahead: files with a line longer than END_SCAN_LOOKAHEAD x every cut near newlines / 16 KiB multiples; scan: CSV/NDJSON external tables repartitioned into 2..4 byte-range partitions vs the 1-partition scan; \
         groups: FileGroupPartitioner outputs tile every file. Non-trivial = (stream) distinct files having a cut strictly inside a record, (lookahead) splits where a range needs an overflow GET, \
         (scan) distinct tables whose planned ranges start strictly inside a record, (groups) configurations that split a file",
        explore,
        replay,
    );
}
