//! C39 — data-modifying statements on memory tables follow SQL semantics.
//!
//! Style H: breadth-first search over statement histories on a real
//! `SessionContext` with MemTables.  A state is the history reaching it (each
//! step builds a fresh context and replays the history); states are
//! de-duplicated by the canonical contents of `t` *per root* (initial table
//! contents + physical layout), so the physical layout reached along the first
//! history stands for the state.  After every statement the reported row count
//! is compared with the reference model, after the last one also the table
//! contents (`SELECT * FROM t` as a multiset).
use chk_sql::sqlmc::ast::*;
use chk_sql::sqlmc::db::{self, Database, Domain};
use chk_sql::sqlmc::dml::{self, Stmt};
use chk_sql::sqlmc::value::{Row, Value, canonical_rows, show_rows};
use chk_sql::sqlmc::{ContextOptions, Layout, engine, same_multiset};
use mc_core::explore::{Step, bfs_histories};
use mc_core::serde_json::{Value as Json, json};
use mc_core::{Ctx, Level, rayon::prelude::*, run_check};
use serde::{Deserialize, Serialize};

#[derive(Serialize, Deserialize, Clone, Debug)]
struct Case {
    initial: Database,
    layout: Layout,
    history: Vec<Stmt>,
}

fn a() -> Expr {
    col("a")
}
fn b() -> Expr {
    col("b")
}

/// WHERE predicates (C04-style, including NULL-producing ones).
fn preds() -> Vec<Expr> {
    vec![
        eq(a(), int(1)),
        bin(BinOp::Lt, a(), b()),
        is_null(b()),
        not(eq(a(), b())),
        Expr::InList { e: Box::new(a()), list: vec![int(1), null()], negated: false },
        Expr::InList { e: Box::new(a()), list: vec![int(2), null()], negated: true },
        or(is_null(a()), bin(BinOp::Gt, b(), int(1))),
        bin(BinOp::IsDistinctFrom, a(), b()),
    ]
}

fn alphabet(thorough: bool) -> Vec<Stmt> {
    let t = || "t".to_string();
    let i = Value::Int;
    let mut out = vec![
        Stmt::InsertValues { table: t(), rows: vec![vec![i(1), i(2)]] },
        Stmt::InsertValues { table: t(), rows: vec![vec![Value::Null, i(1)], vec![i(2), Value::Null]] },
        Stmt::InsertValues { table: t(), rows: vec![vec![i(1), i(1)], vec![i(1), i(1)]] },
        Stmt::InsertSelect { table: t(), query: Select::new(vec![item(a()), item(b())], table("t")).query() },
        Stmt::InsertSelect { table: t(), query: Select::new(vec![item(a()), item_as(bin(BinOp::Add, a(), int(1)), "b")], table("u")).filter(is_not_null(col("c"))).query() },
        Stmt::InsertSelect { table: t(), query: Select::new(vec![item(b()), item(a())], table("t")).filter(bin(BinOp::Lt, a(), b())).query() },
    ];
    // assignments: literal, other column, a+1, b+a; lists that reference the *other* assigned column
    let sets: Vec<Vec<(String, Expr)>> = vec![
        vec![("a".into(), int(3))],
        vec![("a".into(), b())],
        vec![("a".into(), bin(BinOp::Add, a(), int(1))), ("b".into(), a())],
        vec![("b".into(), bin(BinOp::Add, b(), a())), ("a".into(), b())],
        vec![("a".into(), null())],
        vec![("b".into(), bin(BinOp::Add, a(), int(1)))],
        vec![("a".into(), b()), ("b".into(), a())],
    ];
    let ps = preds();
    if thorough {
        for s in &sets {
            out.push(Stmt::Update { table: t(), set: s.clone(), where_: None });
            for p in &ps {
                out.push(Stmt::Update { table: t(), set: s.clone(), where_: Some(p.clone()) });
            }
        }
        out.push(Stmt::Delete { table: t(), where_: None });
        for p in &ps {
            out.push(Stmt::Delete { table: t(), where_: Some(p.clone()) });
        }
    } else {
        // quick: every assignment list without WHERE and with one predicate (rotating through the menu)
        out.truncate(5);
        for (k, s) in sets.iter().enumerate() {
            out.push(Stmt::Update { table: t(), set: s.clone(), where_: None });
            out.push(Stmt::Update { table: t(), set: s.clone(), where_: Some(ps[k % ps.len()].clone()) });
        }
        out.push(Stmt::Update { table: t(), set: sets[2].clone(), where_: Some(ps[7].clone()) });
        out.push(Stmt::Delete { table: t(), where_: None });
        for p in ps.iter().take(5) {
            out.push(Stmt::Delete { table: t(), where_: Some(p.clone()) });
        }
    }
    out
}

fn u_rows() -> Vec<Row> {
    vec![vec![Value::Int(2), Value::text("a")], vec![Value::Null, Value::text("b")], vec![Value::Int(1), Value::Null]]
}

/// Replay `history` on a fresh context; `Ok(final contents of t)`.
fn run_history(c: &Case) -> Result<Vec<Row>, String> {
    let opts = ContextOptions { layout: c.layout.clone(), ..Default::default() };
    let sctx = engine::make_context(&c.initial, &opts)?;
    let mut model = c.initial.clone();
    for (k, st) in c.history.iter().enumerate() {
        let sql = st.sql();
        let expect = dml::apply(&mut model, st).map_err(|e| format!("reference cannot apply `{sql}`: {e}"))?;
        let got = engine::run_sql(&sctx, &sql).map_err(|e| format!("step {k} `{sql}` failed: {e}"))?;
        let n = match got.rows.as_slice() {
            [r] if r.len() == 1 => match &r[0] {
                Value::Int(n) => *n as u64,
                other => return Err(format!("step {k} `{sql}`: count cell is {other:?}")),
            },
            other => return Err(format!("step {k} `{sql}`: expected one count row, got {}", show_rows(other))),
        };
        if n != expect {
            return Err(format!("step {k} `{sql}`: reported count {n}, reference {expect} (table before the statement is in the case)"));
        }
        if k + 1 == c.history.len() {
            let content = engine::run_sql(&sctx, "SELECT * FROM t").map_err(|e| format!("SELECT * FROM t after step {k} failed: {e}"))?;
            let want = &model.table("t").unwrap().rows;
            if !same_multiset(&content.rows, want) {
                return Err(format!("after step {k} `{sql}`: t = {}, reference {}", show_rows(&canonical_rows(&content.rows)), show_rows(&canonical_rows(want))));
            }
            // u must be untouched (checked on one-statement histories)
            if c.history.len() > 1 {
                continue;
            }
            let ucontent = engine::run_sql(&sctx, "SELECT * FROM u").map_err(|e| format!("SELECT * FROM u failed: {e}"))?;
            if !same_multiset(&ucontent.rows, &model.table("u").unwrap().rows) {
                return Err(format!("after step {k} `{sql}`: table u changed to {}", show_rows(&ucontent.rows)));
            }
        }
    }
    Ok(canonical_rows(&model.table("t").unwrap().rows))
}

fn explore(ctx: &Ctx) {
    // every root is explored to `full_depth`; roots with <= 1 initial row in the plain layout go one
    // statement deeper, extending only histories whose previous statement changed the table
    let depth = ctx.pick(3usize, 4usize);
    let full_depth = ctx.pick(2usize, 3usize);
    let d = Domain::quick();
    let ops = alphabet(ctx.thorough());
    // roots: every instance of t with <= 2 rows x layouts
    let mut roots: Vec<(Database, Layout)> = vec![];
    for rows in db::table_instances("t", 2, &d) {
        let base = Database::empty().with_rows("t", rows.clone()).with_rows("u", u_rows());
        roots.push((base.clone(), Layout::Single));
        roots.push((base.clone(), Layout::RoundRobin { partitions: 2, batch_rows: 0 }));
        if rows.len() == 2 {
            roots.push((base.clone(), Layout::RoundRobin { partitions: 1, batch_rows: 1 }));
        }
    }
    ctx.set_extra(
        "bounds",
        json!({"max_history": depth, "full_depth_all_roots": full_depth, "deeper_roots": "plain layout, <= 1 initial row; only histories whose previous statement changed t are extended", "alphabet": ops.len(), "roots": roots.len(),
               "initial_t": "all multisets of <= 2 rows over Int {NULL,1,2}", "u": show_rows(&u_rows()),
               "layouts": "1 partition/1 batch; 2 partitions round-robin; 1 partition/2 batches (2-row tables)",
               "statements": ops.iter().map(|s| s.sql()).collect::<Vec<_>>()}),
    );
    roots.par_iter().for_each(|(initial, layout)| {
        if ctx.should_stop() {
            return;
        }
        // contents of t reached by each explored history prefix (to decide "changed the table")
        let deep_root = *layout == Layout::Single && initial.table("t").unwrap().rows.len() <= 1;
        let stats = bfs_histories(
            &ops,
            if deep_root { depth } else { full_depth },
            |hist: &[Stmt]| {
                let case = Case { initial: initial.clone(), layout: layout.clone(), history: hist.to_vec() };
                if hist.len() > full_depth {
                    // extend only if the previous statement changed the table
                    let mut m = initial.clone();
                    let mut before = canonical_rows(&m.table("t").unwrap().rows);
                    let mut changed_last = true;
                    for (k, st) in hist[..hist.len() - 1].iter().enumerate() {
                        let _ = dml::apply(&mut m, st);
                        let after = canonical_rows(&m.table("t").unwrap().rows);
                        if k + 2 == hist.len() {
                            changed_last = after != before;
                        }
                        before = after;
                    }
                    if !changed_last {
                        return Step::Disabled;
                    }
                }
                ctx.eval();
                match mc_core::catch(|| run_history(&case)).unwrap_or_else(Err) {
                    Ok(content) => {
                        if !hist.is_empty() {
                            // non-trivial: the last statement affected some but not all rows, or inserted rows
                            let mut m = initial.clone();
                            for st in &hist[..hist.len() - 1] {
                                let _ = dml::apply(&mut m, st);
                            }
                            let before = m.table("t").unwrap().rows.len() as u64;
                            let n = dml::apply(&mut m, hist.last().unwrap()).unwrap_or(0);
                            if n > 0 && (n < before || matches!(hist.last().unwrap(), Stmt::InsertValues { .. } | Stmt::InsertSelect { .. })) {
                                ctx.nontrivial(&(initial, layout, hist));
                                if hist.len() >= 2 && ctx.want_sample() {
                                    ctx.sample(json!({"initial_t": show_rows(&initial.table("t").unwrap().rows), "layout": format!("{layout:?}"),
                                        "history": hist.iter().map(|s| s.sql()).collect::<Vec<_>>(), "final_t": show_rows(&content)}));
                                }
                            }
                        }
                        Step::Ok(content)
                    }
                    Err(w) => Step::Violation(w),
                }
            },
            || ctx.should_stop(),
            |hist, what| {
                let case = Case { initial: initial.clone(), layout: layout.clone(), history: hist.to_vec() };
                let key = format!("{:?} t={} :: {}", layout, show_rows(&initial.table("t").unwrap().rows), hist.iter().map(|s| s.sql()).collect::<Vec<_>>().join("; "));
                ctx.violation(key, what, serde_json::to_value(&case).unwrap());
            },
        );
        ctx.add_states(stats.states);
        ctx.add_transitions(stats.transitions);
        if !stats.complete {
            ctx.mark_capped("wall cap or violation cap reached inside a BFS");
        }
    });
}

fn replay(v: &Json) -> Result<(), String> {
    let c: Case = serde_json::from_value(v.clone()).map_err(|e| format!("bad case: {e}"))?;
    mc_core::catch(|| run_history(&c)).unwrap_or_else(Err).map(|_| ())
}

fn main() {
    mc_core::quiet_panics();
    run_check(
        "C39",
        Level::ModelChecking,
        "BFS over INSERT/UPDATE/DELETE histories on MemTables from every initial table t (<= 2 rows) x physical layout; states = distinct canonical table contents per root, \
         transitions = histories executed on a fresh SessionContext (count of every statement and final SELECT * compared with the reference model); \
         non-trivial = the last statement inserted rows or affected some but not all rows",
        explore,
        replay,
    );
}
