//! C35 — logical plans, expressions and scalar values survive protobuf serialisation unchanged.
//!
//! Three enumerations, one oracle each (DESIGN §4.1):
//! * **plans**: every grammar query (tier list) × {unoptimised, optimised} logical plan × the 12
//!   rich databases: `logical_plan_to_bytes_with_extension_codec` in session A, decoded with
//!   `logical_plan_from_bytes_with_extension_codec` in a *fresh* session B holding the same tables
//!   (MemTables are not serialisable by the default codec, so a by-name table codec — the standard
//!   way to ship catalog tables — resolves `t`, `u`, `w` in session B).  Demanded:
//!   `display_indent_schema` and `{:?}` of the decoded plan equal the original's, and executing the
//!   decoded plan in B gives the same result as executing the original in A.  An encoder error is
//!   a counted rejection; a decoder error after a successful encode, or any silent change, is a
//!   violation.  The default-codec entry points `logical_plan_to_bytes`/`_from_bytes` are driven
//!   too (they accept the table-free plans; rejections counted).
//! * **expressions**: every distinct (sub-)expression occurring in those plans, plus the
//!   enumerated shapes of `c35/shapes.rs`: `logical_exprs_to_bytes_with_extension_codec` →
//!   `logical_exprs_from_bytes_with_extension_codec` in the fresh session: decoded `==` original
//!   (and `Serializeable::to_bytes/from_bytes_with_ctx` where the expression holds no table).
//! * **scalars**: every `ScalarValue` variant × payload menu, as a literal: decoded `==` original.
//!
//! The JSON wire form needs datafusion-proto's `json` cargo feature, which this workspace does
//! not enable: that sub-part is not checked.
//!
//! Debug helpers: `c35 --sql "<text>" [--opt]` prints both plan texts and the verdict.
#[path = "c35/shapes.rs"]
mod shapes;

use chk_sql::sqlmc::db::{self, Database};
use chk_sql::sqlmc::grammar::{self, GenQuery, QueryFlags, Tier};
use chk_sql::sqlmc::value::show_rows;
use chk_sql::sqlmc::{ContextOptions, OrderSpec, compare_engine_results, engine};
use datafusion::arrow::datatypes::SchemaRef;
use datafusion::catalog::{MemTable, TableProvider};
use datafusion::common::tree_node::{TreeNode, TreeNodeRecursion};
use datafusion::common::{Result as DFResult, TableReference, not_impl_err};
use datafusion::execution::TaskContext;
use datafusion::logical_expr::{Expr, Extension, LogicalPlan};
use datafusion::prelude::SessionContext;
use datafusion_proto::bytes::{
    Serializeable, logical_exprs_from_bytes_with_extension_codec, logical_exprs_to_bytes_with_extension_codec, logical_plan_from_bytes,
    logical_plan_from_bytes_with_extension_codec, logical_plan_to_bytes, logical_plan_to_bytes_with_extension_codec,
};
use datafusion_proto::logical_plan::{DefaultLogicalExtensionCodec, LogicalExtensionCodec};
use mc_core::serde_json::{Value as Json, json};
use mc_core::{Ctx, Level, rayon::prelude::*, run_check};
use serde::{Deserialize, Serialize};
use std::collections::{BTreeMap, HashMap};
use std::sync::{Arc, Mutex};

// ------------------------------------------------------------------ table codec

/// Ships a catalog table by name: the encoder writes a marker for MemTables (and refuses every
/// other provider), the decoder resolves the table reference in the *decoding* session.
#[derive(Debug)]
struct TablesCodec {
    tables: HashMap<String, Arc<dyn TableProvider>>,
    default: DefaultLogicalExtensionCodec,
}

impl TablesCodec {
    fn encoder() -> Self {
        TablesCodec { tables: HashMap::new(), default: DefaultLogicalExtensionCodec {} }
    }
    fn for_session(ctx: &SessionContext, dbv: &Database) -> Result<Self, String> {
        let mut tables = HashMap::new();
        for t in &dbv.tables {
            let p = engine::block_on(ctx.table_provider(t.name.as_str())).map_err(|e| format!("table {} missing in the fresh session: {e}", t.name))?;
            tables.insert(t.name.clone(), p);
        }
        for extra in [EXTRA_TABLE, DOTTED_TABLE] {
            if let Ok(p) = engine::block_on(ctx.table_provider(TableReference::bare(extra))) {
                tables.insert(extra.to_string(), p);
            }
        }
        Ok(TablesCodec { tables, default: DefaultLogicalExtensionCodec {} })
    }
}

const MARK: &[u8] = b"c35:memtable";

impl LogicalExtensionCodec for TablesCodec {
    fn try_decode(&self, buf: &[u8], inputs: &[LogicalPlan], ctx: &TaskContext) -> DFResult<Extension> {
        self.default.try_decode(buf, inputs, ctx)
    }
    fn try_encode(&self, node: &Extension, buf: &mut Vec<u8>) -> DFResult<()> {
        self.default.try_encode(node, buf)
    }
    fn try_decode_table_provider(&self, buf: &[u8], table_ref: &TableReference, _schema: SchemaRef, _ctx: &TaskContext) -> DFResult<Arc<dyn TableProvider>> {
        if buf != MARK {
            return not_impl_err!("harness codec: unknown table payload");
        }
        match self.tables.get(table_ref.table()) {
            Some(p) => Ok(p.clone()),
            None => not_impl_err!("harness codec: table {table_ref} is not registered in the decoding session"),
        }
    }
    fn try_encode_table_provider(&self, _table_ref: &TableReference, node: Arc<dyn TableProvider>, buf: &mut Vec<u8>) -> DFResult<()> {
        if node.downcast_ref::<MemTable>().is_some() {
            buf.extend_from_slice(MARK);
            Ok(())
        } else {
            not_impl_err!("harness codec: only catalog MemTables are shipped by name")
        }
    }
    fn try_decode_file_format(&self, buf: &[u8], ctx: &TaskContext) -> DFResult<Arc<dyn datafusion::datasource::file_format::FileFormatFactory>> {
        self.default.try_decode_file_format(buf, ctx)
    }
    fn try_encode_file_format(&self, buf: &mut Vec<u8>, node: Arc<dyn datafusion::datasource::file_format::FileFormatFactory>) -> DFResult<()> {
        self.default.try_encode_file_format(buf, node)
    }
}

// ------------------------------------------------------------------ cases

#[derive(Serialize, Deserialize, Clone, Debug)]
#[serde(tag = "kind")]
enum Case {
    /// one grammar query, one plan form, one database
    Plan { sql: String, optimized: bool, db_label: String, db: Database, flags: QueryFlags, execute: bool, #[serde(default)] cause: Option<String> },
    /// one (sub-)expression of a grammar query's plan, identified by its `{:?}` text
    PlanExpr { sql: String, optimized: bool, expr_debug: String },
    /// one enumerated expression shape
    Shape { label: String },
    /// one enumerated scalar value
    Scalar { label: String },
}

/// A failed case: `cause` is the stable root-cause key, `what` the observation.
#[derive(Debug, Clone)]
struct Fail {
    cause: String,
    what: String,
}

fn fail<T>(cause: impl Into<String>, what: impl Into<String>) -> Result<T, Fail> {
    Err(Fail { cause: cause.into(), what: what.into() })
}

#[derive(Debug, Default, Clone)]
struct PlanStats {
    planned: bool,
    encode_rejected: Option<String>,
    default_codec_accepted: bool,
    nonempty: bool,
    both_failed: bool,
    struct_eq: bool,
    structure_only: bool,
    rows: usize,
}

/// Error text with the volatile parts (numbers, quoted names, embedded expression text) masked and
/// the nesting wrappers removed: used in root-cause keys and rejection reasons.
fn normalise_error(e: &str) -> String {
    let mut first = e.lines().next().unwrap_or("").to_string();
    for wrapper in ["Error during planning: ", "DataFusion error: ", "General error: ", "Plan(\"", "Internal(\"", "Internal error: "] {
        first = first.replace(wrapper, "");
    }
    first = first.replace("\\\"", "\"");
    if let (Some(p), Some(q)) = (first.find("Proto serialization error: "), first.find(" is not yet supported")) {
        let start = p + "Proto serialization error: ".len();
        if start < q {
            let kind = if first[start..q].contains("outer_ref") {
                "outer reference"
            } else if first[start..q].contains("EXISTS") {
                "EXISTS subquery"
            } else if first[start..q].contains(" IN (") {
                "IN subquery"
            } else if first[start..q].contains("ANY (") || first[start..q].contains("ALL (") {
                "ANY/ALL subquery"
            } else {
                "<expr>"
            };
            first = format!("{}{}{}", &first[..start], kind, &first[q..]);
        }
    }
    let mut out = String::new();
    let mut in_digits = false;
    let mut quote: Option<char> = None;
    for ch in first.chars() {
        if let Some(q) = quote {
            if ch == q {
                quote = None;
                out.push('_');
                out.push(ch);
            }
            continue;
        }
        if ch == '\'' {
            quote = Some(ch);
            out.push(ch);
            continue;
        }
        if ch.is_ascii_digit() {
            if !in_digits {
                out.push('N');
            }
            in_digits = true;
        } else {
            in_digits = false;
            out.push(ch);
        }
    }
    out.trim_end_matches([')', '"']).chars().take(120).collect()
}

/// Which field changed between two `{:?}` texts: the nearest `name:` (or, failing that, the nearest
/// constructor name) before the first differing byte.
fn diff_hint(a: &str, b: &str) -> String {
    let n = a.bytes().zip(b.bytes()).take_while(|(x, y)| x == y).count();
    let cut = a.char_indices().map(|(i, _)| i).take_while(|i| *i <= n).last().unwrap_or(0);
    let (head, tail) = (&a[..cut], &a[cut..]);
    // a field present in the original and missing in the copy: `, field: ..`
    let t = tail.trim_start_matches([',', ' ']);
    let ident: String = t.chars().take_while(|c| c.is_alphanumeric() || *c == '_').collect();
    if !ident.is_empty() && t[ident.len()..].starts_with(": ") {
        return ident;
    }
    // otherwise the innermost enclosing `field: `, else the innermost enclosing constructor
    let ident_before = |i: usize| -> String { head[..i].trim_end().chars().rev().take_while(|c| c.is_alphanumeric() || *c == '_').collect::<String>().chars().rev().collect() };
    let mut fallback: Option<String> = None;
    let mut depth = 0i32;
    let bytes = head.as_bytes();
    let mut i = bytes.len();
    while i > 0 {
        i -= 1;
        match bytes[i] {
            b')' | b'}' | b']' => depth += 1,
            b'(' | b'{' | b'[' => {
                if depth == 0 {
                    let name = ident_before(i);
                    if fallback.is_none() && !name.is_empty() && name != "Some" && name != "Box" {
                        fallback = Some(name);
                    }
                } else {
                    depth -= 1;
                }
            }
            b':' if depth == 0 && i + 1 < bytes.len() && bytes[i + 1] == b' ' => {
                let name = ident_before(i);
                if !name.is_empty() {
                    return name;
                }
            }
            _ => {}
        }
    }
    fallback.unwrap_or_else(|| "?".into())
}

/// The logical node kind a `display_indent` line describes (`  Projection: ..` -> `Projection`).
fn node_kind(line: &str) -> String {
    line.trim_start().split([':', ' ']).next().unwrap_or("").to_string()
}

/// First differing line pair of two plan texts.
fn first_diff(a: &str, b: &str) -> (String, String) {
    let (la, lb): (Vec<&str>, Vec<&str>) = (a.lines().collect(), b.lines().collect());
    for i in 0..la.len().max(lb.len()) {
        let (x, y) = (la.get(i).copied().unwrap_or("<missing>"), lb.get(i).copied().unwrap_or("<missing>"));
        if x != y {
            return (x.trim().to_string(), y.trim().to_string());
        }
    }
    (String::new(), String::new())
}

fn build_plan(ctx: &SessionContext, sql: &str, optimized: bool) -> Result<LogicalPlan, String> {
    let plan = engine::plan_sql(ctx, sql)?;
    if optimized {
        mc_core::catch(|| ctx.state().optimize(&plan).map_err(|e| format!("optimizer error: {e}"))).unwrap_or_else(Err)
    } else {
        Ok(plan)
    }
}

/// DETECTION DEMO switch (see the final report): when set, the decoded plan is corrupted
/// deterministically before it is compared — proves the oracle can fail.
fn demo() -> Option<String> {
    std::env::var("C35_DEMO").ok()
}

fn corrupt_plan(p: LogicalPlan, how: &str) -> LogicalPlan {
    use datafusion::common::tree_node::Transformed;
    match how {
        // drop the fetch of every Sort (a field lost by a to_proto)
        "drop_sort_fetch" => p
            .transform_up(|n| match n {
                LogicalPlan::Sort(mut s) if s.fetch.is_some() => {
                    s.fetch = None;
                    Ok(Transformed::yes(LogicalPlan::Sort(s)))
                }
                n => Ok(Transformed::no(n)),
            })
            .unwrap()
            .data,
        // flip the null-equality of every join (invisible in the plan text of most joins, visible in results)
        "flip_join_type" => p
            .transform_up(|n| match n {
                LogicalPlan::Join(mut j) if j.join_type == datafusion::logical_expr::JoinType::Left => {
                    j.join_type = datafusion::logical_expr::JoinType::Inner;
                    Ok(Transformed::yes(LogicalPlan::Join(j)))
                }
                n => Ok(Transformed::no(n)),
            })
            .unwrap()
            .data,
        _ => p,
    }
}

/// Text comparison of two indented plan texts.  Parents inherit their children's schema, so only
/// the *deepest* differing lines are reported (a differing line with no differing descendant), one
/// failure per logical node kind.
fn text_fails(kind: &str, sql: &str, optimized: bool, t0: &str, t1: &str, out: &mut Vec<Fail>) {
    if t0 == t1 {
        return;
    }
    let (la, lb): (Vec<&str>, Vec<&str>) = (t0.lines().collect(), t1.lines().collect());
    if la.len() != lb.len() {
        let (x, y) = first_diff(t0, t1);
        // the node whose list of children changed: the parent of the first differing line
        let i = la.iter().zip(&lb).take_while(|(p, q)| p == q).count().min(la.len().saturating_sub(1));
        let ind = |l: &str| l.len() - l.trim_start().len();
        let parent = (0..i).rev().find(|j| ind(la[*j]) < ind(la[i])).map(|j| node_kind(la[j])).unwrap_or_else(|| node_kind(&x));
        out.push(Fail { cause: format!("{kind}:shape:{parent}"), what: format!("plan shape differs after the round trip of {sql} (optimized={optimized}): `{x}` became `{y}`\noriginal:\n{t0}\ndecoded:\n{t1}") });
        return;
    }
    let indent = |l: &str| l.len() - l.trim_start().len();
    let differs: Vec<bool> = la.iter().zip(&lb).map(|(x, y)| x != y).collect();
    let mut seen: Vec<String> = vec![];
    for i in 0..la.len() {
        if !differs[i] {
            continue;
        }
        let d = indent(la[i]);
        let has_differing_descendant = (i + 1..la.len()).take_while(|j| indent(la[*j]) > d).any(|j| differs[j]);
        if has_differing_descendant {
            continue;
        }
        let k = node_kind(la[i]);
        if !seen.contains(&k) {
            seen.push(k.clone());
            out.push(Fail {
                cause: format!("{kind}:{k}"),
                what: format!("plan text differs after the round trip of {sql} (optimized={optimized}): `{}` became `{}`\noriginal:\n{t0}\ndecoded:\n{t1}", la[i].trim(), lb[i].trim()),
            });
        }
    }
}

/// `{:?}` of a plan (the derived, fully structural text).  `Explain::stringified_plans` /
/// `logical_optimization_succeeded` are the optimizer's own log of the session that built the plan
/// and are recomputed by the decoder by design, so an EXPLAIN is compared through its inner plan.
fn debug_text(p: &LogicalPlan) -> String {
    match p {
        LogicalPlan::Explain(e) => format!("Explain {{ verbose: {}, explain_format: {:?}, plan: {:?} }}", e.verbose, e.explain_format, e.plan),
        p => format!("{p:?}"),
    }
}

/// One plan case on prepared sessions.  `ctx_a` plans + encodes + runs the original, `ctx_b`
/// (fresh, same tables) decodes + runs the copy.  Every demanded equality is checked even when an
/// earlier one fails, so one root cause does not hide another.
fn check_plan(ctx_a: &SessionContext, ctx_b: &SessionContext, codec_b: &TablesCodec, sql: &str, optimized: bool, flags: &QueryFlags, execute: bool) -> (PlanStats, Vec<Fail>) {
    let mut st = PlanStats::default();
    let mut fails: Vec<Fail> = vec![];
    let plan = match build_plan(ctx_a, sql, optimized) {
        Ok(p) => p,
        Err(_) => return (st, fails), // the direct route does not plan this statement: nothing to round-trip (C01 owns that)
    };
    st.planned = true;
    // default-codec entry points: accepted only by table-free plans
    if let Ok(Ok(bytes)) = mc_core::catch(|| logical_plan_to_bytes(&plan)) {
        st.default_codec_accepted = true;
        match mc_core::catch(|| logical_plan_from_bytes(&bytes, &ctx_b.task_ctx())) {
            Ok(Ok(back)) => text_fails("plan_text_changed", sql, optimized, &format!("{}", plan.display_indent_schema()), &format!("{}", back.display_indent_schema()), &mut fails),
            Ok(Err(e)) => {
                // the default codec's own decoder refusing a table provider it cannot resolve is a documented rejection
                if !e.to_string().contains("LogicalExtensionCodec is not provided") {
                    fails.push(Fail { cause: format!("decode_error:{}", normalise_error(&e.to_string())), what: format!("logical_plan_from_bytes failed on bytes produced by logical_plan_to_bytes for {sql} (optimized={optimized}): {e}") });
                }
            }
            Err(p) => fails.push(Fail { cause: format!("decode_panic:{}", normalise_error(&p)), what: format!("logical_plan_from_bytes panicked for {sql} (optimized={optimized}): {p}") }),
        }
    }
    let bytes = match mc_core::catch(|| logical_plan_to_bytes_with_extension_codec(&plan, &TablesCodec::encoder())) {
        Ok(Ok(b)) => b,
        Ok(Err(e)) => {
            st.encode_rejected = Some(normalise_error(&e.to_string()));
            return (st, fails);
        }
        Err(p) => {
            fails.push(Fail { cause: format!("encode_panic:{}", normalise_error(&p)), what: format!("encoder panicked for {sql} (optimized={optimized}): {p}") });
            return (st, fails);
        }
    };
    let back = match mc_core::catch(|| logical_plan_from_bytes_with_extension_codec(&bytes, &ctx_b.task_ctx(), codec_b)) {
        Ok(Ok(p)) => p,
        Ok(Err(e)) => {
            fails.push(Fail {
                cause: format!("decode_error:{}", normalise_error(&e.to_string())),
                what: format!("encoding succeeded but decoding in a fresh session failed for {sql} (optimized={optimized}): {e}\noriginal plan:\n{}", plan.display_indent_schema()),
            });
            return (st, one_cause_for_dotted(sql, fails));
        }
        Err(p) => {
            fails.push(Fail { cause: format!("decode_panic:{}", normalise_error(&p)), what: format!("decoder panicked for {sql} (optimized={optimized}): {p}") });
            return (st, fails);
        }
    };
    let back = match demo() {
        Some(how) => corrupt_plan(back, &how),
        None => back,
    };
    let before = fails.len();
    text_fails("plan_text_changed", sql, optimized, &format!("{}", plan.display_indent_schema()), &format!("{}", back.display_indent_schema()), &mut fails);
    if fails.len() == before {
        // the derived `{:?}` shows every field: consulted when the indented text agrees
        let (d0, d1) = (debug_text(&plan), debug_text(&back));
        // a difference that one of the plan's own expressions already shows when round-tripped alone
        // is that expression's root cause (same key as the expression-level case)
        let mut expr_causes: Vec<Fail> = vec![];
        if d0 != d1 {
            let mut m = BTreeMap::new();
            collect_exprs(&plan, &mut m);
            let res: BTreeMap<&String, Result<ExprOutcome, Fail>> = m.iter().map(|(k, e)| (k, check_expr(e, ctx_b, codec_b))).collect();
            for (k, e) in &m {
                if let Some(Err(f)) = res.get(k) {
                    let child_fails = direct_children(e).iter().any(|c| matches!(res.get(&format!("{c:?}")), Some(Err(_))));
                    if !child_fails && !expr_causes.iter().any(|x| x.cause == f.cause) {
                        expr_causes.push(Fail { cause: f.cause.clone(), what: format!("in the plan of {sql} (optimized={optimized}): {}", f.what) });
                    }
                }
            }
        }
        if !expr_causes.is_empty() {
            fails.extend(expr_causes);
        } else if d0 != d1 {
            let n = d0.bytes().zip(d1.bytes()).take_while(|(x, y)| x == y).count();
            let ctx_of = |d: &str| -> String { d.chars().skip(n.saturating_sub(160)).take(400).collect() };
            fails.push(Fail {
                cause: format!("plan_debug_changed:{}", diff_hint(&d0, &d1)),
                what: format!("display_indent_schema is unchanged but the {{:?}} text differs after the round trip of {sql} (optimized={optimized}):\n  original: ..{}..\n  decoded:  ..{}..", ctx_of(&d0), ctx_of(&d1)),
            });
        }
    }
    st.struct_eq = plan == back;
    if !execute {
        st.structure_only = true;
        return (st, fails);
    }
    let r0 = engine::run_plan(ctx_a, plan);
    let r1 = engine::run_plan(ctx_b, back);
    match (r0, r1) {
        (Ok(a), Ok(b)) => {
            let spec: OrderSpec = flags.into();
            // one key per root cause: a result change next to a text change is a consequence of it
            let because = fails.last().map(|f| format!("{} (and the result changes)", f.cause));
            if let Err(w) = compare_engine_results(&a.rows, &b.rows, &spec) {
                fails.push(Fail { cause: because.unwrap_or_else(|| "result_changed_although_text_is_identical".into()), what: format!("decoded plan of {sql} (optimized={optimized}) returns a different result: {w}") });
            } else if a.arrow_types != b.arrow_types {
                fails.push(Fail {
                    cause: because.unwrap_or_else(|| "result_types_changed_although_text_is_identical".into()),
                    what: format!("decoded plan of {sql} (optimized={optimized}) returns column types {:?}, the original {:?}", b.arrow_types, a.arrow_types),
                });
            }
            st.rows = a.rows.len();
            st.nonempty = !a.rows.is_empty();
        }
        (Err(_), Err(_)) => st.both_failed = true,
        (Ok(a), Err(e)) => fails.push(Fail { cause: format!("decoded_plan_fails:{}", normalise_error(&e)), what: format!("original plan of {sql} (optimized={optimized}) returns {} but the decoded plan fails: {e}", show_rows(&a.rows)) }),
        (Err(e), Ok(b)) => fails.push(Fail { cause: format!("only_original_fails:{}", normalise_error(&e)), what: format!("original plan of {sql} (optimized={optimized}) fails ({e}) but the decoded plan returns {}", show_rows(&b.rows)) }),
    }
    (st, one_cause_for_dotted(sql, fails))
}

/// The two supplement statements over the table named `d.csv` exist to show one thing at plan
/// level (a relation name containing a dot is re-parsed as `schema.table` by the Column decoder);
/// whatever symptom it produces (decode error, changed text, failing execution) is one root cause.
fn one_cause_for_dotted(sql: &str, fails: Vec<Fail>) -> Vec<Fail> {
    if !sql.contains(DOTTED_TABLE) {
        return fails;
    }
    fails.into_iter().take(1).map(|f| Fail { cause: "relation_name_containing_dot_is_reparsed".into(), what: format!("[{}] {}", f.cause, f.what) }).collect()
}

// ------------------------------------------------------------------ expressions

fn variant_name(e: &Expr) -> String {
    e.variant_name().to_string()
}

fn contains_plan(e: &Expr) -> bool {
    e.exists(|x| Ok(matches!(x, Expr::ScalarSubquery(_) | Expr::Exists(_) | Expr::InSubquery(_) | Expr::SetComparison(_)))).unwrap_or(true)
}

#[derive(Debug)]
enum ExprOutcome {
    Rejected(String),
    Same,
}

/// Round-trip one expression into the fresh session `ctx_b`.
fn check_expr(e: &Expr, ctx_b: &SessionContext, codec_b: &TablesCodec) -> Result<ExprOutcome, Fail> {
    let name = variant_name(e);
    let bytes = match mc_core::catch(|| logical_exprs_to_bytes_with_extension_codec([e], &TablesCodec::encoder())) {
        Ok(Ok(b)) => b,
        Ok(Err(err)) => return Ok(ExprOutcome::Rejected(normalise_error(&err.to_string()))),
        Err(p) => return fail(format!("expr_encode_panic:{name}"), format!("encoder panicked on {e}: {p}")),
    };
    let mut back = match mc_core::catch(|| logical_exprs_from_bytes_with_extension_codec(&bytes, &ctx_b.task_ctx(), codec_b)) {
        Ok(Ok(v)) => v,
        Ok(Err(err)) => return fail(format!("expr_decode_error:{}", normalise_error(&err.to_string())), format!("encoding of `{e}` succeeded but decoding failed: {err}\nexpression: {e:?}")),
        Err(p) => return fail(format!("expr_decode_panic:{name}"), format!("decoder panicked on the bytes of {e}: {p}")),
    };
    if back.len() != 1 {
        return fail(format!("expr_list_length:{name}"), format!("one expression encoded, {} decoded", back.len()));
    }
    let mut back = back.remove(0);
    if demo().as_deref() == Some("swap_between") {
        if let Expr::Between(b) = &mut back {
            std::mem::swap(&mut b.low, &mut b.high);
        }
    }
    if &back != e {
        let (d0, d1) = (format!("{e:?}"), format!("{back:?}"));
        return fail(format!("expr_changed:{name}:{}", diff_hint(&d0, &d1)), format!("decoded expression differs from the original `{e}`\noriginal: {d0}\ndecoded:  {d1}"));
    }
    if !contains_plan(e) {
        // the `Serializeable` entry point (default codec) must agree
        match mc_core::catch(|| e.to_bytes()) {
            Ok(Ok(b2)) => match mc_core::catch(|| Expr::from_bytes_with_ctx(&b2, &ctx_b.task_ctx())) {
                Ok(Ok(back2)) => {
                    if &back2 != e {
                        return fail(format!("expr_changed:{name}:{}", diff_hint(&format!("{e:?}"), &format!("{back2:?}"))), format!("Expr::from_bytes_with_ctx(Expr::to_bytes(e)) differs from `{e}`\noriginal: {e:?}\ndecoded:  {back2:?}"));
                    }
                }
                Ok(Err(err)) => return fail(format!("expr_decode_error:{}", normalise_error(&err.to_string())), format!("Expr::to_bytes succeeded on `{e}` but from_bytes_with_ctx failed: {err}")),
                Err(p) => return fail(format!("expr_decode_panic:{name}"), format!("Expr::from_bytes_with_ctx panicked on {e}: {p}")),
            },
            Ok(Err(_)) => {}
            Err(p) => return fail(format!("expr_encode_panic:{name}"), format!("Expr::to_bytes panicked on {e}: {p}")),
        }
    }
    Ok(ExprOutcome::Same)
}

/// Every distinct (sub-)expression of a plan, subquery plans included.
fn collect_exprs(plan: &LogicalPlan, out: &mut BTreeMap<String, Expr>) {
    let _ = plan.apply_with_subqueries(|node| {
        let _ = node.apply_expressions(|e| {
            let _ = e.apply(|sub| {
                out.entry(format!("{sub:?}")).or_insert_with(|| sub.clone());
                Ok(TreeNodeRecursion::Continue)
            });
            Ok(TreeNodeRecursion::Continue)
        });
        Ok(TreeNodeRecursion::Continue)
    });
}

fn direct_children(e: &Expr) -> Vec<Expr> {
    let mut v = vec![];
    let _ = e.apply_children(|c| {
        v.push(c.clone());
        Ok(TreeNodeRecursion::Continue)
    });
    v
}

fn expr_size(e: &Expr) -> usize {
    let mut n = 0;
    let _ = e.apply(|_| {
        n += 1;
        Ok(TreeNodeRecursion::Continue)
    });
    n
}

// ------------------------------------------------------------------ run one case (replay)

/// Statements over quoted / case-sensitive identifiers (the grammar only uses lower-case names).
/// `"MyT"("K" INT, "v w" INT)` holds the rows of `t`.
const SUPPLEMENT: [&str; 18] = [
    "SELECT a, b FROM t WHERE FALSE",
    "(SELECT a FROM t UNION ALL SELECT a FROM u) UNION ALL SELECT b FROM t",
    r#"SELECT "d.csv"."K" FROM "d.csv" WHERE "K" IS NOT NULL"#,
    r#"SELECT * FROM "d.csv""#,
    "SELECT unnest([1, 2, 3]) AS x",
    "SELECT a, unnest(make_array(b, 10)) AS x FROM t",
    "SELECT unnest(make_array(a, b)) AS x, unnest(make_array(b)) AS y FROM t",
    "SELECT x FROM unnest([1, 2, NULL]) AS u(x)",
    "SELECT struct(a, b) AS s FROM t",
    "SELECT named_struct('x', a, 'y', b)['x'] AS x FROM t",
    "SELECT make_array(a, b)[1] AS x FROM t",
    r#"SELECT "K", "v w" FROM "MyT""#,
    r#"SELECT "MyT"."K" FROM "MyT" WHERE "MyT"."v w" IS NOT NULL"#,
    r#"SELECT x."K" AS "Out Col" FROM "MyT" AS x"#,
    r#"SELECT "T2".a FROM t AS "T2" WHERE "T2".b > 1"#,
    r#"SELECT t.a, "MyT"."K" FROM t JOIN "MyT" ON t.a = "MyT"."K""#,
    r#"SELECT a AS "A", b AS "a b" FROM t"#,
    r#"SELECT "K", count(*) AS "N" FROM "MyT" GROUP BY "K""#,
];
const EXTRA_TABLE: &str = "MyT";
/// a table whose *name* contains a dot (what datafusion-cli registers for `SELECT .. FROM 'd.csv'`)
const DOTTED_TABLE: &str = "d.csv";

/// Statements that are planned and round-tripped but never executed (they would change the
/// catalog / write files); the quantifier of C35 names DML, COPY and DDL plans explicitly.
const STRUCTURE_ONLY: [&str; 22] = [
    "INSERT INTO t VALUES (1, 2), (3, NULL)",
    "INSERT INTO t (b, a) SELECT b, a FROM t WHERE a > 1",
    "INSERT OVERWRITE t SELECT a, b FROM t",
    "DELETE FROM t WHERE a = 1",
    "DELETE FROM t",
    "UPDATE t SET b = b + 1 WHERE a = 1",
    "COPY (SELECT a, b FROM t) TO '/tmp/c35_out.csv' STORED AS CSV",
    "COPY t TO '/tmp/c35_out.parquet' STORED AS PARQUET OPTIONS ('format.compression' 'zstd(3)')",
    "COPY (SELECT a FROM t) TO '/tmp/c35_out.json' STORED AS JSON",
    "COPY (SELECT a, b FROM t) TO '/tmp/c35_out/' STORED AS CSV PARTITIONED BY (a) OPTIONS ('format.delimiter' ';', 'format.has_header' 'false')",
    "EXPLAIN SELECT a FROM t WHERE b > 1",
    "EXPLAIN VERBOSE SELECT a FROM t",
    "EXPLAIN ANALYZE SELECT a FROM t",
    "CREATE VIEW v AS SELECT a, b FROM t WHERE a > 1",
    "CREATE OR REPLACE VIEW v AS SELECT 1 AS x",
    "CREATE TABLE n AS SELECT a FROM t",
    "CREATE TABLE m (a INT PRIMARY KEY, b TEXT)",
    "CREATE EXTERNAL TABLE ext (a INT, b INT) STORED AS CSV LOCATION '/tmp/c35_ext/' OPTIONS ('format.has_header' 'true')",
    "DROP VIEW IF EXISTS v",
    "DROP TABLE IF EXISTS t",
    "PREPARE p(INT) AS SELECT a FROM t WHERE b = $1",
    "SELECT a FROM t WHERE b = $1 AND a < $2",
];

fn register_extra(ctx: &SessionContext, dbv: &Database) -> Result<(), String> {
    use datafusion::arrow::array::{ArrayRef, Int32Array, RecordBatch};
    use datafusion::arrow::datatypes::{DataType, Field, Schema};
    let rows: Vec<Vec<chk_sql::sqlmc::Value>> = dbv.table("t").map(|t| t.rows.clone()).unwrap_or_default();
    let colv = |i: usize| -> ArrayRef {
        Arc::new(Int32Array::from(rows.iter().map(|r| match &r[i] { chk_sql::sqlmc::Value::Int(x) => Some(*x as i32), _ => None }).collect::<Vec<_>>()))
    };
    let schema = Arc::new(Schema::new(vec![Field::new("K", DataType::Int32, true), Field::new("v w", DataType::Int32, true)]));
    let parts = if rows.is_empty() { vec![vec![]] } else { vec![vec![RecordBatch::try_new(schema.clone(), vec![colv(0), colv(1)]).map_err(|e| e.to_string())?]] };
    let mt = MemTable::try_new(schema, parts).map_err(|e| e.to_string())?;
    let mt = Arc::new(mt);
    ctx.register_table(TableReference::bare(EXTRA_TABLE), mt.clone()).map_err(|e| e.to_string())?;
    ctx.register_table(TableReference::bare(DOTTED_TABLE), mt).map_err(|e| e.to_string())?;
    Ok(())
}

fn fresh_pair(dbv: &Database) -> Result<(SessionContext, SessionContext, TablesCodec), String> {
    let a = engine::make_context(dbv, &ContextOptions::default())?;
    let b = engine::make_context(dbv, &ContextOptions::default())?;
    register_extra(&a, dbv)?;
    register_extra(&b, dbv)?;
    let codec = TablesCodec::for_session(&b, dbv)?;
    Ok((a, b, codec))
}

fn expr_db() -> Database {
    db::rich_databases().into_iter().next().map(|x| x.1).unwrap_or_else(Database::empty)
}

fn run_case(c: &Case) -> Result<(), Fail> {
    match c {
        Case::Plan { sql, optimized, db, flags, cause, execute, .. } => {
            let (a, b, codec) = fresh_pair(db).map_err(|e| Fail { cause: "machinery".into(), what: e })?;
            let (_, fails) = check_plan(&a, &b, &codec, sql, *optimized, flags, *execute);
            match cause {
                // a replay file pins one root cause of the case
                Some(c) => match fails.into_iter().find(|f| &f.cause == c) {
                    Some(f) => Err(f),
                    None => Ok(()),
                },
                None => match fails.into_iter().next() {
                    Some(f) => Err(f),
                    None => Ok(()),
                },
            }
        }
        Case::PlanExpr { sql, optimized, expr_debug } => {
            let dbv = expr_db();
            let (a, b, codec) = fresh_pair(&dbv).map_err(|e| Fail { cause: "machinery".into(), what: e })?;
            let plan = build_plan(&a, sql, *optimized).map_err(|e| Fail { cause: "machinery".into(), what: e })?;
            let mut m = BTreeMap::new();
            collect_exprs(&plan, &mut m);
            let e = m.get(expr_debug).ok_or_else(|| Fail { cause: "machinery".into(), what: format!("expression not found in the plan of {sql}") })?;
            check_expr(e, &b, &codec).map(|_| ())
        }
        Case::Shape { label } => {
            let dbv = expr_db();
            let (a, b, codec) = fresh_pair(&dbv).map_err(|e| Fail { cause: "machinery".into(), what: e })?;
            let e = shapes::exprs(&a).into_iter().find(|(l, _)| l == label).map(|x| x.1).ok_or_else(|| Fail { cause: "machinery".into(), what: format!("unknown shape {label}") })?;
            check_expr(&e, &b, &codec).map(|_| ())
        }
        Case::Scalar { label } => {
            let dbv = Database::empty();
            let (_a, b, codec) = fresh_pair(&dbv).map_err(|e| Fail { cause: "machinery".into(), what: e })?;
            let s = shapes::scalars().into_iter().find(|(l, _)| l == label).map(|x| x.1).ok_or_else(|| Fail { cause: "machinery".into(), what: format!("unknown scalar {label}") })?;
            check_scalar(&s, &b, &codec).map(|_| ())
        }
    }
}

fn check_scalar(s: &datafusion::common::ScalarValue, ctx_b: &SessionContext, codec_b: &TablesCodec) -> Result<ExprOutcome, Fail> {
    let e = Expr::Literal(s.clone(), None);
    match check_expr(&e, ctx_b, codec_b) {
        Err(f) => Err(Fail { cause: format!("scalar:{}:{}", scalar_kind(s), f.cause), what: f.what }),
        ok => ok,
    }
}

fn scalar_kind(s: &datafusion::common::ScalarValue) -> String {
    let d = format!("{s:?}");
    d.split(['(', ' ']).next().unwrap_or("").to_string()
}

// ------------------------------------------------------------------ exploration

type FailMap = Mutex<BTreeMap<String, ((usize, usize, String), String, Case, u64)>>;

fn record(fails: &FailMap, f: Fail, rank: (usize, usize, String), case: Case) {
    let mut m = fails.lock().unwrap();
    match m.get_mut(&f.cause) {
        Some(e) => {
            e.3 += 1;
            if rank < e.0 {
                e.0 = rank;
                e.1 = f.what;
                e.2 = case;
            }
        }
        None => {
            m.insert(f.cause, (rank, f.what, case, 1));
        }
    }
}

fn explore(ctx: &Ctx) {
    let tier = ctx.pick(Tier::Quick, Tier::Thorough);
    let gq: Vec<GenQuery> = grammar::queries(tier);
    // (sql, flags, size, execute)
    let mut qs: Vec<(String, QueryFlags, usize, bool)> = gq.iter().map(|q| (q.sql.clone(), q.flags.clone(), q.size, true)).collect();
    let n_grammar = qs.len();
    qs.extend(SUPPLEMENT.iter().map(|s| (s.to_string(), QueryFlags::default(), 5, true)));
    qs.extend(STRUCTURE_ONLY.iter().map(|s| (s.to_string(), QueryFlags::default(), 5, false)));
    let dbs = db::rich_databases();
    let fails: FailMap = Mutex::new(BTreeMap::new());
    let rejected: Mutex<BTreeMap<String, (u64, String)>> = Mutex::new(BTreeMap::new());
    ctx.set_extra(
        "bounds",
        json!({
            "queries": n_grammar, "supplement_executed (quoted identifiers, unnest, struct, constant-false filter, 3-way union)": SUPPLEMENT, "supplement_structure_only (DML, COPY, DDL, EXPLAIN, PREPARE: planned and round-tripped, never executed)": STRUCTURE_ONLY, "plan_forms": ["unoptimized", "optimized"], "databases": dbs.iter().map(|d| d.0.clone()).collect::<Vec<_>>(),
            "config": "default, target_partitions=1; tables = 1-partition MemTables shipped by name (harness LogicalExtensionCodec)",
            "wire_forms": "binary protobuf (JSON form not available: datafusion-proto `json` feature is off in this workspace)",
        }),
    );
    ctx.assume("catalog tables are shipped by name through a LogicalExtensionCodec (the default codec refuses MemTable scans); the decoding session holds the same tables");

    // ---------------- part 1: plans × databases
    let chunk = 24usize;
    let mut work: Vec<(usize, usize)> = vec![]; // (db index, first query index)
    for qi in (0..qs.len()).step_by(chunk) {
        for di in 0..dbs.len() {
            work.push((di, qi));
        }
    }
    let plan_samples = std::sync::atomic::AtomicUsize::new(0);
    work.par_iter().for_each(|(di, q0)| {
        if ctx.out_of_time() {
            return;
        }
        let (label, dbv) = &dbs[*di];
        let (a, b, codec) = match fresh_pair(dbv) {
            Ok(x) => x,
            Err(e) => {
                ctx.machinery_error(format!("cannot build sessions: {e}"));
                return;
            }
        };
        for qi in *q0..(*q0 + chunk).min(qs.len()) {
            let q = &qs[qi];
            for optimized in [false, true] {
                if ctx.out_of_time() {
                    return;
                }
                let (st, fl) = check_plan(&a, &b, &codec, &q.0, optimized, &q.1, q.3);
                if !st.planned {
                    ctx.count("plans_not_built_by_direct_route", 1);
                    continue;
                }
                ctx.eval();
                ctx.count(if optimized { "plan_cases_optimized" } else { "plan_cases_unoptimized" }, 1);
                if st.default_codec_accepted {
                    ctx.count("plan_cases_accepted_by_default_codec", 1);
                }
                if !fl.is_empty() {
                    ctx.count("plan_cases_failed", 1);
                    for f in fl {
                        let case = Case::Plan { sql: q.0.clone(), optimized, db_label: label.clone(), db: dbv.clone(), flags: q.1.clone(), execute: q.3, cause: Some(f.cause.clone()) };
                        record(&fails, f, (qi, dbv.total_rows(), label.clone()), case);
                    }
                    continue;
                }
                if let Some(why) = st.encode_rejected {
                    ctx.count("plan_cases_encoder_rejected", 1);
                    let mut r = rejected.lock().unwrap();
                    let e = r.entry(format!("plan: {why}")).or_insert((0, q.0.clone()));
                    e.0 += 1;
                    continue;
                }
                ctx.count("plan_cases_round_tripped", 1);
                if st.both_failed {
                    ctx.count("plan_cases_both_routes_fail_at_run_time", 1);
                }
                if !st.struct_eq {
                    ctx.count("plan_cases_same_text_but_not_partial_eq", 1);
                }
                if st.structure_only {
                    ctx.count("plan_cases_structure_only", 1);
                    if *di == 0 {
                        ctx.nontrivial(&("plan-structure", &q.0, optimized));
                    }
                }
                if st.nonempty {
                    ctx.nontrivial(&("plan", &q.0, optimized, label));
                    if st.rows >= 2 && q.2 > 14 && optimized && plan_samples.fetch_add(1, std::sync::atomic::Ordering::Relaxed) < 2 {
                        ctx.sample(json!({"kind": "plan", "sql": q.0, "optimized": optimized, "db": label, "result_rows": st.rows, "encoded_with": "TablesCodec"}));
                    }
                }
            }
        }
    });

    // ---------------- part 2: expressions of the plans
    let dbv = expr_db();
    let (a, b, codec) = match fresh_pair(&dbv) {
        Ok(x) => x,
        Err(e) => {
            ctx.machinery_error(e);
            return;
        }
    };
    // distinct expression -> (first query index, optimized)
    let mut plan_exprs: BTreeMap<String, (Expr, usize, bool)> = BTreeMap::new();
    for (qi, q) in qs.iter().enumerate() {
        for optimized in [false, true] {
            if let Ok(p) = build_plan(&a, &q.0, optimized) {
                let mut m = BTreeMap::new();
                collect_exprs(&p, &mut m);
                for (k, e) in m {
                    plan_exprs.entry(k).or_insert((e, qi, optimized));
                }
            }
        }
    }
    ctx.count("distinct_plan_expressions", plan_exprs.len() as u64);
    let items: Vec<(&String, &(Expr, usize, bool))> = plan_exprs.iter().collect();
    // outcome per expression text, to report only *minimal* failing expressions
    let outcomes: Mutex<HashMap<String, Result<(), Fail>>> = Mutex::new(HashMap::new());
    items.par_iter().for_each(|(k, (e, _, _))| {
        // sessions are cheap to share read-only: task_ctx() snapshots the registry
        let r = check_expr(e, &b, &codec);
        ctx.eval();
        match &r {
            Ok(ExprOutcome::Rejected(why)) => {
                ctx.count("plan_exprs_encoder_rejected", 1);
                let mut rj = rejected.lock().unwrap();
                let en = rj.entry(format!("expr {}: {why}", variant_name(e))).or_insert((0, shapes::short(&format!("{e}"), 120)));
                en.0 += 1;
            }
            Ok(ExprOutcome::Same) => {
                ctx.count("plan_exprs_round_tripped", 1);
                if !direct_children(e).is_empty() {
                    ctx.nontrivial(&("expr", k.as_str()));
                }
            }
            Err(_) => ctx.count("plan_exprs_failed", 1),
        }
        outcomes.lock().unwrap().insert((*k).clone(), r.map(|_| ()));
    });
    let outcomes = outcomes.into_inner().unwrap();
    for (k, (e, qi, optimized)) in &plan_exprs {
        if let Some(Err(f)) = outcomes.get(k) {
            // minimal: no direct child fails
            let child_fails = direct_children(e).iter().any(|c| matches!(outcomes.get(&format!("{c:?}")), Some(Err(_))));
            if !child_fails {
                record(&fails, f.clone(), (expr_size(e), *qi, k.clone()), Case::PlanExpr { sql: qs[*qi].0.clone(), optimized: *optimized, expr_debug: k.clone() });
            }
        }
    }

    // ---------------- part 3: enumerated expression shapes
    let shapes_list = shapes::exprs(&a);
    ctx.count("enumerated_expression_shapes", shapes_list.len() as u64);
    let shape_fail: Mutex<Vec<(usize, String, Fail)>> = Mutex::new(vec![]);
    shapes_list.par_iter().enumerate().for_each(|(i, (label, e))| {
        ctx.eval();
        match check_expr(e, &b, &codec) {
            Ok(ExprOutcome::Rejected(why)) => {
                ctx.count("shape_exprs_encoder_rejected", 1);
                let mut rj = rejected.lock().unwrap();
                let en = rj.entry(format!("expr {}: {why}", variant_name(e))).or_insert((0, label.clone()));
                en.0 += 1;
            }
            Ok(ExprOutcome::Same) => {
                ctx.count("shape_exprs_round_tripped", 1);
                ctx.nontrivial(&("shape", label));
                if ctx.want_sample() && label.starts_with("window:udaf:sum:frame7") {
                    ctx.sample(json!({"kind": "expression shape", "label": label, "expr": format!("{e}")}));
                }
            }
            Err(f) => {
                ctx.count("shape_exprs_failed", 1);
                shape_fail.lock().unwrap().push((i, label.clone(), f));
            }
        }
    });
    let mut sf = shape_fail.into_inner().unwrap();
    sf.sort_by_key(|x| x.0);
    for (i, label, f) in sf {
        // depth-2 shapes only repeat a failure of their component: report them under the component's cause (same key)
        record(&fails, f, (expr_size(&shapes_list[i].1), i, label.clone()), Case::Shape { label });
    }

    // ---------------- part 4: scalar values
    let scalars = shapes::scalars();
    ctx.count("enumerated_scalar_values", scalars.len() as u64);
    let sc_fail: Mutex<Vec<(usize, String, Fail)>> = Mutex::new(vec![]);
    scalars.par_iter().enumerate().for_each(|(i, (label, s))| {
        ctx.eval();
        match check_scalar(s, &b, &codec) {
            Ok(ExprOutcome::Rejected(why)) => {
                ctx.count("scalars_encoder_rejected", 1);
                let mut rj = rejected.lock().unwrap();
                let en = rj.entry(format!("scalar {}: {why}", scalar_kind(s))).or_insert((0, label.clone()));
                en.0 += 1;
            }
            Ok(ExprOutcome::Same) => {
                ctx.count("scalars_round_tripped", 1);
                if !s.is_null() {
                    ctx.nontrivial(&("scalar", label));
                }
                if ctx.want_sample() && label.contains("Struct") {
                    ctx.sample(json!({"kind": "scalar", "label": label}));
                }
            }
            Err(f) => {
                ctx.count("scalars_failed", 1);
                sc_fail.lock().unwrap().push((i, label.clone(), f));
            }
        }
    });
    let mut sf = sc_fail.into_inner().unwrap();
    sf.sort_by_key(|x| x.0);
    for (i, label, f) in sf {
        record(&fails, f, (0, i, label.clone()), Case::Scalar { label });
    }

    // ---------------- report
    let rj = rejected.into_inner().unwrap();
    ctx.set_extra("encoder_rejections", json!(rj.iter().map(|(k, (n, ex))| json!({"reason": k, "cases": n, "example": ex})).collect::<Vec<_>>()));
    for (cause, (_, what, case, n)) in fails.into_inner().unwrap() {
        ctx.count(&format!("cases_attributed_to:{cause}"), n);
        ctx.violation(cause, format!("{what}\n[{n} case(s) share this root-cause key; this is the smallest]"), serde_json::to_value(&case).unwrap());
    }
}

fn replay(v: &Json) -> Result<(), String> {
    let c: Case = serde_json::from_value(v.clone()).map_err(|e| format!("bad case: {e}"))?;
    run_case(&c).map_err(|f| format!("[{}] {}", f.cause, f.what))
}

fn debug_main(args: &[String]) -> bool {
    if let Some(p) = args.iter().position(|a| a == "--sql") {
        let sql = args.get(p + 1).cloned().unwrap_or_default();
        let optimized = args.iter().any(|a| a == "--opt");
        let label = args.iter().position(|a| a == "--db").and_then(|i| args.get(i + 1)).cloned().unwrap_or("all_distinct".into());
        let dbv = db::rich_databases().into_iter().find(|(l, _)| *l == label).map(|x| x.1).unwrap_or_else(Database::empty);
        let (a, b, codec) = fresh_pair(&dbv).unwrap();
        match build_plan(&a, &sql, optimized) {
            Ok(p) => {
                println!("original:\n{}", p.display_indent_schema());
                match logical_plan_to_bytes_with_extension_codec(&p, &TablesCodec::encoder()) {
                    Ok(bytes) => match logical_plan_from_bytes_with_extension_codec(&bytes, &b.task_ctx(), &codec) {
                        Ok(back) => println!("decoded:\n{}", back.display_indent_schema()),
                        Err(e) => println!("decode error: {e}"),
                    },
                    Err(e) => println!("encode error: {e}"),
                }
            }
            Err(e) => println!("plan error: {e}"),
        }
        let (st, fl) = check_plan(&a, &b, &codec, &sql, optimized, &QueryFlags::default(), !args.iter().any(|a| a == "--no-exec"));
        println!("stats: {st:?}");
        for f in fl {
            println!("FAIL [{}] {}", f.cause, f.what);
        }
        return true;
    }
    if args.iter().any(|a| a == "--list-shapes") {
        let (a, _, _) = fresh_pair(&Database::empty()).unwrap();
        for (l, e) in shapes::exprs(&a) {
            println!("{l}\t{e}");
        }
        for (l, _) in shapes::scalars() {
            println!("{l}");
        }
        return true;
    }
    false
}

fn main() {
    if debug_main(&mc_core::extra_args()) {
        return;
    }
    mc_core::quiet_panics();
    run_check(
        "C35",
        Level::Exploration,
        "every grammar query x {unoptimized, optimized} logical plan x 12 rich databases: encode to protobuf bytes, decode in a fresh SessionContext with the same tables, \
         demand equal display_indent_schema / Debug text and equal execution result; every distinct (sub-)expression of those plans, every enumerated Expr shape \
         (all binary operators and chain nestings, all registered scalar/aggregate/window functions, all window frames, LIKE/CASE/CAST/alias/placeholder/lambda menus, depth-2 compositions) \
         and every ScalarValue variant x payload menu: decoded == original; encoder errors are counted rejections; \
         non-trivial = round-tripped plan cases with a non-empty result, round-tripped expressions with at least one child, round-tripped non-NULL scalars",
        explore,
        replay,
    );
}
