//! C47 (SQL part) — mixed-type comparisons are order-independent and exact for
//! integers, through SQL text on typed MemTables.
//!
//! For every ordered pair (L, R) of the type menu {Int8..Int64, UInt8..UInt64,
//! Float32/64, Decimal128 (5,0) (10,2) (38,10) (38,0), Date32, Timestamp s/ms/us/ns,
//! Utf8, Utf8View} two MemTables `x(id, v: L)` and `y(id, v: R)` hold every boundary
//! value of the type once, plus NULL (`id` only identifies the row).  Routes:
//!
//!   proj    SELECT x.id, y.id, x.v = y.v, x.v <> y.v, x.v < y.v, .. FROM x CROSS JOIN y
//!   mirror  the same with `y.v op' x.v`
//!   filter  SELECT x.id, y.id FROM x CROSS JOIN y WHERE x.v op y.v        (6 operators)
//!   insub   SELECT x.id FROM x WHERE x.v IN (SELECT y.v FROM y)
//!   inlit   SELECT x.id, x.v IN (lit_1), .., x.v IN (lit_m), x.v IN (lit_1, .., lit_m) FROM x
//!           SELECT x.id FROM x WHERE x.v IN (lit_1, .., lit_m)            (typed literals of R)
//!   join    SELECT x.id, y.id FROM x JOIN y ON x.v = y.v   as collect-left hash join,
//!           partitioned hash join and sort-merge join (prefer_hash_join = false)
//!
//! Oracles: (i) proj == mirror cell by cell, including failing-ness (when the batch
//! query fails, every cell is re-run on one-row tables); (ii) filter / IN / join
//! membership equal the truth values of proj (`=` for IN and joins), wherever proj
//! evaluates; a route may fail only if some proj cell fails; (iii) for integer /
//! decimal pairs every proj cell that evaluates equals the exact i128+scale comparison.
//! Pairs that the planner rejects (in both operand orders) are counted.
//!
//! Two recorded causes are attributed by fixed keys instead of per pair: the float IN
//! list comparing by bits (-0.0 vs 0.0) and the truncating narrowing of timestamp
//! literals.  A disagreement is attributed only if re-evaluating the expectation under
//! exactly that alternative semantics reproduces the engine's answer exactly.
use arrow::array::{Array, ArrayRef, AsArray, Int32Array};
use arrow::datatypes::{DataType, Field, Int32Type, Schema, TimeUnit};
use arrow::record_batch::RecordBatch;
use chk_sql::sqlmc::engine::block_on;
use datafusion::catalog::MemTable;
use datafusion::physical_plan::{collect, displayable};
use datafusion::prelude::{SessionConfig, SessionContext};
use datafusion_common::ScalarValue;
use mc_core::serde_json::{Value, json};
use mc_core::{Ctx, Level, rayon::prelude::*, run_check};
use serde::{Deserialize, Serialize};
use std::cmp::Ordering;
use std::collections::{BTreeMap, BTreeSet};
use std::sync::{Arc, Mutex};

fn demo(which: &str) -> bool {
    std::env::var("VERIF_DEMO_C47S").map(|v| v == which).unwrap_or(false)
}

// ------------------------------------------------------------------ types
#[derive(Clone, Debug, PartialEq, Eq, Hash, Serialize, Deserialize)]
enum T {
    I8,
    I16,
    I32,
    I64,
    U8,
    U16,
    U32,
    U64,
    F32,
    F64,
    Dec(u8, i8),
    Date32,
    Ts(String),
    Utf8,
    Utf8View,
}

impl T {
    fn name(&self) -> String {
        match self {
            T::Dec(p, s) => format!("Decimal128({p},{s})"),
            T::Ts(u) => format!("Timestamp({u})"),
            t => format!("{t:?}"),
        }
    }
    fn arrow(&self) -> DataType {
        match self {
            T::I8 => DataType::Int8,
            T::I16 => DataType::Int16,
            T::I32 => DataType::Int32,
            T::I64 => DataType::Int64,
            T::U8 => DataType::UInt8,
            T::U16 => DataType::UInt16,
            T::U32 => DataType::UInt32,
            T::U64 => DataType::UInt64,
            T::F32 => DataType::Float32,
            T::F64 => DataType::Float64,
            T::Dec(p, s) => DataType::Decimal128(*p, *s),
            T::Date32 => DataType::Date32,
            T::Ts(u) => DataType::Timestamp(ts_unit(u), None),
            T::Utf8 => DataType::Utf8,
            T::Utf8View => DataType::Utf8View,
        }
    }
    fn is_exact(&self) -> bool {
        matches!(self, T::I8 | T::I16 | T::I32 | T::I64 | T::U8 | T::U16 | T::U32 | T::U64 | T::Dec(..))
    }
    fn is_float(&self) -> bool {
        matches!(self, T::F32 | T::F64)
    }
}

fn ts_unit(u: &str) -> TimeUnit {
    match u {
        "s" => TimeUnit::Second,
        "ms" => TimeUnit::Millisecond,
        "us" => TimeUnit::Microsecond,
        _ => TimeUnit::Nanosecond,
    }
}
fn ts_per_second(u: &str) -> i64 {
    match u {
        "s" => 1,
        "ms" => 1_000,
        "us" => 1_000_000,
        _ => 1_000_000_000,
    }
}

/// One boundary value.
#[derive(Clone, Debug)]
struct Val {
    sv: ScalarValue,
    /// integers / decimals: unscaled value and scale (value = unscaled / 10^scale)
    exact: Option<(i128, u32)>,
    /// SQL text of a literal of exactly this type and value
    lit: String,
}

fn pow10(n: u32) -> i128 {
    10i128.pow(n)
}

fn dec_text(u: i128, s: u32) -> String {
    if s == 0 {
        return u.to_string();
    }
    let neg = u < 0;
    let a = u.unsigned_abs();
    let m = pow10(s) as u128;
    format!("{}{}.{:0width$}", if neg { "-" } else { "" }, a / m, a % m, width = s as usize)
}

fn values(t: &T) -> Vec<Val> {
    let ty = t.arrow();
    let cast_text = |text: String| format!("arrow_cast('{text}', '{ty}')");
    let iv = |sv: ScalarValue, x: i128| Val { sv, exact: Some((x, 0)), lit: cast_text(x.to_string()) };
    match t {
        T::I8 => [i8::MIN, -1, 0, 1, i8::MAX].iter().map(|x| iv(ScalarValue::Int8(Some(*x)), *x as i128)).collect(),
        T::I16 => [i16::MIN, -1, 0, 1, 255, i16::MAX].iter().map(|x| iv(ScalarValue::Int16(Some(*x)), *x as i128)).collect(),
        T::I32 => [i32::MIN, -1, 0, 1, (1 << 24) - 1, (1 << 24) + 1, i32::MAX].iter().map(|x| iv(ScalarValue::Int32(Some(*x)), *x as i128)).collect(),
        T::I64 => [i64::MIN, -1, 0, 1, (1 << 24) + 1, (1 << 53) - 1, 1 << 53, (1 << 53) + 1, i64::MAX - 1, i64::MAX]
            .iter()
            .map(|x| iv(ScalarValue::Int64(Some(*x)), *x as i128))
            .collect(),
        T::U8 => [0u8, 1, 127, 128, u8::MAX].iter().map(|x| iv(ScalarValue::UInt8(Some(*x)), *x as i128)).collect(),
        T::U16 => [0u16, 1, 32768, u16::MAX].iter().map(|x| iv(ScalarValue::UInt16(Some(*x)), *x as i128)).collect(),
        T::U32 => [0u32, 1, (1 << 24) + 1, 1 << 31, u32::MAX].iter().map(|x| iv(ScalarValue::UInt32(Some(*x)), *x as i128)).collect(),
        T::U64 => [0u64, 1, (1 << 53) + 1, i64::MAX as u64, 1 << 63, u64::MAX - 1, u64::MAX]
            .iter()
            .map(|x| iv(ScalarValue::UInt64(Some(*x)), *x as i128))
            .collect(),
        T::F32 => [-0.0f32, 0.0, 1.0, -1.0, 0.1, 16777216.0, 16777218.0, 2147483648.0]
            .iter()
            .map(|x| Val { sv: ScalarValue::Float32(Some(*x)), exact: None, lit: cast_text(format!("{x:?}")) })
            .collect(),
        T::F64 => [-0.0f64, 0.0, 1.0, -1.0, 0.1, 1.5, 16777217.0, 9007199254740992.0, 9007199254740994.0, 9223372036854775808.0, 18446744073709551616.0]
            .iter()
            .map(|x| Val { sv: ScalarValue::Float64(Some(*x)), exact: None, lit: cast_text(format!("{x:?}")) })
            .collect(),
        T::Dec(p, s) => {
            let max = pow10(*p as u32) - 1;
            let one = pow10(*s as u32);
            let mut us: Vec<i128> = vec![-max, -one, 0, 1, one, max];
            if *s > 0 {
                us.push(one + one / 2); // 1.5
                us.push(-1); // smallest negative fraction
            }
            if *p >= 20 {
                us.push((1i128 << 63) * one.min(pow10((*p as u32).saturating_sub(19).min(*s as u32))));
                us.push(((1i128 << 53) + 1) * if *s == 0 { 1 } else { one });
                us.push(u64::MAX as i128 * if *s == 0 { 1 } else { one });
            }
            us.sort();
            us.dedup();
            us.into_iter()
                .filter(|u| u.abs() <= max)
                .map(|u| Val { sv: ScalarValue::Decimal128(Some(u), *p, *s), exact: Some((u, *s as u32)), lit: cast_text(dec_text(u, *s as u32)) })
                .collect()
        }
        T::Date32 => [-1, 0, 1, 19723, 106751, 106752, i32::MAX]
            .iter()
            .map(|x| Val { sv: ScalarValue::Date32(Some(*x)), exact: None, lit: format!("arrow_cast(arrow_cast('{x}', 'Int32'), 'Date32')") })
            .collect(),
        T::Ts(u) => {
            let xs: Vec<i64> = match u.as_str() {
                "s" => vec![-1, 0, 1, 86400, 1704067200, 9223372036, 9223372037, i64::MAX],
                "ms" => vec![-1, 0, 1, 86_400_000, 1704067200_000, 9223372036854, 9223372036855, i64::MAX],
                "us" => vec![-1, 0, 1, 86_400_000_000, 1704067200_000_000, 9223372036854775, 9223372036854776, i64::MAX],
                _ => vec![-1, 0, 1, 86_400_000_000_000, 1704067200_000_000_000, i64::MAX - 1, i64::MAX],
            };
            xs.into_iter()
                .map(|x| Val {
                    sv: match u.as_str() {
                        "s" => ScalarValue::TimestampSecond(Some(x), None),
                        "ms" => ScalarValue::TimestampMillisecond(Some(x), None),
                        "us" => ScalarValue::TimestampMicrosecond(Some(x), None),
                        _ => ScalarValue::TimestampNanosecond(Some(x), None),
                    },
                    exact: None,
                    lit: format!("arrow_cast(arrow_cast('{x}', 'Int64'), '{ty}')"),
                })
                .collect()
        }
        T::Utf8 | T::Utf8View => ["", "0", "1", "01", "1.0", "-1", "10", "9", "a", "2024-01-01"]
            .iter()
            .map(|s| Val {
                sv: if *t == T::Utf8 { ScalarValue::Utf8(Some(s.to_string())) } else { ScalarValue::Utf8View(Some(s.to_string())) },
                exact: None,
                lit: cast_text(s.to_string()),
            })
            .collect(),
    }
}

fn type_menu() -> Vec<T> {
    vec![
        T::I8,
        T::I16,
        T::I32,
        T::I64,
        T::U8,
        T::U16,
        T::U32,
        T::U64,
        T::F32,
        T::F64,
        T::Dec(5, 0),
        T::Dec(10, 2),
        T::Dec(38, 10),
        T::Dec(38, 0),
        T::Date32,
        T::Ts("s".into()),
        T::Ts("ms".into()),
        T::Ts("us".into()),
        T::Ts("ns".into()),
        T::Utf8,
        T::Utf8View,
    ]
}

/// exact three-way comparison of two rationals unscaled/10^scale
fn exact_cmp(a: (i128, u32), b: (i128, u32)) -> Ordering {
    let split = |(u, s): (i128, u32)| -> (i128, i128, u32) {
        let m = pow10(s);
        (u.div_euclid(m), u.rem_euclid(m), s)
    };
    let (ai, af, asc) = split(a);
    let (bi, bf, bsc) = split(b);
    let s = asc.max(bsc);
    let af = af * pow10(s - asc);
    let bf = bf * pow10(s - bsc);
    (ai, af).cmp(&(bi, bf))
}

/// (sql text, mirrored sql text)
const OPS: [(&str, &str); 6] = [("=", "="), ("<>", "<>"), ("<", ">"), ("<=", ">="), (">", "<"), (">=", "<=")];

fn op_truth(op: &str, o: Ordering) -> bool {
    let t = match op {
        "=" => o == Ordering::Equal,
        "<>" => o != Ordering::Equal,
        "<" => o == Ordering::Less,
        "<=" => o != Ordering::Greater,
        ">" => o == Ordering::Greater,
        _ => o != Ordering::Less,
    };
    if demo("exact") && op == "<=" { !t } else { t }
}

// ------------------------------------------------------------- engine plumbing
#[derive(Clone, Debug, PartialEq)]
enum Stage {
    Plan,
    Exec,
    Panic,
}

fn short(e: impl std::fmt::Display) -> String {
    e.to_string().lines().next().unwrap_or("").chars().take(200).collect()
}

struct Run {
    batches: Vec<RecordBatch>,
    plan_text: String,
}

fn sql_run(ctx: &SessionContext, sql: &str) -> Result<Run, (Stage, String)> {
    let r = mc_core::catch(|| {
        block_on(async {
            let df = ctx.sql(sql).await.map_err(|e| (Stage::Plan, short(e)))?;
            let plan = df.create_physical_plan().await.map_err(|e| (Stage::Plan, short(e)))?;
            let plan_text = displayable(plan.as_ref()).indent(false).to_string();
            let batches = collect(plan, ctx.task_ctx()).await.map_err(|e| (Stage::Exec, short(e)))?;
            Ok(Run { batches, plan_text })
        })
    });
    match r {
        Ok(r) => r,
        Err(p) => Err((Stage::Panic, short(p))),
    }
}

#[derive(Clone, Copy, Debug, PartialEq, Eq, Hash)]
enum JoinCfg {
    /// target_partitions = 1: collect-left hash join
    Default,
    /// target_partitions = 2, prefer_hash_join = true: partitioned hash join
    HashPartitioned,
    /// target_partitions = 2, prefer_hash_join = false: sort-merge join
    SortMerge,
}

fn array_of(t: &T, vals: &[Option<Val>]) -> Result<ArrayRef, String> {
    let null = ScalarValue::try_from(&t.arrow()).map_err(short)?;
    let svs: Vec<ScalarValue> = vals.iter().map(|v| v.as_ref().map(|v| v.sv.clone()).unwrap_or_else(|| null.clone())).collect();
    let a = ScalarValue::iter_to_array(svs).map_err(short)?;
    if a.data_type() != &t.arrow() {
        return Err(format!("MACHINERY: built {} for {}", a.data_type(), t.name()));
    }
    Ok(a)
}

fn mem_table(t: &T, ids: &[i32], vals: &[Option<Val>]) -> Result<Arc<MemTable>, String> {
    let schema = Arc::new(Schema::new(vec![Field::new("id", DataType::Int32, false), Field::new("v", t.arrow(), true)]));
    let batch = RecordBatch::try_new(schema.clone(), vec![Arc::new(Int32Array::from(ids.to_vec())), array_of(t, vals)?]).map_err(short)?;
    MemTable::try_new(schema, vec![vec![batch]]).map(Arc::new).map_err(short)
}

fn make_ctx(cfg: JoinCfg, l: &T, r: &T, xs: &[(i32, Option<Val>)], ys: &[(i32, Option<Val>)]) -> Result<SessionContext, String> {
    let sc = match cfg {
        JoinCfg::Default => SessionConfig::new().with_target_partitions(1),
        JoinCfg::HashPartitioned => SessionConfig::new()
            .with_target_partitions(2)
            .set_bool("datafusion.optimizer.prefer_hash_join", true)
            .set_usize("datafusion.optimizer.hash_join_single_partition_threshold", 0)
            .set_usize("datafusion.optimizer.hash_join_single_partition_threshold_rows", 0),
        JoinCfg::SortMerge => SessionConfig::new().with_target_partitions(2).set_bool("datafusion.optimizer.prefer_hash_join", false),
    };
    let ctx = SessionContext::new_with_config(sc);
    let split = |v: &[(i32, Option<Val>)]| -> (Vec<i32>, Vec<Option<Val>>) { (v.iter().map(|x| x.0).collect(), v.iter().map(|x| x.1.clone()).collect()) };
    let (xi, xv) = split(xs);
    let (yi, yv) = split(ys);
    ctx.register_table("x", mem_table(l, &xi, &xv)?).map_err(short)?;
    ctx.register_table("y", mem_table(r, &yi, &yv)?).map_err(short)?;
    Ok(ctx)
}

/// cell: Ok(Some(b)) / Ok(None) = NULL / Err(msg)
type Cell = Result<Option<bool>, String>;

fn show_cell(c: &Cell) -> String {
    match c {
        Ok(Some(b)) => b.to_string(),
        Ok(None) => "NULL".into(),
        Err(e) => format!("ERROR({e})"),
    }
}
fn same_cell(a: &Cell, b: &Cell) -> bool {
    match (a, b) {
        (Ok(x), Ok(y)) => x == y,
        (Err(_), Err(_)) => true,
        _ => false,
    }
}

fn id_col(b: &RecordBatch, c: usize) -> Result<Vec<usize>, String> {
    let a = b.column(c);
    if a.data_type() != &DataType::Int32 || a.null_count() > 0 {
        return Err(format!("MACHINERY: id column is {} with {} nulls", a.data_type(), a.null_count()));
    }
    Ok(a.as_primitive::<Int32Type>().values().iter().map(|v| *v as usize).collect())
}
fn bool_col(b: &RecordBatch, c: usize) -> Result<Vec<Option<bool>>, String> {
    let a = b.column(c);
    if a.data_type() != &DataType::Boolean {
        return Err(format!("comparison column has type {}", a.data_type()));
    }
    let a = a.as_boolean();
    Ok((0..a.len()).map(|i| if a.is_null(i) { None } else { Some(a.value(i)) }).collect())
}

/// `grid[op][i][j]`
type Grid = Vec<Vec<Vec<Cell>>>;

fn proj_sql(mirror: bool) -> String {
    let cols: Vec<String> = OPS.iter().map(|(op, mop)| if mirror { format!("y.v {mop} x.v") } else { format!("x.v {op} y.v") }).collect();
    format!("SELECT x.id, y.id, {} FROM x CROSS JOIN y", cols.join(", "))
}

/// Fill the grid from a projection result; `Err` = a violation text (shape problems).
fn fill_grid(run: &Run, nx: usize, ny: usize, grid: &mut Grid, xmap: &dyn Fn(usize) -> usize, ymap: &dyn Fn(usize) -> usize) -> Result<usize, String> {
    let mut seen = 0;
    for b in &run.batches {
        let xi = id_col(b, 0)?;
        let yi = id_col(b, 1)?;
        for (k, _) in OPS.iter().enumerate() {
            let col = bool_col(b, 2 + k)?;
            for r in 0..b.num_rows() {
                let (i, j) = (xmap(xi[r]), ymap(yi[r]));
                if i >= nx || j >= ny {
                    return Err(format!("row ids ({}, {}) out of range", xi[r], yi[r]));
                }
                grid[k][i][j] = Ok(col[r]);
            }
        }
        seen += b.num_rows();
    }
    Ok(seen)
}

struct Pair<'a> {
    l: &'a T,
    r: &'a T,
    xs: Vec<(i32, Option<Val>)>,
    ys: Vec<(i32, Option<Val>)>,
}

#[derive(Default)]
struct Stats {
    c: BTreeMap<String, u64>,
    queries: u64,
    nontrivial: Vec<String>,
}
impl Stats {
    fn add(&mut self, k: &str, n: u64) {
        *self.c.entry(k.to_string()).or_insert(0) += n;
    }
}

struct Viol {
    /// stable key of the violation (route + cause or route + pair)
    key: String,
    what: String,
    known_cause: bool,
}

enum ProjOutcome {
    Rejected(String),
    Grid(Grid, bool /* per-cell fallback used */),
}

/// Evaluate the projection (or its mirror) for the whole pair; on failure re-run cell by cell.
fn eval_proj(p: &Pair, mirror: bool, st: &mut Stats) -> Result<ProjOutcome, String> {
    let (nx, ny) = (p.xs.len(), p.ys.len());
    let ctx = make_ctx(JoinCfg::Default, p.l, p.r, &p.xs, &p.ys)?;
    let sql = proj_sql(mirror);
    st.queries += 1;
    let blank = || -> Grid { vec![vec![vec![Err("not delivered".to_string()); ny]; nx]; OPS.len()] };
    match sql_run(&ctx, &sql) {
        Ok(run) => {
            let mut g = blank();
            let n = fill_grid(&run, nx, ny, &mut g, &|i| i, &|j| j)?;
            if n != nx * ny {
                return Err(format!("`{sql}` delivered {n} rows, the cross product has {}", nx * ny));
            }
            Ok(ProjOutcome::Grid(g, false))
        }
        Err((Stage::Plan, e)) => Ok(ProjOutcome::Rejected(e)),
        Err((_, _)) => {
            // per cell on one-row tables
            let mut g = blank();
            for i in 0..nx {
                for j in 0..ny {
                    let c1 = make_ctx(JoinCfg::Default, p.l, p.r, &p.xs[i..i + 1], &p.ys[j..j + 1])?;
                    st.queries += 1;
                    match sql_run(&c1, &sql) {
                        Ok(run) => {
                            let n = fill_grid(&run, nx, ny, &mut g, &|_| i, &|_| j)?;
                            if n != 1 {
                                return Err(format!("`{sql}` on one-row tables delivered {n} rows"));
                            }
                        }
                        Err((_, e)) => {
                            for k in 0..OPS.len() {
                                g[k][i][j] = Err(e.clone());
                            }
                        }
                    }
                }
            }
            Ok(ProjOutcome::Grid(g, true))
        }
    }
}

fn sv_show(v: &Option<Val>) -> String {
    match v {
        Some(v) => format!("{}", v.sv),
        None => "NULL".into(),
    }
}

/// ids of a result with one or two id columns
fn id_rows(run: &Run, cols: usize) -> Result<Vec<Vec<usize>>, String> {
    let mut out = vec![];
    for b in &run.batches {
        let cs: Vec<Vec<usize>> = (0..cols).map(|c| id_col(b, c)).collect::<Result<_, _>>()?;
        for r in 0..b.num_rows() {
            out.push(cs.iter().map(|c| c[r]).collect());
        }
    }
    out.sort();
    Ok(out)
}

fn zero_sign(t: &T, v: &Val) -> Option<bool> {
    match &v.sv {
        ScalarValue::Float32(Some(f)) if *f == 0.0 => Some(f.is_sign_negative()),
        ScalarValue::Float64(Some(f)) if *f == 0.0 => Some(f.is_sign_negative()),
        _ if t.is_exact() => v.exact.filter(|e| e.0 == 0).map(|_| false),
        // a string that is compared with a float column as a number
        ScalarValue::Utf8(Some(s)) | ScalarValue::Utf8View(Some(s)) => s.parse::<f64>().ok().filter(|f| *f == 0.0).map(|f| f.is_sign_negative()),
        _ => None,
    }
}

fn ts_raw(v: &Val) -> Option<i64> {
    match &v.sv {
        ScalarValue::TimestampSecond(Some(x), _)
        | ScalarValue::TimestampMillisecond(Some(x), _)
        | ScalarValue::TimestampMicrosecond(Some(x), _)
        | ScalarValue::TimestampNanosecond(Some(x), _) => Some(*x),
        _ => None,
    }
}

const KEY_FLOAT_IN: &str = "sql/in-list/float-compares-by-bits(-0.0 vs 0.0)";
const KEY_TS_NARROW: &str = "sql/in-list/timestamp-literal-narrowing-truncates";

/// Run every route for one ordered type pair.
fn run_pair(l: &T, r: &T, st: &mut Stats) -> Result<Vec<Viol>, String> {
    let mut viols: Vec<Viol> = vec![];
    let with_null = |t: &T| -> Vec<(i32, Option<Val>)> {
        let mut v: Vec<Option<Val>> = values(t).into_iter().map(Some).collect();
        v.push(None);
        v.into_iter().enumerate().map(|(i, v)| (i as i32, v)).collect()
    };
    let p = Pair { l, r, xs: with_null(l), ys: with_null(r) };
    let (nx, ny) = (p.xs.len(), p.ys.len());
    let pair = format!("x.v: {}, y.v: {}", l.name(), r.name());
    let pk = format!("{}|{}", l.name(), r.name());
    let push = |viols: &mut Vec<Viol>, route: &str, what: String| {
        let key = format!("sql/{route}|{pk}");
        if !viols.iter().any(|v| v.key == key) {
            viols.push(Viol { key, what, known_cause: false });
        }
    };
    // ---- proj / mirror
    let col = eval_proj(&p, false, st).map_err(|e| format!("{pair}: {e}"))?;
    let mir = eval_proj(&p, true, st).map_err(|e| format!("{pair}: {e}"))?;
    let (g, fallback) = match (col, mir) {
        (ProjOutcome::Rejected(_), ProjOutcome::Rejected(_)) => {
            st.add("pairs_rejected_by_the_planner", 1);
            return Ok(viols);
        }
        (ProjOutcome::Rejected(e), ProjOutcome::Grid(..)) | (ProjOutcome::Grid(..), ProjOutcome::Rejected(e)) => {
            push(&mut viols, "mirror", format!("{pair}: `x.v op y.v` and its mirror disagree about being plannable: {e}"));
            return Ok(viols);
        }
        (ProjOutcome::Grid(g, f1), ProjOutcome::Grid(gm, f2)) => {
            'outer: for (k, (op, mop)) in OPS.iter().enumerate() {
                for i in 0..nx {
                    for j in 0..ny {
                        st.add("cells_mirror", 1);
                        let a = &g[k][i][j];
                        let mut b = gm[k][i][j].clone();
                        if demo("mirror") && *op == "<" && i == 0 && j == 0 {
                            b = b.map(|v| v.map(|t| !t));
                        }
                        if !same_cell(a, &b) {
                            push(
                                &mut viols,
                                "mirror",
                                format!(
                                    "{pair}: x.v = {}, y.v = {}: `x.v {op} y.v` = {} but `y.v {mop} x.v` = {}",
                                    sv_show(&p.xs[i].1),
                                    sv_show(&p.ys[j].1),
                                    show_cell(a),
                                    show_cell(&b)
                                ),
                            );
                            break 'outer;
                        }
                    }
                }
            }
            (g, f1 || f2)
        }
    };
    st.add("pairs_comparable", 1);
    if fallback {
        st.add("pairs_evaluated_cell_by_cell (batch query failed)", 1);
    }
    let any_err = g.iter().flatten().flatten().any(|c| c.is_err());
    let err_cells = g[0].iter().flatten().filter(|c| c.is_err()).count();
    st.add("cells_failing_in_proj", err_cells as u64);
    if l != r {
        for (op, _) in OPS {
            st.nontrivial.push(format!("{pk}|{op}"));
        }
    }
    // ---- exactness
    if l.is_exact() && r.is_exact() {
        'ex: for (k, (op, _)) in OPS.iter().enumerate() {
            for i in 0..nx {
                for j in 0..ny {
                    let Ok(got) = &g[k][i][j] else {
                        st.add("cells_exact_engine_error", 1);
                        continue;
                    };
                    let want = match (&p.xs[i].1, &p.ys[j].1) {
                        (Some(a), Some(b)) => Some(op_truth(op, exact_cmp(a.exact.unwrap(), b.exact.unwrap()))),
                        _ => None,
                    };
                    st.add("cells_exact", 1);
                    if *got != want {
                        push(
                            &mut viols,
                            "exact",
                            format!(
                                "{pair}: x.v = {}, y.v = {}: `x.v {op} y.v` gives {}, mathematically {}",
                                sv_show(&p.xs[i].1),
                                sv_show(&p.ys[j].1),
                                show_cell(&g[k][i][j]),
                                show_cell(&Ok(want))
                            ),
                        );
                        break 'ex;
                    }
                }
            }
        }
    }
    // Rows whose value cannot be brought to the comparison type at all (every cell of the row / column fails)
    // are taken out, so that the set-valued routes below can be judged on the rest of the tables.
    let (p, g) = if any_err {
        let live_x: Vec<usize> = (0..nx).filter(|i| (0..ny).any(|j| g[0][*i][j].is_ok())).collect();
        let live_y: Vec<usize> = (0..ny).filter(|j| (0..nx).any(|i| g[0][i][*j].is_ok())).collect();
        st.add("rows_removed_before_the_set_routes (value never castable to the comparison type)", (nx - live_x.len() + ny - live_y.len()) as u64);
        if live_x.is_empty() || live_y.is_empty() {
            st.add("pairs_without_any_evaluating_cell", 1);
            return Ok(viols);
        }
        let g2: Grid = g.iter().map(|op| live_x.iter().map(|i| live_y.iter().map(|j| op[*i][*j].clone()).collect()).collect()).collect();
        let q = Pair {
            l,
            r,
            xs: live_x.iter().enumerate().map(|(n, i)| (n as i32, p.xs[*i].1.clone())).collect(),
            ys: live_y.iter().enumerate().map(|(n, j)| (n as i32, p.ys[*j].1.clone())).collect(),
        };
        (q, g2)
    } else {
        (p, g)
    };
    let (nx, ny) = (p.xs.len(), p.ys.len());
    let any_err = g.iter().flatten().flatten().any(|c| c.is_err());
    if any_err {
        st.add("pairs_with_pair-dependent_failing_cells (set routes may fail)", 1);
    }
    let truth = |k: usize, i: usize, j: usize| -> Option<bool> { g[k][i][j].as_ref().ok().map(|c| *c == Some(true)) };
    let ctx = make_ctx(JoinCfg::Default, l, r, &p.xs, &p.ys)?;
    // generic membership check of a set of (i, j) against the truth of operator k
    let check_pairs = |route: &str, sql: &str, k: usize, got: &[Vec<usize>]| -> Option<String> {
        let got: BTreeSet<(usize, usize)> = got.iter().map(|v| (v[0], v[1])).collect();
        for i in 0..nx {
            for j in 0..ny {
                let Some(t) = truth(k, i, j) else { continue };
                if got.contains(&(i, j)) != t {
                    return Some(format!(
                        "{pair}: x.v = {}, y.v = {}: `x.v {} y.v` is {} in the projection but the pair is {} the result of {route} `{sql}`",
                        sv_show(&p.xs[i].1),
                        sv_show(&p.ys[j].1),
                        OPS[k].0,
                        show_cell(&g[k][i][j]),
                        if t { "missing from" } else { "in" }
                    ));
                }
            }
        }
        None
    };
    // ---- filter
    for (k, (op, _)) in OPS.iter().enumerate() {
        let sql = format!("SELECT x.id, y.id FROM x CROSS JOIN y WHERE x.v {op} y.v");
        st.queries += 1;
        match sql_run(&ctx, &sql) {
            Ok(run) => {
                let rows = id_rows(&run, 2)?;
                let mut dedup = rows.clone();
                dedup.dedup();
                st.add("filter_queries_compared", 1);
                if dedup.len() != rows.len() {
                    push(&mut viols, "filter", format!("{pair}: `{sql}` returns a pair twice"));
                } else if let Some(w) = check_pairs("filter", &sql, k, &rows) {
                    push(&mut viols, "filter", w);
                }
            }
            Err((stage, e)) => {
                if any_err {
                    st.add("filter_queries_failing_with_failing_proj_cells", 1);
                } else {
                    push(&mut viols, "filter", format!("{pair}: every cell of `x.v {op} y.v` evaluates in the projection but `{sql}` fails ({stage:?}): {e}"));
                }
            }
        }
    }
    // ---- joins
    for cfg in [JoinCfg::Default, JoinCfg::HashPartitioned, JoinCfg::SortMerge] {
        let jctx = make_ctx(cfg, l, r, &p.xs, &p.ys)?;
        let sql = "SELECT x.id, y.id FROM x JOIN y ON x.v = y.v";
        let route = format!("join[{cfg:?}]");
        st.queries += 1;
        match sql_run(&jctx, sql) {
            Ok(run) => {
                let op_name = if run.plan_text.contains("SortMergeJoin") {
                    "SortMergeJoinExec"
                } else if run.plan_text.contains("HashJoinExec") {
                    if run.plan_text.contains("mode=Partitioned") { "HashJoinExec(Partitioned)" } else { "HashJoinExec(CollectLeft)" }
                } else if run.plan_text.contains("NestedLoopJoin") {
                    "NestedLoopJoinExec"
                } else {
                    "other"
                };
                st.add(&format!("join_plans[{cfg:?} -> {op_name}]"), 1);
                let mut rows = id_rows(&run, 2)?;
                if demo("join") && cfg == JoinCfg::SortMerge && !rows.is_empty() {
                    rows.remove(0);
                }
                let mut dedup = rows.clone();
                dedup.dedup();
                if dedup.len() != rows.len() {
                    push(&mut viols, &route, format!("{pair}: `{sql}` ({op_name}) returns a pair twice"));
                } else if let Some(w) = check_pairs(&format!("{route} ({op_name})"), sql, 0, &rows) {
                    push(&mut viols, &route, w);
                }
            }
            Err((stage, e)) => {
                if any_err {
                    st.add("join_queries_failing_with_failing_proj_cells", 1);
                } else {
                    push(&mut viols, &route, format!("{pair}: every cell of `x.v = y.v` evaluates in the projection but `{sql}` fails ({stage:?}): {e}"));
                }
            }
        }
    }
    // ---- IN (subquery)
    {
        let sql = "SELECT x.id FROM x WHERE x.v IN (SELECT y.v FROM y)";
        st.queries += 1;
        match sql_run(&ctx, sql) {
            Ok(run) => {
                let rows = id_rows(&run, 1)?;
                let got: BTreeSet<usize> = rows.iter().map(|v| v[0]).collect();
                st.add("in_subquery_compared", 1);
                for i in 0..nx {
                    if (0..ny).any(|j| g[0][i][j].is_err()) {
                        continue;
                    }
                    let want = (0..ny).any(|j| truth(0, i, j) == Some(true));
                    if got.contains(&i) != want || rows.iter().filter(|v| v[0] == i).count() > 1 {
                        push(
                            &mut viols,
                            "in-subquery",
                            format!(
                                "{pair}: x.v = {}: `x.v = y.v` is true for {} rows of y in the projection but the row is {} the result of `{sql}`",
                                sv_show(&p.xs[i].1),
                                (0..ny).filter(|j| truth(0, i, *j) == Some(true)).count(),
                                if want { "missing from" } else { "in" }
                            ),
                        );
                        break;
                    }
                }
            }
            Err((stage, e)) => {
                if any_err {
                    st.add("in_subquery_failing_with_failing_proj_cells", 1);
                } else {
                    push(&mut viols, "in-subquery", format!("{pair}: every cell of `x.v = y.v` evaluates in the projection but `{sql}` fails ({stage:?}): {e}"));
                }
            }
        }
    }
    // ---- IN (typed literals of y)
    {
        let lit_js: Vec<usize> = (0..ny).filter(|j| p.ys[*j].1.is_some()).collect();
        let lits: Vec<&Val> = lit_js.iter().map(|j| p.ys[*j].1.as_ref().unwrap()).collect();
        let m = lits.len();
        let all = lits.iter().map(|v| v.lit.clone()).collect::<Vec<_>>().join(", ");
        let singles: Vec<String> = lits.iter().enumerate().map(|(k, v)| format!("x.v IN ({}) AS s{k}", v.lit)).collect();
        let sql = format!("SELECT x.id, x.id AS id2, {}, x.v IN ({all}) AS whole FROM x", singles.join(", "));
        // expected under SQL semantics from the projection's `=` column (y without its NULL row)
        // alt: 0 = as is, 1 = float zeros compared by bits, 2 = timestamp literal narrowed by truncation
        let eq_cell = |i: usize, lit: usize, alt: u8| -> Cell {
            let j = lit_js[lit];
            let c = g[0][i][j].clone();
            let (Some(xv), Some(yv)) = (&p.xs[i].1, &p.ys[j].1) else { return c };
            match alt {
                1 => match (zero_sign(l, xv), zero_sign(r, yv)) {
                    (Some(a), Some(b)) if a != b && (l.is_float() || r.is_float()) => Ok(Some(false)),
                    _ => c,
                },
                2 => match (l, r, ts_raw(xv), ts_raw(yv)) {
                    (T::Ts(ul), T::Ts(ur), Some(a), Some(b)) if ts_per_second(ur) > ts_per_second(ul) => Ok(Some(a == b / (ts_per_second(ur) / ts_per_second(ul)))),
                    _ => c,
                },
                _ => c,
            }
        };
        let list_cell = |i: usize, alt: u8| -> Cell {
            let cells: Vec<Cell> = (0..m).map(|j| eq_cell(i, j, alt)).collect();
            if let Some(e) = cells.iter().find_map(|c| c.as_ref().err()) {
                return Err(e.clone());
            }
            if cells.iter().any(|c| *c == Ok(Some(true))) {
                Ok(Some(true))
            } else if cells.iter().any(|c| *c == Ok(None)) {
                Ok(None)
            } else {
                Ok(Some(false))
            }
        };
        // A set of disagreeing cells is attributed to a recorded cause iff *every* one of them is exactly what
        // that cause's alternative semantics gives (and the types are those the cause is about).
        let float_pair = l.is_float() || r.is_float();
        let ts_pair = matches!((l, r), (T::Ts(_), T::Ts(_)));
        let pk2 = pk.clone();
        let attribute = |viols: &mut Vec<Viol>, st: &mut Stats, route: &str, bad: Vec<(String, bool, bool)>| {
            if bad.is_empty() {
                return;
            }
            if float_pair && bad.iter().all(|b| b.1) {
                st.add("disagreeing_cells_attributed[float IN list compares by bits]", bad.len() as u64);
                if !viols.iter().any(|v| v.key == KEY_FLOAT_IN) {
                    viols.push(Viol { key: KEY_FLOAT_IN.to_string(), what: bad[0].0.clone(), known_cause: true });
                }
            } else if ts_pair && bad.iter().all(|b| b.2) {
                st.add("disagreeing_cells_attributed[timestamp literal narrowing truncates]", bad.len() as u64);
                if !viols.iter().any(|v| v.key == KEY_TS_NARROW) {
                    viols.push(Viol { key: KEY_TS_NARROW.to_string(), what: bad[0].0.clone(), known_cause: true });
                }
            } else {
                let first = bad.iter().find(|b| !(float_pair && b.1) && !(ts_pair && b.2)).unwrap_or(&bad[0]);
                let key = format!("sql/{route}|{pk2}");
                if !viols.iter().any(|v| v.key == key) {
                    viols.push(Viol { key, what: first.0.clone(), known_cause: false });
                }
            }
        };
        st.queries += 1;
        match sql_run(&ctx, &sql) {
            Ok(run) => {
                // observed[i][j] for j < m: single literal; j == m: whole list
                let mut obs: Vec<Vec<Option<Option<bool>>>> = vec![vec![None; m + 1]; nx];
                for b in &run.batches {
                    let ids = id_col(b, 0)?;
                    for j in 0..=m {
                        let c = bool_col(b, 2 + j)?;
                        for (rr, i) in ids.iter().enumerate() {
                            obs[*i][j] = Some(c[rr]);
                        }
                    }
                }
                st.add("in_literal_queries_compared", 1);
                // every cell that differs from the standard expectation, and whether the alternative semantics
                // of a recorded cause gives exactly the engine's value for that cell
                let mut bad: Vec<(String, bool, bool)> = vec![];
                for i in 0..nx {
                    for j in 0..=m {
                        let want_under = |alt: u8| if j < m { eq_cell(i, j, alt) } else { list_cell(i, alt) };
                        let Ok(want) = want_under(0) else { continue };
                        let got = obs[i][j];
                        if got != Some(want) {
                            let what = if j < m { format!("x.v IN ({})", lits[j].lit) } else { format!("x.v IN ({all})") };
                            let explained = |alt: u8| matches!(want_under(alt), Ok(w) if got == Some(w));
                            bad.push((
                                format!(
                                    "{pair}: x.v = {}: `{what}` = {} but the pairwise `=` of the projection implies {}",
                                    sv_show(&p.xs[i].1),
                                    got.map(|g| show_cell(&Ok(g))).unwrap_or_else(|| "no row".into()),
                                    show_cell(&Ok(want))
                                ),
                                explained(1),
                                explained(2),
                            ));
                        }
                    }
                }
                attribute(&mut viols, st, "in-list", bad);
            }
            Err((stage, e)) => {
                if any_err {
                    st.add("in_literal_queries_failing_with_failing_proj_cells", 1);
                } else {
                    push(&mut viols, "in-list", format!("{pair}: every cell of `x.v = y.v` evaluates in the projection but `{sql}` fails ({stage:?}): {e}"));
                }
            }
        }
        // WHERE route of the whole list
        let sqlw = format!("SELECT x.id FROM x WHERE x.v IN ({all})");
        st.queries += 1;
        match sql_run(&ctx, &sqlw) {
            Ok(run) => {
                let rows = id_rows(&run, 1)?;
                let got: BTreeSet<usize> = rows.iter().map(|v| v[0]).collect();
                let mut bad: Vec<(String, bool, bool)> = vec![];
                for i in 0..nx {
                    let Ok(want) = list_cell(i, 0) else { continue };
                    let isin = got.contains(&i);
                    if isin != (want == Some(true)) {
                        let explained = |alt: u8| matches!(list_cell(i, alt), Ok(w) if isin == (w == Some(true)));
                        bad.push((
                            format!(
                                "{pair}: x.v = {}: the pairwise `=` of the projection implies `x.v IN (..)` = {} but the row is {} the result of `{sqlw}`",
                                sv_show(&p.xs[i].1),
                                show_cell(&Ok(want)),
                                if want == Some(true) { "missing from" } else { "in" }
                            ),
                            explained(1),
                            explained(2),
                        ));
                    }
                }
                attribute(&mut viols, st, "in-list-where", bad);
            }
            Err((stage, e)) => {
                if any_err {
                    st.add("in_literal_queries_failing_with_failing_proj_cells", 1);
                } else {
                    push(&mut viols, "in-list-where", format!("{pair}: every cell of `x.v = y.v` evaluates in the projection but `{sqlw}` fails ({stage:?}): {e}"));
                }
            }
        }
    }
    Ok(viols)
}

/// Machinery self-check: the literal text of every value evaluates to exactly that value and type.
fn check_literals(t: &T) -> Result<(), String> {
    let vals = values(t);
    let ctx = SessionContext::new_with_config(SessionConfig::new().with_target_partitions(1));
    let sql = format!("SELECT {}", vals.iter().enumerate().map(|(i, v)| format!("{} AS c{i}", v.lit)).collect::<Vec<_>>().join(", "));
    let run = sql_run(&ctx, &sql).map_err(|(s, e)| format!("MACHINERY: literal self-check `{sql}` failed ({s:?}): {e}"))?;
    let b = run.batches.first().ok_or("MACHINERY: literal self-check returned nothing")?;
    for (i, v) in vals.iter().enumerate() {
        let want = v.sv.to_array_of_size(1).map_err(short)?;
        let got = b.column(i);
        if got.data_type() != want.data_type() || got.to_data() != want.to_data() {
            return Err(format!("MACHINERY: literal {} evaluates to {:?} (type {}), expected {}", v.lit, got, got.data_type(), v.sv));
        }
    }
    Ok(())
}

#[derive(Serialize, Deserialize, Clone, Debug)]
struct Case {
    l: T,
    r: T,
}

fn explore(ctx: &Ctx) {
    let menu = type_menu();
    for t in &menu {
        if let Err(e) = check_literals(t) {
            ctx.machinery_error(e);
            return;
        }
    }
    let mut pairs: Vec<(T, T)> = vec![];
    for l in &menu {
        for r in &menu {
            pairs.push((l.clone(), r.clone()));
        }
    }
    ctx.set_extra(
        "bounds",
        json!({
            "types": menu.iter().map(|t| t.name()).collect::<Vec<_>>(),
            "values_per_type (plus NULL)": menu.iter().map(|t| (t.name(), values(t).iter().map(|v| v.sv.to_string()).collect::<Vec<_>>())).collect::<BTreeMap<_, _>>(),
            "ordered_type_pairs": pairs.len(),
            "operators": OPS.iter().map(|o| o.0).collect::<Vec<_>>(),
            "routes": ["projection over CROSS JOIN", "mirrored projection", "WHERE over CROSS JOIN (6 operators)", "IN (subquery)", "IN (typed literals): per literal, whole list, whole list in WHERE",
                       "equi-join: collect-left hash join, partitioned hash join, sort-merge join"],
            "tiers": "quick and thorough enumerate the same space (it is small)",
        }),
    );
    ctx.assume("a pair whose comparison is rejected at plan time in both operand orders is counted, not judged");
    ctx.assume("exactness is demanded only for integer/decimal pairs and only for cells that evaluate without error");
    ctx.assume("a filter / IN / join query may fail only if some cell of the projection fails; its membership is judged on the cells that evaluate");
    ctx.assume("typed literals are written as arrow_cast('<text>', '<type>') and self-checked to evaluate to exactly the intended value");
    struct Found {
        size: usize,
        key: String,
        what: String,
        case: Value,
    }
    let found: Mutex<Vec<Found>> = Mutex::new(vec![]);
    pairs.par_iter().for_each(|(l, r)| {
        if ctx.out_of_time() {
            return;
        }
        let mut st = Stats::default();
        let res = mc_core::catch(|| run_pair(l, r, &mut st)).unwrap_or_else(|p| Err(format!("MACHINERY: {p}")));
        ctx.evals(st.queries);
        for (k, v) in &st.c {
            ctx.count(k, *v);
        }
        for k in &st.nontrivial {
            ctx.nontrivial(k);
        }
        let viols = match res {
            Ok(v) => v,
            Err(e) => {
                if e.contains("MACHINERY") {
                    ctx.machinery_error(e);
                    return;
                }
                vec![Viol { key: format!("sql/shape|{}|{}", l.name(), r.name()), what: e, known_cause: false }]
            }
        };
        if l != r && ctx.want_sample() && l.is_exact() && !r.is_exact() && viols.is_empty() && st.queries > 10 {
            ctx.sample(json!({"x.v": l.name(), "y.v": r.name(), "queries": st.queries, "counters": st.c, "example": proj_sql(false)}));
        }
        for v in viols {
            let case = Case { l: l.clone(), r: r.clone() };
            found.lock().unwrap().push(Found {
                size: if l == r { 0 } else { 50 } + l.name().len() + r.name().len(),
                key: v.key,
                what: if v.known_cause { format!("[recorded cause] {}", v.what) } else { v.what },
                case: serde_json::to_value(&case).unwrap(),
            });
        }
    });
    let mut found = found.into_inner().unwrap();
    found.sort_by(|a, b| (a.size, &a.key, a.case.to_string()).cmp(&(b.size, &b.key, b.case.to_string())));
    ctx.count("failing_(route, pair)_total", found.len() as u64);
    // simplest first; ctx.violation keeps the first case per key (fixed keys keep their smallest pair)
    for f in found {
        ctx.violation(f.key, f.what, f.case);
    }
}

fn replay(v: &Value) -> Result<(), String> {
    let c: Case = serde_json::from_value(v.clone()).map_err(|e| format!("bad case: {e}"))?;
    let mut st = Stats::default();
    let viols = run_pair(&c.l, &c.r, &mut st)?;
    if viols.is_empty() {
        Ok(())
    } else {
        Err(viols.iter().map(|v| format!("[{}] {}", v.key, v.what)).collect::<Vec<_>>().join(" || "))
    }
}

fn main() {
    mc_core::quiet_panics();
    run_check(
        "C47",
        Level::Exploration,
        "every ordered pair of the type menu x every pair of boundary values (and NULL) as two MemTables, through SQL text: projection of the six operators over the cross product, its mirror, \
         WHERE per operator, IN (subquery), IN (typed literals), equi-join as collect-left / partitioned hash join and sort-merge join; one evaluation = one SQL query executed; \
         non-trivial = a (left type, right type, operator) triple with different types that the planner accepted in both operand orders",
        explore,
        replay,
    );
}
