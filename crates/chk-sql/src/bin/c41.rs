//! C41 — bound query parameters behave like the equivalent literals.
//!
//! Enumerated: every grammar query (tier list) × every *literal position* of its AST
//! (`Expr::Lit` anywhere — filters, projections, IN lists, CASE arms, function / aggregate /
//! window arguments, join conditions, HAVING, subqueries, CTE bodies —, LIKE patterns,
//! LIMIT / OFFSET of every (sub)query, table-function arguments, window-frame offsets) ×
//! the variants {one position at a time; all positions at once (`$1..$n`); two positions of the
//! same class sharing one placeholder} × every value of the position's small domain (NULL
//! included, plus the original literal) × the routes
//!   * `W$`  : `ctx.sql(text with $1..$n)` + `DataFrame::with_param_values(Vec<ScalarValue>)`,
//!   * `Wn`  : the same with `$p1..$pn` and named values,
//!   * `Pi`  : `PREPARE p AS text` / `EXECUTE p(values…)` (parameter types inferred),
//!   * `Pd`  : `PREPARE p(T1, …, Tn) AS text` / `EXECUTE p(values…)` (types declared),
//! × the 12 rich databases.
//!
//! Oracle: the rows equal those of the *same query text with the value written as a literal* at
//! the position (`compare_engine_results` with the query's order spec); the bound route may fail
//! only where the literal query fails too.  For the PREPARE routes the engine casts every value to
//! the parameter's inferred / declared type (`Prepare::fields`, read from the PREPARE plan) before
//! substituting it, so the literal of *that* type is written: `arrow_cast(<literal>, '<type>')`
//! wherever the type differs from the literal's own type.  For the `with_param_values` routes the
//! value has exactly the type the SQL parser gives the literal (Int64 / Float64 / Utf8 / Boolean /
//! Null), so the plain literal is the twin.
//!
//! A placeholder text that the planner refuses (`ctx.sql` / `PREPARE` fails: type cannot be
//! inferred, position needs a literal, …) is counted per reason and never a violation.
//!
//! Debug helpers: `c41 --sites` lists every query with its positions and variants;
//! `c41 --sql "<text with $1..>" --values "1,NULL,'a'" [--db LABEL]` runs the four routes.
use arrow::datatypes::DataType;
use chk_sql::sqlmc::ast::*;
use chk_sql::sqlmc::db::{self, Database, Domain};
use chk_sql::sqlmc::engine;
use chk_sql::sqlmc::grammar::{self, GenQuery, QueryFlags, Tier};
use chk_sql::sqlmc::render::{render_expr, render_query};
use chk_sql::sqlmc::value::{ColType, Row, Value, show_rows};
use chk_sql::sqlmc::{ContextOptions, OrderSpec, compare_engine_results, same_multiset};
use datafusion::common::ScalarValue;
use datafusion::logical_expr::{LogicalPlan, Statement};
use datafusion::prelude::{DataFrame, SessionContext};
use mc_core::serde_json::{Value as Json, json};
use mc_core::{Ctx, Level, rayon::prelude::*, run_check};
use serde::{Deserialize, Serialize};
use std::collections::{BTreeMap, HashMap};
use std::sync::Mutex;

// ------------------------------------------------------------------ literal positions

#[derive(Clone, Copy, Debug, PartialEq, Eq, Hash, Serialize, Deserialize, PartialOrd, Ord)]
enum SiteKind {
    Lit,
    LikePattern,
    Limit,
    Offset,
    SeriesArg,
    FrameBound,
    /// `ORDER BY 2`: an output-column position, not a value — never replaced
    OrderPosition,
}

#[derive(Clone, Debug, Serialize, Deserialize)]
struct Site {
    idx: usize,
    kind: SiteKind,
    /// where in the query, e.g. `where/in_list`, `select/case`, `where/subq:exists/where`
    place: String,
    original: Value,
}

impl Site {
    fn selectable(&self) -> bool {
        self.kind != SiteKind::OrderPosition
    }
    fn label(&self) -> String {
        format!("{:?}@{}", self.kind, self.place)
    }
}

const NUM_SENTINEL: i64 = 7_000_000_000;

fn sentinel_text(idx: usize) -> String {
    format!("@@S{idx}@@")
}
/// How the sentinel of position `idx` appears in the rendered SQL.
fn sentinel_rendered(kind: SiteKind, idx: usize) -> String {
    match kind {
        SiteKind::Lit | SiteKind::LikePattern | SiteKind::OrderPosition => format!("'{}'", sentinel_text(idx)),
        _ => format!("{}", NUM_SENTINEL + idx as i64),
    }
}

/// Walks a query in rendering order, numbers every literal position and puts a sentinel into
/// the selected ones.
struct Walker<'a> {
    selected: &'a dyn Fn(usize) -> bool,
    sites: Vec<Site>,
    path: Vec<String>,
}

impl Walker<'_> {
    fn site(&mut self, kind: SiteKind, original: Value) -> (usize, bool) {
        let idx = self.sites.len();
        self.sites.push(Site { idx, kind, place: self.path.join("/"), original });
        (idx, kind != SiteKind::OrderPosition && (self.selected)(idx))
    }
    fn within(&mut self, tag: &str, f: impl FnOnce(&mut Self)) {
        self.path.push(tag.to_string());
        f(self);
        self.path.pop();
    }
    fn exprs(&mut self, es: &mut [Expr]) {
        for e in es {
            self.expr(e);
        }
    }
    fn order(&mut self, items: &mut [OrderItem]) {
        for o in items {
            if let Expr::Lit(v @ Value::Int(_)) = &o.expr {
                let v = v.clone();
                self.site(SiteKind::OrderPosition, v);
            } else {
                self.expr(&mut o.expr);
            }
        }
    }
    fn expr(&mut self, e: &mut Expr) {
        if let Expr::Lit(v) = e {
            let v = v.clone();
            let (idx, sel) = self.site(SiteKind::Lit, v);
            if sel {
                *e = Expr::Lit(Value::Text(sentinel_text(idx)));
            }
            return;
        }
        match e {
            Expr::Col { .. } | Expr::Lit(_) => {}
            Expr::Bin(_, l, r) => {
                self.expr(l);
                self.expr(r);
            }
            Expr::Not(x) | Expr::Neg(x) | Expr::Cast(x, _) => self.expr(x),
            Expr::Is { e, .. } => self.expr(e),
            Expr::Like { e, pattern, .. } => {
                self.expr(e);
                let (idx, sel) = self.site(SiteKind::LikePattern, Value::Text(pattern.clone()));
                if sel {
                    *pattern = sentinel_text(idx);
                }
            }
            Expr::InList { e, list, .. } => {
                self.expr(e);
                self.within("in_list", |w| w.exprs(list));
            }
            Expr::Between { e, lo, hi, .. } => {
                self.expr(e);
                self.within("between", |w| {
                    w.expr(lo);
                    w.expr(hi);
                });
            }
            Expr::Case { operand, whens, else_ } => self.within("case", |w| {
                if let Some(o) = operand {
                    w.expr(o);
                }
                for (c, t) in whens {
                    w.expr(c);
                    w.expr(t);
                }
                if let Some(x) = else_ {
                    w.expr(x);
                }
            }),
            Expr::Func(f, args) => {
                let tag = format!("fn:{}", f.sql());
                self.within(&tag, |w| w.exprs(args));
            }
            Expr::Agg { f, arg, filter, order_by, .. } => {
                let tag = format!("agg:{}", f.sql());
                self.within(&tag, |w| {
                    if let Some(a) = arg {
                        w.expr(a);
                    }
                    w.order(order_by);
                    if let Some(p) = filter {
                        w.within("filter", |w| w.expr(p));
                    }
                });
            }
            Expr::Window { f, args, partition_by, order_by, frame } => {
                let tag = format!("win:{}", f.sql());
                self.within(&tag, |w| {
                    w.within("arg", |w| w.exprs(args));
                    w.exprs(partition_by);
                    w.order(order_by);
                    if let Some(fr) = frame {
                        w.within("frame", |w| {
                            for b in [&mut fr.start, &mut fr.end] {
                                let (n, preceding) = match b {
                                    Bound::Preceding(n) => (*n, true),
                                    Bound::Following(n) => (*n, false),
                                    _ => continue,
                                };
                                let (idx, sel) = w.site(SiteKind::FrameBound, Value::Int(n));
                                if sel {
                                    let s = NUM_SENTINEL + idx as i64;
                                    *b = if preceding { Bound::Preceding(s) } else { Bound::Following(s) };
                                }
                            }
                        });
                    }
                });
            }
            Expr::ScalarSubquery(q) => self.within("subq:scalar", |w| w.query(q)),
            Expr::Exists { q, .. } => self.within("subq:exists", |w| w.query(q)),
            Expr::InSubquery { e, q, .. } => {
                self.expr(e);
                self.within("subq:in", |w| w.query(q));
            }
            Expr::Quantified { e, q, .. } => {
                self.expr(e);
                self.within("subq:quantified", |w| w.query(q));
            }
        }
    }
    fn from_clause(&mut self, f: &mut From) {
        match f {
            From::Table { .. } => {}
            From::Subquery { q, .. } => self.within("from_subquery", |w| w.query(q)),
            From::Series { args, .. } => self.within("series", |w| {
                for a in args.iter_mut() {
                    let (idx, sel) = w.site(SiteKind::SeriesArg, Value::Int(*a));
                    if sel {
                        *a = NUM_SENTINEL + idx as i64;
                    }
                }
            }),
            From::Join { left, right, cond, .. } => {
                self.from_clause(left);
                self.from_clause(right);
                if let JoinCond::On(e) = cond {
                    self.within("join_on", |w| w.expr(e));
                }
            }
        }
    }
    fn set(&mut self, s: &mut SetExpr) {
        match s {
            SetExpr::Select(sel) => {
                if let Distinct::On(es) = &mut sel.distinct {
                    self.within("distinct_on", |w| w.exprs(es));
                }
                self.within("select", |w| {
                    for it in &mut sel.items {
                        w.expr(&mut it.expr);
                    }
                });
                if let Some(f) = &mut sel.from {
                    self.from_clause(f);
                }
                if let Some(p) = &mut sel.where_ {
                    self.within("where", |w| w.expr(p));
                }
                self.within("group_by", |w| match &mut sel.group_by {
                    GroupBy::None => {}
                    GroupBy::Exprs(es) | GroupBy::Rollup(es) | GroupBy::Cube(es) => w.exprs(es),
                    GroupBy::Sets(sets) => {
                        for s in sets {
                            w.exprs(s);
                        }
                    }
                });
                if let Some(h) = &mut sel.having {
                    self.within("having", |w| w.expr(h));
                }
            }
            SetExpr::SetOp { left, right, .. } => {
                self.within("setop", |w| {
                    w.set(left);
                    w.set(right);
                });
            }
            SetExpr::Query(q) => self.within("setop_operand", |w| w.query(q)),
            SetExpr::Values(rows) => self.within("values", |w| {
                for r in rows {
                    w.exprs(r);
                }
            }),
        }
    }
    fn query(&mut self, q: &mut Query) {
        for c in &mut q.with {
            self.within("cte", |w| w.query(&mut c.query));
        }
        self.set(&mut q.body);
        self.within("order_by", |w| w.order(&mut q.order_by));
        if let Some(l) = &mut q.limit {
            let (idx, sel) = self.site(SiteKind::Limit, Value::Int(*l as i64));
            if sel {
                *l = (NUM_SENTINEL + idx as i64) as u64;
            }
        }
        if let Some(o) = &mut q.offset {
            let (idx, sel) = self.site(SiteKind::Offset, Value::Int(*o as i64));
            if sel {
                *o = (NUM_SENTINEL + idx as i64) as u64;
            }
        }
    }
}

/// The literal positions of `q`, in rendering order.
fn sites_of(q: &Query) -> Vec<Site> {
    let mut q2 = q.clone();
    let mut w = Walker { selected: &|_| false, sites: vec![], path: vec![] };
    w.query(&mut q2);
    w.sites
}

/// SQL text of `q` with a sentinel at every position of `chosen`.
fn template_of(q: &Query, chosen: &[usize]) -> String {
    let mut q2 = q.clone();
    let sel = |i: usize| chosen.contains(&i);
    let mut w = Walker { selected: &sel, sites: vec![], path: vec![] };
    w.query(&mut q2);
    render_query(&q2)
}

// ------------------------------------------------------------------ variants

/// One placeholder slot of a variant: position `site` is bound to parameter number `param` (1-based).
#[derive(Clone, Debug, Serialize, Deserialize)]
struct Slot {
    site: usize,
    kind: SiteKind,
    place: String,
    /// the sentinel as it appears in `template`
    sentinel: String,
    param: usize,
    original: Value,
}

#[derive(Clone, Debug, Serialize, Deserialize)]
struct Variant {
    /// `single`, `all`, `shared`
    shape: String,
    template: String,
    slots: Vec<Slot>,
    n_params: usize,
}

impl Variant {
    fn text(&self, f: impl Fn(&Slot) -> String) -> String {
        let mut s = self.template.clone();
        for sl in &self.slots {
            debug_assert!(s.contains(&sl.sentinel), "sentinel {} not in {}", sl.sentinel, s);
            s = s.replace(&sl.sentinel, &f(sl));
        }
        s
    }
    fn positional(&self) -> String {
        self.text(|s| format!("${}", s.param))
    }
    fn named(&self) -> String {
        self.text(|s| format!("$p{}", s.param))
    }
    /// the query with every slot written as a literal; `types[param-1]`, when present, is the type
    /// the engine casts the value to before substituting it
    fn literal(&self, values: &[Value], types: Option<&[DataType]>) -> String {
        self.text(|s| {
            let v = &values[s.param - 1];
            // detection demo only: VERIF_C41_PLANT=1 writes 3 where 2 was bound, in WHERE clauses
            let v = &(if planted() && s.place.ends_with("where") && *v == Value::Int(2) { Value::Int(3) } else { v.clone() });
            match types.and_then(|t| t.get(s.param - 1)) {
                Some(t) => typed_lit_sql(v, t),
                None => lit_sql(v),
            }
        })
    }
    fn label(&self) -> String {
        let mut places: Vec<String> = self.slots.iter().map(|s| format!("{:?}@{}", s.kind, s.place)).collect();
        places.sort();
        places.dedup();
        places.join("+")
    }
}

/// Detection demo switch (never set in a real run): `VERIF_C41_PLANT=1` makes the literal twin differ
/// from the bound value for one construct.
fn planted() -> bool {
    std::env::var("VERIF_C41_PLANT").map(|v| v == "1").unwrap_or(false)
}

fn make_variant(q: &Query, sites: &[Site], shape: &str, chosen: &[(usize, usize)]) -> Variant {
    let idxs: Vec<usize> = chosen.iter().map(|c| c.0).collect();
    let template = template_of(q, &idxs);
    let slots: Vec<Slot> = chosen
        .iter()
        .map(|(si, p)| {
            let s = &sites[*si];
            Slot { site: *si, kind: s.kind, place: s.place.clone(), sentinel: sentinel_rendered(s.kind, *si), param: *p, original: s.original.clone() }
        })
        .collect();
    let n_params = chosen.iter().map(|c| c.1).max().unwrap_or(0);
    Variant { shape: shape.into(), template, slots, n_params }
}

fn class_of(s: &Site) -> ColType {
    match s.kind {
        SiteKind::Lit => s.original.col_type(),
        SiteKind::LikePattern => ColType::Text,
        _ => ColType::Int,
    }
}

fn variants_of(q: &Query) -> (Vec<Site>, Vec<Variant>) {
    let sites = sites_of(q);
    let sel: Vec<usize> = sites.iter().filter(|s| s.selectable()).map(|s| s.idx).collect();
    let mut out = vec![];
    for &i in &sel {
        out.push(make_variant(q, &sites, "single", &[(i, 1)]));
    }
    if sel.len() >= 2 {
        let all: Vec<(usize, usize)> = sel.iter().enumerate().map(|(k, i)| (*i, k + 1)).collect();
        out.push(make_variant(q, &sites, "all", &all));
        // the first two value positions (Lit) of equal class and equal original value share `$1`
        'outer: for (x, &i) in sel.iter().enumerate() {
            for &j in &sel[x + 1..] {
                let (a, b) = (&sites[i], &sites[j]);
                if a.kind == SiteKind::Lit && b.kind == SiteKind::Lit && class_of(a) == class_of(b) && class_of(a) != ColType::Null && a.original == b.original {
                    out.push(make_variant(q, &sites, "shared", &[(i, 1), (j, 1)]));
                    break 'outer;
                }
            }
        }
    }
    (sites, out)
}

// ------------------------------------------------------------------ values

fn natural_type(v: &Value) -> DataType {
    match v {
        Value::Null => DataType::Null,
        Value::Bool(_) => DataType::Boolean,
        Value::Int(_) => DataType::Int64,
        Value::Float(_) => DataType::Float64,
        _ => DataType::Utf8,
    }
}

/// The scalar the SQL parser produces for the literal `v`.
fn scalar_of(v: &Value) -> ScalarValue {
    match v {
        Value::Null => ScalarValue::Null,
        Value::Bool(b) => ScalarValue::Boolean(Some(*b)),
        Value::Int(i) => ScalarValue::Int64(Some(*i)),
        Value::Float(f) => ScalarValue::Float64(Some(*f)),
        Value::Text(s) => ScalarValue::Utf8(Some(s.clone())),
        other => ScalarValue::Utf8(Some(other.sql_literal())),
    }
}

fn lit_sql(v: &Value) -> String {
    render_expr(&Expr::Lit(v.clone()))
}

fn typed_lit_sql(v: &Value, t: &DataType) -> String {
    if natural_type(v) == *t { lit_sql(v) } else { format!("arrow_cast({}, '{}')", lit_sql(v), t) }
}

fn sql_type_name(c: ColType) -> Option<&'static str> {
    match c {
        ColType::Int => Some("BIGINT"),
        ColType::Float => Some("DOUBLE"),
        ColType::Text => Some("VARCHAR"),
        ColType::Bool => Some("BOOLEAN"),
        _ => None,
    }
}

fn class_of_type(t: &DataType) -> ColType {
    engine::col_type_of(t)
}

/// Values bound at one slot: the class domain (NULL included) plus the original literal.
/// `inferred` = the class of the type the planner inferred for the placeholder (used only for
/// positions whose literal is NULL and therefore has no class of its own).
fn values_for(slot: &Slot, d: &Domain, thorough: bool, inferred: Option<ColType>) -> Vec<Value> {
    let mut out: Vec<Value> = vec![];
    let mut push = |v: Value| {
        if !out.contains(&v) {
            out.push(v);
        }
    };
    push(slot.original.clone());
    match slot.kind {
        SiteKind::Limit | SiteKind::Offset => {
            for v in [Value::Null, Value::Int(0), Value::Int(1), Value::Int(2), Value::Int(3)] {
                push(v);
            }
        }
        SiteKind::SeriesArg => {
            for v in [Value::Null, Value::Int(1), Value::Int(3)] {
                push(v);
            }
        }
        SiteKind::FrameBound => {
            for v in [Value::Int(0), Value::Int(1), Value::Int(2)] {
                push(v);
            }
        }
        SiteKind::LikePattern => {
            for v in [Value::Null, Value::text("a%"), Value::text("_"), Value::text("%"), Value::text("a")] {
                push(v);
            }
            if thorough {
                push(Value::text(""));
                push(Value::text("%b"));
            }
        }
        SiteKind::OrderPosition => {}
        SiteKind::Lit => {
            let class = match slot.original.col_type() {
                ColType::Null => inferred.filter(|c| matches!(c, ColType::Int | ColType::Float | ColType::Text | ColType::Bool)).unwrap_or(ColType::Int),
                c => c,
            };
            for v in d.of(class) {
                push(v.clone());
            }
            if thorough {
                match class {
                    ColType::Int => {
                        push(Value::Int(0));
                        push(Value::Int(-1));
                    }
                    ColType::Text => push(Value::text("ab")),
                    ColType::Float => push(Value::Float(-0.5)),
                    _ => {}
                }
            }
        }
    }
    // inside a CTE body the grammar's recursive terms count up (`n + 1 ... WHERE n < k`, `r.d + 1 ... WHERE r.d < k`):
    // a step of 0 or -1 makes the recursion legitimately non-terminating (UNION ALL grows without bound), which is
    // not a behaviour this check can compare - such values are not bound there (the original literal always is)
    if slot.place.contains("cte") {
        let orig = slot.original.clone();
        out.retain(|v| *v == orig || !matches!(v, Value::Int(i) if *i <= 0));
    }
    out
}

// ------------------------------------------------------------------ routes

#[derive(Clone, Copy, Debug, PartialEq, Eq, Hash, Serialize, Deserialize, PartialOrd, Ord)]
enum Route {
    /// ctx.sql + with_param_values(Vec<ScalarValue>) over `$1..$n`
    WithPositional,
    /// ctx.sql + with_param_values(Vec<(name, ScalarValue)>) over `$p1..$pn`
    WithNamed,
    /// PREPARE p AS … / EXECUTE p(…): types inferred
    PrepareInferred,
    /// PREPARE p(T…) AS … / EXECUTE p(…): types declared
    PrepareDeclared,
}

const ROUTES: [Route; 4] = [Route::WithPositional, Route::WithNamed, Route::PrepareInferred, Route::PrepareDeclared];

impl Route {
    fn tag(&self) -> &'static str {
        match self {
            Route::WithPositional => "W$",
            Route::WithNamed => "Wn",
            Route::PrepareInferred => "Pi",
            Route::PrepareDeclared => "Pd",
        }
    }
}

/// A planned (not yet bound) parameterised statement.
enum Planned {
    Df(Box<DataFrame>),
    Prepared { name: String, types: Vec<DataType> },
}

struct Session {
    sctx: SessionContext,
    expected: HashMap<String, Result<Vec<Row>, String>>,
    prepared: usize,
}

impl Session {
    fn new(db: &Database) -> Result<Session, String> {
        Ok(Session { sctx: engine::make_context(db, &ContextOptions::default())?, expected: HashMap::new(), prepared: 0 })
    }
    fn literal_result(&mut self, sql: &str) -> Result<Vec<Row>, String> {
        if let Some(r) = self.expected.get(sql) {
            return r.clone();
        }
        let r = engine::run_sql(&self.sctx, sql).map(|r| r.rows);
        self.expected.insert(sql.to_string(), r.clone());
        r
    }
    /// Plan the placeholder text of `v` for `route`.  `declared` = SQL type names for `Pd`.
    fn plan(&mut self, v: &Variant, route: Route, declared: Option<&[String]>) -> Result<Planned, String> {
        match route {
            Route::WithPositional | Route::WithNamed => {
                let text = if route == Route::WithPositional { v.positional() } else { v.named() };
                let sctx = self.sctx.clone();
                mc_core::catch(move || engine::block_on(async { sctx.sql(&text).await.map_err(|e| format!("{e}")) })).unwrap_or_else(|p| Err(format!("panic: {p}"))).map(|df| Planned::Df(Box::new(df)))
            }
            Route::PrepareInferred | Route::PrepareDeclared => {
                self.prepared += 1;
                let name = format!("p{}", self.prepared);
                let head = match (route, declared) {
                    (Route::PrepareDeclared, Some(t)) => format!("PREPARE {name}({}) AS ", t.join(", ")),
                    (Route::PrepareDeclared, None) => return Err("no declared types".into()),
                    _ => format!("PREPARE {name} AS "),
                };
                let text = format!("{head}{}", v.positional());
                let plan = engine::plan_sql(&self.sctx, &text)?;
                let types: Vec<DataType> = match &plan {
                    LogicalPlan::Statement(Statement::Prepare(p)) => p.fields.iter().map(|f| f.data_type().clone()).collect(),
                    other => return Err(format!("PREPARE planned as {}", other.display())),
                };
                engine::run_plan(&self.sctx, plan)?;
                Ok(Planned::Prepared { name, types })
            }
        }
    }
}

/// Bind `values` (one per parameter) and execute.
fn bind_and_run(sess: &Session, planned: &Planned, route: Route, values: &[Value]) -> Result<Vec<Row>, String> {
    match planned {
        Planned::Df(df) => {
            let df = (**df).clone();
            let bound = mc_core::catch(|| match route {
                Route::WithNamed => df.with_param_values(values.iter().enumerate().map(|(i, v)| (format!("p{}", i + 1), scalar_of(v))).collect::<Vec<_>>()),
                _ => df.with_param_values(values.iter().map(scalar_of).collect::<Vec<_>>()),
            })
            .map_err(|p| format!("panic in with_param_values: {p}"))?
            .map_err(|e| format!("with_param_values: {e}"))?;
            engine::run_df(bound).map(|r| r.rows)
        }
        Planned::Prepared { name, .. } => {
            let text = format!("EXECUTE {name}({})", values.iter().map(lit_sql).collect::<Vec<_>>().join(", "));
            engine::run_sql(&sess.sctx, &text).map(|r| r.rows)
        }
    }
}

/// Types the engine casts the values to before substitution (PREPARE routes): only when the
/// statement carries one type per parameter.
fn cast_types(planned: &Planned, n_params: usize) -> Option<Vec<DataType>> {
    match planned {
        Planned::Prepared { types, .. } if !types.is_empty() && types.len() == n_params => Some(types.clone()),
        _ => None,
    }
}

fn normalise_error(e: &str) -> String {
    let mut first = e.lines().next().unwrap_or("").to_string();
    for wrapper in ["plan error: ", "execution error: ", "with_param_values: ", "Error during planning: ", "Execution error: ", "DataFusion error: ", "This feature is not implemented: ", "Arrow error: ", "Cast error: ", "Compute error: ", "Optimizer rule 'simplify_expressions' failed", "caused by", "Internal error: ", "SQL error: ", "ParserError"] {
        first = first.replace(wrapper, "");
    }
    let mut out = String::new();
    let mut in_digits = false;
    let mut quote: Option<char> = None;
    for ch in first.chars() {
        if let Some(q) = quote {
            if ch == q {
                quote = None;
                out.push('_');
                out.push(ch);
            }
            continue;
        }
        if ch == '\'' || ch == '"' {
            quote = Some(ch);
            out.push(ch);
            continue;
        }
        if ch.is_ascii_digit() {
            if !in_digits {
                out.push('N');
            }
            in_digits = true;
            continue;
        }
        in_digits = false;
        out.push(ch);
    }
    out.trim().chars().take(110).collect()
}

// ------------------------------------------------------------------ cases

#[derive(Serialize, Deserialize, Clone, Debug)]
struct Case {
    id: String,
    variant: Variant,
    route: Route,
    /// declared SQL types for `Pd`
    declared: Option<Vec<String>>,
    values: Vec<Value>,
    db_label: String,
    db: Database,
    flags: QueryFlags,
    #[serde(default)]
    cause: Option<String>,
}

#[derive(Debug, Clone)]
enum Verdict {
    /// the planner refused the placeholder text (reason)
    Rejected(String),
    /// bound result equals the literal twin's (rows of both)
    Same { rows: Vec<Row>, literal_sql: String },
    BothFail,
    /// the literal twin fails, the bound statement succeeds (outside the property: counted)
    OnlyLiteralFails,
    Violation { kind: &'static str, what: String },
}

fn judge(bound: Result<Vec<Row>, String>, literal: Result<Vec<Row>, String>, literal_sql: &str, spec: &OrderSpec) -> Verdict {
    match (bound, literal) {
        (Ok(b), Ok(l)) => match compare_engine_results(&b, &l, spec) {
            Ok(()) => Verdict::Same { rows: b, literal_sql: literal_sql.to_string() },
            Err(w) => Verdict::Violation { kind: "rows_differ", what: format!("bound result differs from the literal query `{literal_sql}` (bound vs literal): {w}") },
        },
        (Err(_), Err(_)) => Verdict::BothFail,
        (Ok(_), Err(_)) => Verdict::OnlyLiteralFails,
        (Err(e), Ok(l)) => Verdict::Violation {
            kind: "bound_fails",
            what: format!("bound statement fails with `{}` but the literal query `{literal_sql}` succeeds with {}", e.lines().next().unwrap_or(""), show_rows(&l)),
        },
    }
}

fn declared_for(v: &Variant, classes: &[ColType]) -> Option<Vec<String>> {
    (0..v.n_params).map(|p| classes.get(p).and_then(|c| sql_type_name(*c)).map(|s| s.to_string())).collect()
}

/// Class of every parameter of a variant for a value assignment: the class of the first
/// non-NULL value bound to it, else the class of the original literal.
fn param_classes(v: &Variant, values: &[Value]) -> Vec<ColType> {
    (1..=v.n_params)
        .map(|p| {
            let from_value = values.get(p - 1).map(|x| x.col_type()).filter(|c| *c != ColType::Null);
            from_value.unwrap_or_else(|| {
                let s = v.slots.iter().find(|s| s.param == p).unwrap();
                match s.kind {
                    SiteKind::Lit => s.original.col_type(),
                    SiteKind::LikePattern => ColType::Text,
                    _ => ColType::Int,
                }
            })
        })
        .collect()
}

fn eval_case(sess: &mut Session, c: &Case) -> Verdict {
    let planned = match sess.plan(&c.variant, c.route, c.declared.as_deref()) {
        Ok(p) => p,
        Err(e) => return Verdict::Rejected(normalise_error(&e)),
    };
    eval_planned(sess, &c.variant, c.route, &planned, &c.values, &(&c.flags).into())
}

fn eval_planned(sess: &mut Session, v: &Variant, route: Route, planned: &Planned, values: &[Value], spec: &OrderSpec) -> Verdict {
    let types = cast_types(planned, v.n_params);
    let literal_sql = v.literal(values, types.as_deref());
    let literal = sess.literal_result(&literal_sql);
    let bound = bind_and_run(sess, planned, route, values);
    judge(bound, literal, &literal_sql, spec)
}

fn run_case(c: &Case) -> Result<(), String> {
    let mut sess = Session::new(&c.db)?;
    match eval_case(&mut sess, c) {
        Verdict::Violation { what, .. } => Err(what),
        _ => Ok(()),
    }
}

// ------------------------------------------------------------------ exploration

struct Prep {
    sites: Vec<Site>,
    variants: Vec<Variant>,
}

/// The value assignments of a variant: singles / shared → every domain value; all-at-once →
/// the originals, all NULL, and the diagonal shifts of the per-parameter domains.
fn assignments(v: &Variant, domains: &[Vec<Value>]) -> Vec<Vec<Value>> {
    if v.n_params == 1 {
        return domains[0].iter().map(|x| vec![x.clone()]).collect();
    }
    let mut out: Vec<Vec<Value>> = vec![];
    let originals: Vec<Value> = (1..=v.n_params).map(|p| v.slots.iter().find(|s| s.param == p).unwrap().original.clone()).collect();
    out.push(originals);
    let longest = domains.iter().map(|d| d.len()).max().unwrap_or(0);
    for k in 0..longest {
        let a: Vec<Value> = domains.iter().enumerate().map(|(i, d)| d[(k + i) % d.len()].clone()).collect();
        if !out.contains(&a) {
            out.push(a);
        }
    }
    let nulls = vec![Value::Null; v.n_params];
    if !out.contains(&nulls) {
        out.push(nulls);
    }
    out
}

type FailRank = (usize, usize, usize, usize, usize);

fn explore(ctx: &Ctx) {
    let tier = ctx.pick(Tier::Quick, Tier::Thorough);
    let d = ctx.pick(Domain::quick(), Domain::thorough());
    let thorough = ctx.thorough();
    let qs: Vec<GenQuery> = grammar::queries(tier);
    let dbs = db::rich_databases();
    let preps: Vec<Prep> = qs
        .iter()
        .map(|q| {
            let (sites, variants) = variants_of(&q.ast);
            Prep { sites, variants }
        })
        .collect();
    // bounds / coverage of positions
    let mut site_kinds: BTreeMap<String, usize> = BTreeMap::new();
    let mut site_places: BTreeMap<String, usize> = BTreeMap::new();
    let mut n_variants = 0usize;
    let mut no_site_queries = 0usize;
    for p in &preps {
        if !p.sites.iter().any(|s| s.selectable()) {
            no_site_queries += 1;
        }
        for s in &p.sites {
            *site_kinds.entry(format!("{:?}", s.kind)).or_insert(0) += 1;
            *site_places.entry(s.place.clone()).or_insert(0) += 1;
        }
        n_variants += p.variants.len();
    }
    ctx.set_extra(
        "bounds",
        json!({
            "queries": qs.len(), "queries_without_literal_position": no_site_queries, "variants": n_variants,
            "positions_by_kind": site_kinds, "positions_by_place": site_places,
            "databases": dbs.iter().map(|d| d.0.clone()).collect::<Vec<_>>(),
            "domain": d, "extra_values": if thorough { "ints 0,-1; text 'ab'; float -0.5; patterns '', '%b'" } else { "none" },
            "limit_offset_values": "NULL,0,1,2,3", "like_patterns": "NULL,'a%','_','%','a'",
            "all_at_once_assignments": "originals, diagonal shifts of the per-parameter domains, all NULL",
            "routes": ROUTES.iter().map(|r| r.tag()).collect::<Vec<_>>(),
            "layout": "1 partition, 1 batch", "config": "default, target_partitions=1",
        }),
    );
    ctx.assume("PREPARE/EXECUTE casts every value to the parameter type recorded in the PREPARE plan (Prepare::fields); the literal twin writes arrow_cast(<literal>, '<that type>')");
    ctx.assume("a placeholder text refused by ctx.sql / PREPARE is outside the property (counted per reason)");

    let mut work: Vec<(usize, usize)> = vec![];
    for qi in 0..qs.len() {
        if preps[qi].variants.is_empty() {
            continue;
        }
        for di in 0..dbs.len() {
            work.push((qi, di));
        }
    }
    if ctx.seed != 0 {
        let s = ctx.seed;
        work.sort_by_key(|w| mc_core::stable_hash(&(s, w)));
    }
    let fails: Mutex<BTreeMap<String, (FailRank, String, Case, u64)>> = Mutex::new(BTreeMap::new());
    let rejections: Mutex<BTreeMap<String, (u64, String)>> = Mutex::new(BTreeMap::new());
    let only_literal_fails: Mutex<BTreeMap<String, (u64, String)>> = Mutex::new(BTreeMap::new());

    work.par_iter().for_each(|&(qi, di)| {
        if ctx.out_of_time() {
            return;
        }
        let q = &qs[qi];
        let (label, dbv) = &dbs[di];
        let mut sess = match Session::new(dbv) {
            Ok(s) => s,
            Err(e) => {
                ctx.machinery_error(format!("cannot build context: {e}"));
                return;
            }
        };
        let spec: OrderSpec = (&q.flags).into();
        for (vi, v) in preps[qi].variants.iter().enumerate() {
            if ctx.out_of_time() {
                return;
            }
            // inferred classes (for NULL literals): from the positional text's plan
            let mut inferred: Vec<Option<ColType>> = vec![None; v.n_params];
            let wplan = sess.plan(v, Route::WithPositional, None);
            if let Ok(Planned::Df(df)) = &wplan {
                if let Ok(m) = df.logical_plan().get_parameter_types() {
                    for p in 1..=v.n_params {
                        if let Some(Some(t)) = m.get(&format!("${p}")) {
                            inferred[p - 1] = Some(class_of_type(t));
                        }
                    }
                }
            }
            let domains: Vec<Vec<Value>> = (1..=v.n_params).map(|p| values_for(v.slots.iter().find(|s| s.param == p).unwrap(), &d, thorough, inferred[p - 1])).collect();
            let assigns = assignments(v, &domains);
            // per assignment: the expected rows of the plain literal twin (for the non-triviality rule)
            let mut plain: Vec<Option<Vec<Row>>> = vec![];
            for a in &assigns {
                plain.push(sess.literal_result(&v.literal(a, None)).ok());
            }
            for route in ROUTES {
                // Pd: one PREPARE per distinct declared-type vector
                let mut planned_cache: Vec<(Option<Vec<String>>, Result<Planned, String>)> = vec![];
                for (ai, a) in assigns.iter().enumerate() {
                    if ctx.out_of_time() {
                        return;
                    }
                    let declared = if route == Route::PrepareDeclared {
                        match declared_for(v, &param_classes(v, a)) {
                            Some(t) => Some(t),
                            None => {
                                ctx.count("skipped:Pd_no_class_for_a_parameter", 1);
                                continue;
                            }
                        }
                    } else {
                        None
                    };
                    if !planned_cache.iter().any(|(k, _)| *k == declared) {
                        let p = sess.plan(v, route, declared.as_deref());
                        planned_cache.push((declared.clone(), p));
                    }
                    let planned = &planned_cache.iter().find(|(k, _)| *k == declared).unwrap().1;
                    let case = |cause: Option<String>| Case {
                        id: q.id.clone(),
                        variant: v.clone(),
                        route,
                        declared: declared.clone(),
                        values: a.clone(),
                        db_label: label.clone(),
                        db: dbv.clone(),
                        flags: q.flags.clone(),
                        cause,
                    };
                    let verdict = match planned {
                        Err(e) => Verdict::Rejected(normalise_error(e)),
                        Ok(p) => eval_planned(&mut sess, v, route, p, a, &spec),
                    };
                    match verdict {
                        Verdict::Rejected(reason) => {
                            ctx.count(&format!("rejected_at_planning:{}", route.tag()), 1);
                            let key = format!("{} | {} | {}", route.tag(), v.label(), reason);
                            let mut r = rejections.lock().unwrap();
                            let e = r.entry(key).or_insert_with(|| (0, if route == Route::WithNamed { v.named() } else { v.positional() }));
                            e.0 += 1;
                        }
                        Verdict::Same { rows, literal_sql } => {
                            ctx.eval();
                            ctx.count(&format!("evals:{}:{}", route.tag(), v.shape), 1);
                            // non-trivial: non-empty result that differs from the result for another assignment
                            let differs = plain.iter().enumerate().any(|(k, r)| k != ai && r.as_ref().map(|r| !same_multiset(r, &rows)).unwrap_or(false));
                            if !rows.is_empty() && differs {
                                ctx.nontrivial(&(&v.template, a, route, label));
                                ctx.count(&format!("nontrivial:{}", route.tag()), 1);
                                for s in &v.slots {
                                    ctx.count(&format!("nontrivial_position:{:?}", s.kind), 1);
                                }
                                if ctx.want_sample() && (v.n_params >= 2 || mc_core::stable_hash(&(&v.template, a, label)) % 40 == 0) {
                                    ctx.sample(json!({"query": q.sql, "placeholder_text": v.positional(), "declared": declared, "values": a, "route": route.tag(), "db": label, "literal_twin": literal_sql, "rows": show_rows(&rows)}));
                                }
                            }
                        }
                        Verdict::BothFail => {
                            ctx.eval();
                            ctx.count("both_fail", 1);
                        }
                        Verdict::OnlyLiteralFails => {
                            ctx.eval();
                            ctx.count("only_literal_twin_fails", 1);
                            let key = format!("{} | {}", route.tag(), v.label());
                            let mut r = only_literal_fails.lock().unwrap();
                            let e = r.entry(key).or_insert_with(|| (0, format!("{} <- {}", v.positional(), a.iter().map(lit_sql).collect::<Vec<_>>().join(", "))));
                            e.0 += 1;
                        }
                        Verdict::Violation { kind, what } => {
                            ctx.eval();
                            let cause = format!("{}:{}:{}:{}", route.tag(), v.shape, kind, v.label());
                            let rank: FailRank = (qi, vi, ai, di, route as usize);
                            let mut f = fails.lock().unwrap();
                            match f.get_mut(&cause) {
                                Some(e) => {
                                    e.3 += 1;
                                    if rank < e.0 {
                                        e.0 = rank;
                                        e.1 = what;
                                        e.2 = case(Some(cause.clone()));
                                    }
                                }
                                None => {
                                    f.insert(cause.clone(), (rank, what, case(Some(cause.clone())), 1));
                                }
                            }
                        }
                    }
                }
            }
        }
    });
    let rj = rejections.into_inner().unwrap();
    ctx.set_extra("planner_rejections", json!(rj.iter().map(|(k, (n, ex))| json!({"route | positions | reason": k, "cases": n, "example": ex})).collect::<Vec<_>>()));
    let ol = only_literal_fails.into_inner().unwrap();
    ctx.set_extra("only_literal_twin_fails", json!(ol.iter().map(|(k, (n, ex))| json!({"route | positions": k, "cases": n, "example": ex})).collect::<Vec<_>>()));
    for (cause, (_, what, case, n)) in fails.into_inner().unwrap() {
        ctx.count(&format!("cases_attributed_to:{cause}"), n);
        let text = if case.route == Route::WithNamed { case.variant.named() } else { case.variant.positional() };
        ctx.violation(
            cause,
            format!("`{}` bound to ({}) via {} on {}: {what}\n[{n} case(s) share this key; this is the smallest]", text, case.values.iter().map(lit_sql).collect::<Vec<_>>().join(", "), case.route.tag(), case.db_label),
            serde_json::to_value(&case).unwrap(),
        );
    }
}

fn replay(v: &Json) -> Result<(), String> {
    let c: Case = serde_json::from_value(v.clone()).map_err(|e| format!("bad case: {e}"))?;
    run_case(&c)
}

// ------------------------------------------------------------------ debug helpers

fn debug_main(args: &[String]) -> bool {
    if args.iter().any(|a| a == "--sites") {
        let tier = if std::env::args().any(|a| a == "thorough") { Tier::Thorough } else { Tier::Quick };
        for q in grammar::queries(tier) {
            let (sites, variants) = variants_of(&q.ast);
            println!("{}\t{}", q.id, q.sql);
            for s in &sites {
                println!("    site {} {} = {}", s.idx, s.label(), lit_sql(&s.original));
            }
            for v in &variants {
                println!("    {}: {}", v.shape, v.positional());
            }
        }
        return true;
    }
    if let Some(p) = args.iter().position(|a| a == "--sql") {
        let sql = args.get(p + 1).cloned().unwrap_or_default();
        let label = args.iter().position(|a| a == "--db").and_then(|i| args.get(i + 1)).cloned().unwrap_or("all_distinct".into());
        let vals = args.iter().position(|a| a == "--values").and_then(|i| args.get(i + 1)).cloned().unwrap_or_default();
        let dbv = db::rich_databases().into_iter().find(|(l, _)| *l == label).map(|x| x.1).unwrap_or_else(Database::empty);
        let sctx = engine::make_context(&dbv, &ContextOptions::default()).unwrap();
        println!("db: {}", dbv.show());
        let scalars: Vec<ScalarValue> = vals
            .split(',')
            .filter(|s| !s.trim().is_empty())
            .map(|s| {
                let s = s.trim();
                if s.eq_ignore_ascii_case("null") {
                    ScalarValue::Null
                } else if let Ok(i) = s.parse::<i64>() {
                    ScalarValue::Int64(Some(i))
                } else if let Ok(f) = s.parse::<f64>() {
                    ScalarValue::Float64(Some(f))
                } else if s.eq_ignore_ascii_case("true") || s.eq_ignore_ascii_case("false") {
                    ScalarValue::Boolean(Some(s.eq_ignore_ascii_case("true")))
                } else {
                    ScalarValue::Utf8(Some(s.trim_matches('\'').to_string()))
                }
            })
            .collect();
        let df = engine::block_on(async { sctx.sql(&sql).await });
        match df {
            Err(e) => println!("ctx.sql -> ERROR {e}"),
            Ok(df) => {
                println!("parameter types: {:?}", df.logical_plan().get_parameter_types());
                match df.with_param_values(scalars.clone()) {
                    Err(e) => println!("with_param_values -> ERROR {e}"),
                    Ok(df) => {
                        println!("{}", df.logical_plan().display_indent());
                        match engine::run_df(df) {
                            Ok(r) => println!("  -> {:?} {:?} {}", r.names, r.arrow_types, show_rows(&r.rows)),
                            Err(e) => println!("  -> ERROR {e}"),
                        }
                    }
                }
            }
        }
        match engine::plan_sql(&sctx, &format!("PREPARE dbg AS {sql}")) {
            Err(e) => println!("PREPARE -> ERROR {e}"),
            Ok(plan) => {
                if let LogicalPlan::Statement(Statement::Prepare(p)) = &plan {
                    println!("PREPARE fields: {:?}", p.fields.iter().map(|f| f.data_type().to_string()).collect::<Vec<_>>());
                }
                let _ = engine::run_plan(&sctx, plan);
                let ex = format!("EXECUTE dbg({})", vals);
                match engine::run_sql(&sctx, &ex) {
                    Ok(r) => println!("{ex}\n  -> {:?} {:?} {}", r.names, r.arrow_types, show_rows(&r.rows)),
                    Err(e) => println!("{ex}\n  -> ERROR {e}"),
                }
            }
        }
        return true;
    }
    false
}

fn main() {
    if debug_main(&mc_core::extra_args()) {
        return;
    }
    mc_core::quiet_panics();
    run_check(
        "C41",
        Level::Exploration,
        "every grammar query x every literal position of its AST (expression literals anywhere incl. IN lists, CASE arms, function/aggregate/window arguments, join conditions, HAVING, \
         subqueries, CTE bodies; LIKE patterns; LIMIT/OFFSET of every (sub)query; table-function arguments; frame offsets) replaced one at a time, all at once ($1..$n) and two sharing one \
         placeholder x every value of the position's domain incl. NULL and the original literal (all-at-once: originals, diagonal shifts, all NULL) x routes {ctx.sql + with_param_values \
         positional, named; PREPARE/EXECUTE with inferred types, with declared types} x 12 rich databases; oracle = the same text with the value written as a literal (of the parameter's \
         type for PREPARE), errors only where the literal errors; placeholder texts the planner refuses are counted; \
         non-trivial = distinct (placeholder text, values, route, database) whose result is non-empty and differs from the result of another value assignment of the same text on that database",
        explore,
        replay,
    );
}
