//! C49 — catalog changes are applied exactly and reflected in the information schema.
//!
//! Style H: breadth-first search over DDL histories on a real `SessionContext`
//! (information_schema enabled, no pre-registered table).  A state is the
//! history reaching it (fresh context + replay per transition); states are
//! de-duplicated by the canonical form of the reference catalog.  The
//! reference catalog (nested maps) decides success / failure of every
//! statement; after the last statement of a history the probes are compared:
//! `SELECT * FROM name` for every name, information_schema.tables / columns /
//! views / schemata.
use chk_sql::sqlmc::value::{Row, Value, canonical_rows, show_rows};
use chk_sql::sqlmc::{ContextOptions, Database, engine, same_multiset};
use mc_core::serde_json::{Value as Json, json};
use mc_core::{Ctx, Level, rayon::prelude::*, run_check};
use serde::{Deserialize, Serialize};
use std::collections::{BTreeMap, BTreeSet, HashSet};

const CAT: &str = "datafusion";
const PUBLIC: &str = "public";

/// The object names: (sql spelling, catalog, schema, resolved name).  The last one
/// lives in a schema of the second catalog `d` that has the SAME name (`public`) as
/// the default schema of the default catalog.
const NAMES: [(&str, &str, &str, &str); 4] =
    [("a", CAT, PUBLIC, "a"), ("\"A\"", CAT, PUBLIC, "A"), ("s.a", CAT, "s", "a"), ("d.public.a", "d", PUBLIC, "a")];
/// Index of the name in the second catalog: only the statements of `per_name_d` use it.
const NAME_D: usize = 3;

#[derive(Clone, Copy, Debug, PartialEq, Eq, Hash, Serialize, Deserialize, PartialOrd, Ord)]
enum Op {
    CreateTable,            // CREATE TABLE n (x INT)
    CreateTableIfNotExists, // CREATE TABLE IF NOT EXISTS n (x INT, y TEXT)
    CreateOrReplaceTable,   // CREATE OR REPLACE TABLE n (x INT, y TEXT)
    CreateTableAs,          // CREATE TABLE n AS SELECT 1 AS x
    DropTable,
    DropTableIfExists,
    CreateViewOverA,      // CREATE VIEW n AS SELECT x FROM a
    CreateOrReplaceConst, // CREATE OR REPLACE VIEW n AS SELECT 2 AS x
    DropView,
    DropViewIfExists,
    Insert, // INSERT INTO n VALUES (7)
    CreateSchema,
    CreateSchemaIfNotExists,
    DropSchema,
    DropSchemaCascade,
    DropSchemaIfExists,
    CreateDatabase,
    CreateSchemaInD, // CREATE SCHEMA d.public
}

#[derive(Clone, Copy, Debug, PartialEq, Eq, Hash, Serialize, Deserialize, PartialOrd, Ord)]
struct Stmt {
    op: Op,
    /// index into NAMES (ignored by schema / database statements)
    name: usize,
}

impl Stmt {
    fn sql(&self) -> String {
        let n = NAMES[self.name].0;
        match self.op {
            Op::CreateTable => format!("CREATE TABLE {n} (x INT)"),
            Op::CreateTableIfNotExists => format!("CREATE TABLE IF NOT EXISTS {n} (x INT, y TEXT)"),
            Op::CreateOrReplaceTable => format!("CREATE OR REPLACE TABLE {n} (x INT, y TEXT)"),
            Op::CreateTableAs => format!("CREATE TABLE {n} AS SELECT 1 AS x"),
            Op::DropTable => format!("DROP TABLE {n}"),
            Op::DropTableIfExists => format!("DROP TABLE IF EXISTS {n}"),
            Op::CreateViewOverA => format!("CREATE VIEW {n} AS SELECT x FROM a"),
            Op::CreateOrReplaceConst => format!("CREATE OR REPLACE VIEW {n} AS SELECT 2 AS x"),
            Op::DropView => format!("DROP VIEW {n}"),
            Op::DropViewIfExists => format!("DROP VIEW IF EXISTS {n}"),
            Op::Insert => format!("INSERT INTO {n} VALUES (7)"),
            Op::CreateSchema => "CREATE SCHEMA s".into(),
            Op::CreateSchemaIfNotExists => "CREATE SCHEMA IF NOT EXISTS s".into(),
            Op::DropSchema => "DROP SCHEMA s".into(),
            Op::DropSchemaCascade => "DROP SCHEMA s CASCADE".into(),
            Op::DropSchemaIfExists => "DROP SCHEMA IF EXISTS s".into(),
            Op::CreateDatabase => "CREATE DATABASE d".into(),
            Op::CreateSchemaInD => "CREATE SCHEMA d.public".into(),
        }
    }
}

fn alphabet() -> Vec<Stmt> {
    let mut out = vec![];
    let per_name = [
        Op::CreateTable,
        Op::CreateTableIfNotExists,
        Op::CreateOrReplaceTable,
        Op::CreateTableAs,
        Op::DropTable,
        Op::DropTableIfExists,
        Op::CreateViewOverA,
        Op::CreateOrReplaceConst,
        Op::DropView,
        Op::DropViewIfExists,
        Op::Insert,
    ];
    for op in per_name {
        for name in 0..NAME_D {
            out.push(Stmt { op, name });
        }
    }
    // second catalog: a schema named like the default one, plain tables only
    for op in [Op::CreateTable, Op::DropTable, Op::Insert] {
        out.push(Stmt { op, name: NAME_D });
    }
    out.push(Stmt { op: Op::CreateSchemaInD, name: 0 });
    for op in [Op::CreateSchema, Op::CreateSchemaIfNotExists, Op::DropSchema, Op::DropSchemaCascade, Op::DropSchemaIfExists, Op::CreateDatabase] {
        out.push(Stmt { op, name: 0 });
    }
    out
}

// ------------------------------------------------------------ reference catalog

#[derive(Clone, Debug, PartialEq, Eq, Hash, PartialOrd, Ord)]
struct Col {
    name: &'static str,
    ty: &'static str,
    nullable: bool,
}

#[derive(Clone, Copy, Debug, PartialEq, Eq, Hash, PartialOrd, Ord)]
enum ObjRef {
    Table(u32),
    View(u32),
}

#[derive(Clone, Debug, PartialEq, Eq, Hash, PartialOrd, Ord)]
struct TableObj {
    cols: Vec<Col>,
    rows: Vec<Row>,
}

#[derive(Clone, Debug, PartialEq, Eq, Hash, PartialOrd, Ord)]
struct ViewObj {
    /// `None` = constant view `SELECT 2 AS x`; `Some(captured)` = `SELECT x FROM a`
    /// with the object `a` denoted when the view was created
    over_a: Option<ObjRef>,
    sql: String,
}

#[derive(Clone, Debug, Default, PartialEq, Eq, Hash)]
struct Model {
    /// catalog -> schema -> object name -> object
    catalogs: BTreeMap<String, BTreeMap<String, BTreeMap<String, ObjRef>>>,
    /// arenas: dropped objects stay (a view may still denote them)
    tables: BTreeMap<u32, TableObj>,
    views: BTreeMap<u32, ViewObj>,
    next: u32,
}

type Answer = Result<(Vec<String>, Vec<Row>), ()>;

impl Model {
    fn new() -> Model {
        let mut m = Model::default();
        m.catalogs.entry(CAT.into()).or_default().insert(PUBLIC.into(), BTreeMap::new());
        m
    }
    fn schema(&self, schema: &str) -> Option<&BTreeMap<String, ObjRef>> {
        self.schema_in(CAT, schema)
    }
    fn schema_in(&self, cat: &str, schema: &str) -> Option<&BTreeMap<String, ObjRef>> {
        self.catalogs.get(cat)?.get(schema)
    }
    fn lookup(&self, name: usize) -> Option<ObjRef> {
        let (_, c, s, n) = NAMES[name];
        self.schema_in(c, s)?.get(n).copied()
    }
    fn unlink(&mut self, name: usize) {
        let (_, c, s, n) = NAMES[name];
        self.catalogs.get_mut(c).unwrap().get_mut(s).unwrap().remove(n);
    }
    fn x_int() -> Vec<Col> {
        vec![Col { name: "x", ty: "Int32", nullable: true }]
    }
    fn x_y() -> Vec<Col> {
        vec![Col { name: "x", ty: "Int32", nullable: true }, Col { name: "y", ty: "Utf8View", nullable: true }]
    }
    fn put(&mut self, name: usize, o: ObjRef) {
        let (_, c, s, n) = NAMES[name];
        self.catalogs.get_mut(c).unwrap().get_mut(s).unwrap().insert(n.into(), o);
    }
    fn new_table(&mut self, cols: Vec<Col>, rows: Vec<Row>) -> ObjRef {
        self.next += 1;
        self.tables.insert(self.next, TableObj { cols, rows });
        ObjRef::Table(self.next)
    }
    fn new_view(&mut self, over_a: Option<ObjRef>, sql: String) -> ObjRef {
        self.next += 1;
        self.views.insert(self.next, ViewObj { over_a, sql });
        ObjRef::View(self.next)
    }

    /// Apply a statement: `true` = succeeds (and the model is updated), `false` = must fail.
    fn apply(&mut self, st: &Stmt) -> bool {
        let (_, cat, schema, _) = NAMES[st.name];
        let schema_exists = self.schema_in(cat, schema).is_some();
        let existing = self.lookup(st.name);
        match st.op {
            Op::CreateTable | Op::CreateTableAs => {
                if !schema_exists || existing.is_some() {
                    return false;
                }
                let t = if st.op == Op::CreateTable {
                    self.new_table(Self::x_int(), vec![])
                } else {
                    self.new_table(vec![Col { name: "x", ty: "Int64", nullable: false }], vec![vec![Value::Int(1)]])
                };
                self.put(st.name, t);
                true
            }
            Op::CreateTableIfNotExists => {
                if !schema_exists {
                    return false;
                }
                if existing.is_none() {
                    let t = self.new_table(Self::x_y(), vec![]);
                    self.put(st.name, t);
                }
                true
            }
            Op::CreateOrReplaceTable => {
                if !schema_exists {
                    return false;
                }
                let t = self.new_table(Self::x_y(), vec![]);
                self.put(st.name, t);
                true
            }
            Op::DropTable | Op::DropTableIfExists => match existing {
                Some(ObjRef::Table(_)) => {
                    self.unlink(st.name);
                    true
                }
                _ => st.op == Op::DropTableIfExists,
            },
            Op::DropView | Op::DropViewIfExists => match existing {
                Some(ObjRef::View(_)) => {
                    self.unlink(st.name);
                    true
                }
                _ => st.op == Op::DropViewIfExists,
            },
            Op::CreateViewOverA => {
                // the defining query must resolve `a`; the name must be free
                let src = self.lookup(0);
                if !schema_exists || existing.is_some() || src.is_none() {
                    return false;
                }
                let v = self.new_view(src, st.sql());
                self.put(st.name, v);
                true
            }
            Op::CreateOrReplaceConst => {
                if !schema_exists {
                    return false;
                }
                let v = self.new_view(None, st.sql());
                self.put(st.name, v);
                true
            }
            Op::Insert => match existing {
                Some(ObjRef::Table(id)) if self.tables[&id].cols.len() == 1 => {
                    self.tables.get_mut(&id).unwrap().rows.push(vec![Value::Int(7)]);
                    true
                }
                _ => false,
            },
            Op::CreateSchema | Op::CreateSchemaIfNotExists => {
                if self.schema("s").is_some() {
                    return st.op == Op::CreateSchemaIfNotExists;
                }
                self.catalogs.get_mut(CAT).unwrap().insert("s".into(), BTreeMap::new());
                true
            }
            Op::DropSchema | Op::DropSchemaCascade | Op::DropSchemaIfExists => match self.schema("s") {
                None => st.op == Op::DropSchemaIfExists,
                Some(objs) => {
                    if !objs.is_empty() && st.op != Op::DropSchemaCascade {
                        return false;
                    }
                    self.catalogs.get_mut(CAT).unwrap().remove("s");
                    true
                }
            },
            Op::CreateDatabase => {
                if self.catalogs.contains_key("d") {
                    return false;
                }
                self.catalogs.insert("d".into(), BTreeMap::new());
                true
            }
            Op::CreateSchemaInD => {
                // needs the catalog; an existing schema is an error (no IF NOT EXISTS)
                match self.catalogs.get_mut("d") {
                    Some(schemas) if !schemas.contains_key(PUBLIC) => {
                        schemas.insert(PUBLIC.into(), BTreeMap::new());
                        true
                    }
                    _ => false,
                }
            }
        }
    }

    fn answer_obj(&self, o: ObjRef, by_name: bool) -> Answer {
        match o {
            ObjRef::Table(id) => {
                let t = &self.tables[&id];
                Ok((t.cols.iter().map(|c| c.name.to_string()).collect(), t.rows.iter().map(|r| {
                    let mut r = r.clone();
                    r.resize(t.cols.len(), Value::Null);
                    r
                }).collect()))
            }
            ObjRef::View(id) => match self.views[&id].over_a {
                None => Ok((vec!["x".into()], vec![vec![Value::Int(2)]])),
                Some(captured) => {
                    // by name: `a` as the catalog denotes it NOW; by capture: the object denoted at creation
                    let src = if by_name { self.lookup(0).ok_or(())? } else { captured };
                    let (cols, rows) = self.answer_obj(src, by_name)?;
                    let k = cols.iter().position(|c| c == "x").ok_or(())?;
                    Ok((vec!["x".into()], rows.into_iter().map(|r| vec![r[k].clone()]).collect()))
                }
            },
        }
    }
    /// `SELECT * FROM name`
    fn answer(&self, name: usize, by_name: bool) -> Answer {
        self.answer_obj(self.lookup(name).ok_or(())?, by_name)
    }

    /// Canonical key: catalog content with arena ids renumbered in traversal
    /// order, unreachable arena entries dropped.
    fn canonical(&self) -> String {
        let mut ren: BTreeMap<ObjRef, usize> = BTreeMap::new();
        let mut out = String::new();
        fn visit(m: &Model, o: ObjRef, ren: &mut BTreeMap<ObjRef, usize>, out: &mut String) {
            if let Some(k) = ren.get(&o) {
                out.push_str(&format!("#{k}"));
                return;
            }
            let k = ren.len();
            ren.insert(o, k);
            match o {
                ObjRef::Table(id) => {
                    let t = &m.tables[&id];
                    out.push_str(&format!("#{k}=T{:?}{}", t.cols.iter().map(|c| (c.name, c.ty)).collect::<Vec<_>>(), show_rows(&canonical_rows(&t.rows))));
                }
                ObjRef::View(id) => {
                    let v = &m.views[&id];
                    out.push_str(&format!("#{k}=V[{}](", v.sql));
                    if let Some(c) = v.over_a {
                        visit(m, c, ren, out);
                    }
                    out.push(')');
                }
            }
        }
        for (c, schemas) in &self.catalogs {
            out.push_str(&format!("{c}{{"));
            for (s, objs) in schemas {
                out.push_str(&format!("{s}{{"));
                for (n, o) in objs {
                    out.push_str(&format!("{n}:"));
                    visit(self, *o, &mut ren, &mut out);
                    out.push(';');
                }
                out.push('}');
            }
            out.push('}');
        }
        out
    }
}

// ------------------------------------------------------------------ the check

#[derive(Serialize, Deserialize, Clone, Debug)]
struct Case {
    history: Vec<Stmt>,
}

const CAUSE_VIEW_CAPTURE: &str = "view-denotes-table-object-captured-at-creation:SessionContext::create_view(ViewTable plan holds the TableSource)";
const CAUSE_IS_VIEWS: &str = "information-schema-views-lists-base-tables:InformationSchemaConfig::make_views";

struct Outcome {
    model: Model,
    /// confirmed root causes that explain (exactly) a probe disagreement of this history
    causes: Vec<(&'static str, String)>,
}

fn text(v: &Value) -> String {
    match v {
        Value::Text(s) => s.clone(),
        Value::Null => "NULL".into(),
        other => other.sql_literal(),
    }
}

/// Replay `history` on a fresh context and compare with the reference catalog.
fn run_history(c: &Case) -> Result<Outcome, String> {
    let sctx = engine::make_context(&Database { tables: vec![] }, &ContextOptions::default())?;
    let mut m = Model::new();
    for (k, st) in c.history.iter().enumerate() {
        let sql = st.sql();
        let expect_ok = m.apply(st);
        let got = engine::run_sql(&sctx, &sql);
        if let Err(e) = &got {
            if e.starts_with("panic:") {
                return Err(format!("step {k} `{sql}` panicked: {e}"));
            }
        }
        if got.is_ok() != expect_ok {
            return Err(format!(
                "step {k} `{sql}`: engine {}, reference catalog says it must {}",
                match &got {
                    Ok(_) => "succeeded".to_string(),
                    Err(e) => format!("failed ({})", e.lines().last().unwrap_or("")),
                },
                if expect_ok { "succeed" } else { "fail" }
            ));
        }
    }
    let mut causes: Vec<(&'static str, String)> = vec![];
    // P1: SELECT * FROM every name
    for (i, (spelling, _, _, _)) in NAMES.iter().enumerate() {
        let sql = format!("SELECT * FROM {spelling}");
        let got = engine::run_sql(&sctx, &sql);
        let agree = |want: &Answer| -> bool {
            match (want, &got) {
                (Err(()), Err(_)) => true,
                (Ok((cols, rows)), Ok(r)) => &r.names == cols && same_multiset(&r.rows, rows),
                _ => false,
            }
        };
        let want = m.answer(i, true);
        if !agree(&want) {
            let what = format!(
                "`{sql}`: engine {}, reference (names resolved against the current catalog) {}",
                match &got {
                    Ok(r) => format!("{:?} {}", r.names, show_rows(&r.rows)),
                    Err(e) => format!("fails ({})", e.lines().last().unwrap_or("")),
                },
                match &want {
                    Ok((c, r)) => format!("{c:?} {}", show_rows(r)),
                    Err(()) => "fails".into(),
                }
            );
            if agree(&m.answer(i, false)) {
                causes.push((CAUSE_VIEW_CAPTURE, what));
            } else {
                return Err(what);
            }
        }
    }
    // P2: information_schema.tables
    let objects: Vec<(String, String, String, ObjRef)> = m
        .catalogs
        .iter()
        .flat_map(|(c, ss)| ss.iter().flat_map(move |(s, os)| os.iter().map(move |(n, o)| (c.clone(), s.clone(), n.clone(), *o))))
        .collect();
    let q = |sql: &str| engine::run_sql(&sctx, sql).map_err(|e| format!("`{sql}` failed: {e}"));
    {
        let got = q("SELECT table_catalog, table_schema, table_name, table_type FROM information_schema.tables WHERE table_schema <> 'information_schema'")?;
        let want: Vec<Row> = objects
            .iter()
            .map(|(c, s, n, o)| vec![Value::text(c), Value::text(s), Value::text(n), Value::text(if matches!(o, ObjRef::Table(_)) { "BASE TABLE" } else { "VIEW" })])
            .collect();
        if !same_multiset(&got.rows, &want) {
            return Err(format!("information_schema.tables = {}, reference {}", show_rows(&canonical_rows(&got.rows)), show_rows(&canonical_rows(&want))));
        }
    }
    // P3: information_schema.columns (types and nullability for base tables, names for views)
    {
        let got = q("SELECT table_catalog, table_schema, table_name, column_name, ordinal_position, data_type, is_nullable FROM information_schema.columns WHERE table_schema <> 'information_schema'")?;
        let mut want: Vec<Row> = vec![];
        let mut view_names: BTreeSet<(String, String, String)> = BTreeSet::new();
        for (c, s, n, o) in &objects {
            match o {
                ObjRef::Table(id) => {
                    for (k, col) in m.tables[id].cols.iter().enumerate() {
                        want.push(vec![Value::text(c), Value::text(s), Value::text(n), Value::text(col.name), Value::Int(k as i64), Value::text(col.ty), Value::text(if col.nullable { "YES" } else { "NO" })]);
                    }
                }
                ObjRef::View(_) => {
                    view_names.insert((c.clone(), s.clone(), n.clone()));
                    want.push(vec![Value::text(c), Value::text(s), Value::text(n), Value::text("x"), Value::Int(0)]);
                }
            }
        }
        let got_rows: Vec<Row> = got
            .rows
            .iter()
            .map(|r| {
                let is_view = view_names.contains(&(text(&r[0]), text(&r[1]), text(&r[2])));
                if is_view { r[..5].to_vec() } else { r.clone() }
            })
            .collect();
        if !same_multiset(&got_rows, &want) {
            return Err(format!("information_schema.columns = {}, reference {}", show_rows(&canonical_rows(&got_rows)), show_rows(&canonical_rows(&want))));
        }
    }
    // P4: information_schema.views
    {
        let got = q("SELECT table_catalog, table_schema, table_name, definition FROM information_schema.views")?;
        let want: Vec<Row> = objects
            .iter()
            .filter_map(|(c, s, n, o)| match o {
                ObjRef::View(id) => Some(vec![Value::text(c), Value::text(s), Value::text(n), Value::text(&m.views[id].sql)]),
                _ => None,
            })
            .collect();
        if !same_multiset(&got.rows, &want) {
            // explained exactly by "every base table is listed too, with a NULL definition"?
            let extra: Vec<Row> = objects
                .iter()
                .filter(|(_, _, _, o)| matches!(o, ObjRef::Table(_)))
                .map(|(c, s, n, _)| vec![Value::text(c), Value::text(s), Value::text(n), Value::Null])
                .collect();
            let mut alt = want.clone();
            alt.extend(extra);
            let what = format!("information_schema.views = {}, reference (views only) {}", show_rows(&canonical_rows(&got.rows)), show_rows(&canonical_rows(&want)));
            if same_multiset(&got.rows, &alt) {
                causes.push((CAUSE_IS_VIEWS, what));
            } else {
                return Err(what);
            }
        }
    }
    // P5: information_schema.schemata
    {
        let got = q("SELECT catalog_name, schema_name FROM information_schema.schemata WHERE schema_name <> 'information_schema'")?;
        let want: Vec<Row> = m.catalogs.iter().flat_map(|(c, ss)| ss.keys().map(move |s| vec![Value::text(c), Value::text(s)])).collect();
        if !same_multiset(&got.rows, &want) {
            return Err(format!("information_schema.schemata = {}, reference {}", show_rows(&canonical_rows(&got.rows)), show_rows(&canonical_rows(&want))));
        }
    }
    Ok(Outcome { model: m, causes })
}

fn explore(ctx: &Ctx) {
    let depth = ctx.pick(5usize, 7usize);
    let ops = alphabet();
    ctx.set_extra(
        "bounds",
        json!({"max_history": depth, "alphabet": ops.len(), "names": NAMES.iter().map(|n| n.0).collect::<Vec<_>>(),
               "statements": ops.iter().map(|s| s.sql()).collect::<Vec<_>>(),
               "probes": ["SELECT * FROM <each name>", "information_schema.tables", "information_schema.columns", "information_schema.views", "information_schema.schemata"]}),
    );
    let mut seen: HashSet<String> = HashSet::new();
    seen.insert(Model::new().canonical());
    ctx.add_states(1);
    // the empty history is a case too (probes on the initial catalog)
    let mut cause_min: BTreeMap<&'static str, (Vec<Stmt>, String, u64)> = BTreeMap::new();
    let note_causes = |cause_min: &mut BTreeMap<&'static str, (Vec<Stmt>, String, u64)>, hist: &[Stmt], causes: Vec<(&'static str, String)>| {
        for (k, what) in causes {
            match cause_min.get_mut(k) {
                Some(e) => {
                    e.2 += 1;
                    if (hist.len(), hist) < (e.0.len(), e.0.as_slice()) {
                        e.0 = hist.to_vec();
                        e.1 = what;
                    }
                }
                None => {
                    cause_min.insert(k, (hist.to_vec(), what, 1));
                }
            }
        }
    };
    match run_history(&Case { history: vec![] }) {
        Ok(o) => note_causes(&mut cause_min, &[], o.causes),
        Err(w) => ctx.violation("<empty history>", w, serde_json::to_value(Case { history: vec![] }).unwrap()),
    }
    let mut frontier: Vec<Vec<Stmt>> = vec![vec![]];
    for d in 1..=depth {
        if ctx.should_stop() {
            ctx.mark_capped("wall cap");
            break;
        }
        let work: Vec<Vec<Stmt>> = frontier
            .iter()
            .flat_map(|h| {
                ops.iter().map(move |op| {
                    let mut h2 = h.clone();
                    h2.push(*op);
                    h2
                })
            })
            .collect();
        let results: Vec<(Vec<Stmt>, Option<Result<Outcome, String>>)> = work
            .into_par_iter()
            .map(|h| {
                if ctx.out_of_time() {
                    return (h, None);
                }
                ctx.eval();
                let r = mc_core::catch(|| run_history(&Case { history: h.clone() })).unwrap_or_else(Err);
                (h, Some(r))
            })
            .collect();
        let mut next = vec![];
        for (h, r) in results {
            match r {
                None => ctx.mark_capped("wall cap"),
                Some(Ok(o)) => {
                    ctx.add_transitions(1);
                    // non-trivial: the last statement changed the catalog (or table contents)
                    let mut before = Model::new();
                    for st in &h[..h.len() - 1] {
                        before.apply(st);
                    }
                    let key = o.model.canonical();
                    if before.canonical() != key {
                        ctx.nontrivial(&h);
                        if d >= 3 && o.model.views.len() > 0 && ctx.want_sample() {
                            ctx.sample(json!({"history": h.iter().map(|s| s.sql()).collect::<Vec<_>>(), "catalog": key}));
                        }
                    }
                    note_causes(&mut cause_min, &h, o.causes);
                    if seen.insert(key) {
                        ctx.add_states(1);
                        next.push(h);
                    }
                }
                Some(Err(w)) => {
                    ctx.add_transitions(1);
                    let key = h.iter().map(|s| s.sql()).collect::<Vec<_>>().join("; ");
                    ctx.violation(key, w, serde_json::to_value(Case { history: h.clone() }).unwrap());
                }
            }
        }
        frontier = next;
        if frontier.is_empty() {
            break;
        }
    }
    for (k, (hist, what, n)) in cause_min {
        ctx.count(&format!("histories_attributed_to:{k}"), n);
        ctx.violation(
            k,
            format!("after [{}]: {what} [{n} histories show this root cause; this is the shortest]", hist.iter().map(|s| s.sql()).collect::<Vec<_>>().join("; ")),
            serde_json::to_value(Case { history: hist }).unwrap(),
        );
    }
}

fn replay(v: &Json) -> Result<(), String> {
    let c: Case = serde_json::from_value(v.clone()).map_err(|e| format!("bad case: {e}"))?;
    let o = mc_core::catch(|| run_history(&c)).unwrap_or_else(Err)?;
    match o.causes.first() {
        Some((k, what)) => Err(format!("[{k}] {what}")),
        None => Ok(()),
    }
}

fn main() {
    mc_core::quiet_panics();
    run_check(
        "C49",
        Level::ModelChecking,
        "BFS over DDL histories (CREATE [OR REPLACE] TABLE [IF NOT EXISTS] / CTAS, DROP TABLE/VIEW [IF EXISTS], CREATE [OR REPLACE] VIEW, CREATE/DROP SCHEMA [IF [NOT] EXISTS] [CASCADE], CREATE DATABASE, INSERT) \
         over names a, \"A\", s.a and d.public.a (second catalog, schema named like the default one: CREATE SCHEMA d.public, CREATE/DROP TABLE, INSERT); states = distinct canonical reference catalogs, transitions = histories replayed on a fresh SessionContext (success/failure of every statement, then SELECT * per name and \
         information_schema.tables/columns/views/schemata compared with the reference catalog); non-trivial = the last statement changed the catalog or a table's contents",
        explore,
        replay,
    );
}
