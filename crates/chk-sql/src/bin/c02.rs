//! C02 (configuration part) — query results do not depend on execution
//! configuration or parallelism.
//!
//! Enumerated: a menu of semantics-neutral settings (session options set through
//! `ConfigOptions::set`, plus the physical layout of the registered tables:
//! MemTable partitions x batches, or Parquet files in an in-memory object store),
//! explored **deviation-bounded** around three centres:
//!
//! * `default`  — the configuration C01 pins (defaults, target_partitions = 1,
//!   1 partition / 1 batch MemTables);
//! * `parallel` — target_partitions = 3, batch_size = 2, tables in 2 partitions of
//!   1-row batches (so that the repartition / partial-aggregate / partitioned-join /
//!   merge switches, which are no-ops with one partition, actually change the plan);
//! * `files`    — tables stored as 2 Parquet files each (ListingTable over an
//!   in-memory object store), target_partitions = 2 (file groups, shared work queue,
//!   Parquet reader switches).
//!
//! quick: every centre + every single deviation from every centre;
//! thorough: additionally every pair of deviations (of two different options) from
//! `default` and from `parallel`.
//! x a query subset of grammar G containing every operator tag (greedy cover +
//! simplest-first padding) x the 12 rich databases.
//!
//! Oracle (metamorphic): the result under a configuration equals the result of the
//! same query on the same database under `default`, compared with the rule of
//! `compare_engine_results` for the query's ORDER BY / LIMIT shape (multiset;
//! key sequence + multisets inside tie runs; row count only where LIMIT makes the
//! choice free).  (query, database) pairs for which SQL does not define a single
//! answer (the independent reference interpreter reports `Ambiguous`: LIMIT cutting
//! ties inside a subquery, row_number over tied peers, DISTINCT ON without a total
//! order, order-sensitive aggregates over tied keys, ...) are skipped and counted;
//! where the reference says the statement may fail at run time, an error on either
//! side is accepted (and counted), results are compared when both succeed.
//!
//! Debug helpers: `c02 --list-configs [--tier thorough]`, `c02 --list-queries`,
//! `c02 --explain "<sql>" --config "<config name>" [--db <rich db label>]`.
use arrow::array::RecordBatch;
use chk_sql::sqlmc::compare::{OrderSpec, compare_engine_results};
use chk_sql::sqlmc::db::{self, Database};
use chk_sql::sqlmc::engine::{self, Layout, QueryResult, TextEncoding};
use chk_sql::sqlmc::grammar::{self, GenQuery, QueryFlags, Tier};
use chk_sql::sqlmc::reference::{self, RefOutcome};
use chk_sql::sqlmc::value::{Value, show_rows};
use datafusion::physical_plan::displayable;
use datafusion::prelude::{ParquetReadOptions, SessionConfig, SessionContext};
use mc_core::serde_json::{Value as Json, json};
use mc_core::{Ctx, Level, rayon::prelude::*, run_check};
use object_store::memory::InMemory;
use object_store::path::Path as ObjPath;
use object_store::{ObjectStoreExt, PutPayload};
use serde::{Deserialize, Serialize};
use std::collections::BTreeMap;
use std::sync::{Arc, Mutex};

// ------------------------------------------------------------------ configurations

/// Physical layout of every table.
#[derive(Clone, Debug, PartialEq, Eq, Hash, Serialize, Deserialize)]
enum TableLayout {
    /// MemTable in the library's layout.
    Mem(Layout),
    /// Row `i` goes to Parquet file `i % files`; every file is written with row groups of
    /// at most `row_group_rows` rows (0 = one row group).  Files that receive no row are
    /// not written; a table without rows is an empty directory (schema given explicitly).
    /// `sorted`: the rows of every file are sorted by the table's first column (ASC NULLS LAST)
    /// and the table is registered with that file sort order declared.
    Parquet { files: usize, row_group_rows: usize, sorted: bool },
}

/// One fully resolved configuration: what `make_ctx` needs.
#[derive(Clone, Debug, Serialize, Deserialize)]
struct ConfigSpec {
    /// `centre` or `centre + dev` or `centre + dev + dev`
    name: String,
    layout: TableLayout,
    /// `ConfigOptions::set(key, value)` calls applied in order on `engine::default_config()`
    settings: Vec<(String, String)>,
}

/// One deviation of the menu: a non-default value of one option (`option` names the
/// option, so that two values of one option are never paired).
#[derive(Clone, Debug)]
struct Dev {
    option: &'static str,
    name: String,
    layout: Option<TableLayout>,
    settings: Vec<(String, String)>,
    /// the option acts at run time without (necessarily) changing the plan text: the
    /// deviation counts as non-trivial for a query whose plan contains this text
    runtime_if_plan_contains: Option<&'static str>,
    /// applied to this centre only (file / Parquet switches: `files`)
    only: Option<&'static str>,
}

const E: &str = "datafusion.execution.";
const O: &str = "datafusion.optimizer.";

fn dev(option: &'static str, prefix: &str, value: &str) -> Dev {
    Dev {
        option,
        name: format!("{option}={value}"),
        layout: None,
        settings: vec![(format!("{prefix}{option}"), value.to_string())],
        runtime_if_plan_contains: None,
        only: None,
    }
}

fn mem(partitions: usize, batch_rows: usize) -> TableLayout {
    TableLayout::Mem(Layout::RoundRobin { partitions, batch_rows })
}

/// The menu M of semantics-neutral deviations (DESIGN §4.1 C02, adapted to the options
/// that exist at this revision).
fn menu() -> Vec<Dev> {
    let mut m: Vec<Dev> = vec![];
    for v in ["2", "3", "7"] {
        m.push(dev("target_partitions", E, v));
    }
    for v in ["1", "2", "3"] {
        let mut d = dev("batch_size", E, v);
        d.runtime_if_plan_contains = Some("");
        m.push(d);
    }
    // table layout: partitions {1,2,3} x batches {whole, 1-row, 2-row}
    for (p, b) in [(1usize, 1usize), (1, 2), (2, 0), (2, 1), (3, 0), (3, 1), (3, 2)] {
        m.push(Dev { option: "layout", name: format!("layout=mem(p{p},b{b})"), layout: Some(mem(p, b)), settings: vec![], runtime_if_plan_contains: Some(""), only: None });
    }
    for (f, g, sorted) in [(1usize, 0usize, false), (2, 1, false), (2, 1, true), (3, 0, true)] {
        m.push(Dev {
            option: "layout",
            name: format!("layout=parquet(f{f},g{g}{})", if sorted { ",sorted" } else { "" }),
            layout: Some(TableLayout::Parquet { files: f, row_group_rows: g, sorted }),
            settings: vec![],
            runtime_if_plan_contains: Some(""),
            only: None,
        });
    }
    m.push(dev("coalesce_batches", E, "false"));
    for o in ["repartition_joins", "repartition_aggregations", "repartition_windows", "repartition_sorts", "enable_round_robin_repartition"] {
        m.push(dev(o, O, "false"));
    }
    m.push(dev("prefer_hash_join", O, "false"));
    m.push(dev("enable_piecewise_merge_join", O, "true"));
    m.push(dev("hash_join_single_partition_threshold", O, "0"));
    m.push(dev("hash_join_single_partition_threshold_rows", O, "0"));
    // the `parallel` centre sets both thresholds to 0 (every hash join Partitioned): there the deviation is back to the defaults
    m.push(Dev {
        option: "hash_join_single_partition_threshold",
        name: "hash_join_single_partition_threshold{,_rows}=default".into(),
        layout: None,
        settings: vec![(format!("{O}hash_join_single_partition_threshold"), "4194304".into()), (format!("{O}hash_join_single_partition_threshold_rows"), "131072".into())],
        runtime_if_plan_contains: None,
        only: Some("parallel"),
    });
    // perfect (array-map) hash join is used unless BOTH thresholds refuse it: one bundled switch
    m.push(Dev {
        option: "perfect_hash_join",
        name: "perfect_hash_join=off".into(),
        layout: None,
        settings: vec![(format!("{E}perfect_hash_join_small_build_threshold"), "0".into()), (format!("{E}perfect_hash_join_min_key_density"), "1000000".into())],
        runtime_if_plan_contains: Some("HashJoinExec"),
        only: None,
    });
    for o in ["enable_dynamic_filter_pushdown", "enable_topk_dynamic_filter_pushdown", "enable_join_dynamic_filter_pushdown", "enable_aggregate_dynamic_filter_pushdown"] {
        m.push(dev(o, O, "false"));
    }
    m.push(dev("enable_topk_aggregation", O, "false"));
    m.push(dev("enable_window_topn", O, "true"));
    m.push(dev("enable_window_limits", O, "false"));
    m.push(dev("enable_topk_repartition", O, "false"));
    m.push(dev("enable_distinct_aggregation_soft_limit", O, "false"));
    for v in ["0", "1"] {
        let mut d = dev("skip_partial_aggregation_probe_rows_threshold", E, v);
        // skipping needs rows_threshold reached AND ratio above the ratio threshold: bundle ratio 0
        d.settings.push((format!("{E}skip_partial_aggregation_probe_ratio_threshold"), "0".into()));
        d.name = format!("skip_partial_aggregation(rows>={v},ratio>0)");
        d.runtime_if_plan_contains = Some("mode=Partial");
        m.push(d);
    }
    {
        let mut d = dev("enable_migration_aggregate", E, "false");
        d.runtime_if_plan_contains = Some("AggregateExec");
        m.push(d);
    }
    for o in ["sort_in_place_threshold_bytes", "sort_spill_reservation_bytes"] {
        let mut d = dev(o, E, "0");
        d.runtime_if_plan_contains = Some("SortExec");
        m.push(d);
    }
    {
        let mut d = dev("sort_pushdown_buffer_capacity", E, "1");
        d.runtime_if_plan_contains = Some("BufferExec");
        m.push(d);
    }
    {
        let mut d = dev("enforce_batch_size_in_joins", E, "true");
        d.runtime_if_plan_contains = Some("Join");
        m.push(d);
    }
    m.push(dev("hash_join_buffering_capacity", E, "1048576"));
    m.push(dev("use_row_number_estimates_to_optimize_partitioning", E, "true"));
    m.push(dev("planning_concurrency", E, "1"));
    m.push(dev("skip_physical_aggregate_schema_check", E, "true"));
    m.push(dev("prefer_existing_sort", O, "true"));
    m.push(dev("prefer_existing_union", O, "true"));
    m.push(dev("enable_sort_pushdown", O, "false"));
    m.push(dev("enable_leaf_expression_pushdown", O, "false"));
    m.push(dev("enable_unions_to_filter", O, "true"));
    m.push(dev("filter_null_join_keys", O, "true"));
    m.push(dev("top_down_join_key_reordering", O, "false"));
    m.push(dev("join_reordering", O, "false"));
    m.push(dev("use_statistics_registry", O, "true"));
    m.push(dev("enable_physical_uncorrelated_scalar_subquery", O, "false"));
    m.push(dev("subset_repartition_threshold", O, "1"));
    m.push(dev("max_passes", O, "1"));
    m.push(dev("skip_failed_rules", O, "true"));
    m.push(dev("default_filter_selectivity", O, "100"));
    m.push(dev("allow_symmetric_joins_without_pruning", O, "false"));
    for (o, v) in [("hash_join_inlist_pushdown_max_size", "0"), ("hash_join_inlist_pushdown_max_distinct_values", "1")] {
        let mut d = dev(o, O, v);
        d.runtime_if_plan_contains = Some("HashJoinExec");
        m.push(d);
    }
    m.push(dev("enable_subquery_sort_elimination", "datafusion.sql_parser.", "false"));
    // file-backed tables only
    let mut f = |option: &'static str, prefix: &str, value: &str, runtime: bool| {
        let mut d = dev(option, prefix, value);
        d.only = Some("files");
        if runtime {
            d.runtime_if_plan_contains = Some("DataSourceExec");
        }
        m.push(d);
    };
    f("collect_statistics", E, "false", false);
    f("enable_file_stream_work_stealing", E, "false", true);
    f("split_file_groups_by_statistics", E, "true", false);
    f("repartition_file_scans", O, "false", false);
    f("repartition_file_min_size", O, "10485760", false);
    f("preserve_file_partitions", O, "1", false);
    let p = "datafusion.execution.parquet.";
    f("pushdown_filters", p, "true", true);
    f("reorder_filters", p, "true", true);
    f("enable_page_index", p, "false", true);
    f("pruning", p, "false", true);
    f("bloom_filter_on_read", p, "false", true);
    f("force_filter_selections", p, "true", true);
    f("schema_force_view_types", p, "false", false);
    m
}

/// Options of the general menu that are also deviated from the `files` centre (those that act on /
/// through a file scan: scan shape, dynamic filters, sort pushdown / existing orderings, join algorithm).
const FILES_CENTRE_OPTIONS: [&str; 19] = [
    "target_partitions",
    "batch_size",
    "enable_dynamic_filter_pushdown",
    "enable_topk_dynamic_filter_pushdown",
    "enable_join_dynamic_filter_pushdown",
    "enable_aggregate_dynamic_filter_pushdown",
    "enable_sort_pushdown",
    "prefer_existing_sort",
    "sort_pushdown_buffer_capacity",
    "repartition_sorts",
    "prefer_hash_join",
    "enable_round_robin_repartition",
    "hash_join_inlist_pushdown_max_size",
    "hash_join_inlist_pushdown_max_distinct_values",
    "hash_join_buffering_capacity",
    "use_statistics_registry",
    "enable_physical_uncorrelated_scalar_subquery",
    "enable_topk_aggregation",
    "filter_null_join_keys",
];

/// A centre of the deviation-bounded exploration.
#[derive(Clone, Debug)]
struct Centre {
    name: &'static str,
    layout: TableLayout,
    settings: Vec<(String, String)>,
    files: bool,
}

fn centres() -> Vec<Centre> {
    vec![
        Centre { name: "default", layout: TableLayout::Mem(Layout::Single), settings: vec![], files: false },
        Centre {
            name: "parallel",
            layout: mem(2, 1),
            settings: vec![
                (format!("{E}target_partitions"), "3".into()),
                (format!("{E}batch_size"), "2".into()),
                (format!("{O}hash_join_single_partition_threshold"), "0".into()),
                (format!("{O}hash_join_single_partition_threshold_rows"), "0".into()),
            ],
            files: false,
        },
        Centre {
            name: "files",
            layout: TableLayout::Parquet { files: 2, row_group_rows: 1, sorted: true },
            settings: vec![(format!("{E}target_partitions"), "2".into()), (format!("{O}repartition_file_min_size"), "0".into())],
            files: true,
        },
    ]
}

/// A configuration = centre + deviations (indices into the menu).
#[derive(Clone, Debug)]
struct Config {
    centre: usize,
    devs: Vec<usize>,
    spec: ConfigSpec,
}

fn build_config(cs: &[Centre], m: &[Dev], centre: usize, devs: &[usize]) -> Config {
    let c = &cs[centre];
    let mut name = c.name.to_string();
    let mut layout = c.layout.clone();
    let mut settings = c.settings.clone();
    for d in devs {
        let d = &m[*d];
        name.push_str(" + ");
        name.push_str(&d.name);
        if let Some(l) = &d.layout {
            layout = l.clone();
        }
        for (k, v) in &d.settings {
            settings.retain(|(k2, _)| k2 != k);
            settings.push((k.clone(), v.clone()));
        }
    }
    Config { centre, devs: devs.to_vec(), spec: ConfigSpec { name, layout, settings } }
}

/// All configurations of a tier, simplest first (centres, singles, pairs).
fn configurations(thorough: bool) -> (Vec<Centre>, Vec<Dev>, Vec<Config>) {
    let cs = centres();
    let m = menu();
    let mut out = vec![];
    for c in 0..cs.len() {
        out.push(build_config(&cs, &m, c, &[]));
    }
    // the `files` centre takes the file/Parquet switches plus the options that shape the scan
    // (target_partitions, batch_size, the Parquet layouts); the other centres the rest of the menu
    let applicable = |c: &Centre, d: &Dev| {
        if let Some(only) = d.only {
            return only == c.name;
        }
        // a deviation that only repeats the centre's own values is not a deviation
        if d.layout.as_ref().map(|l| *l == c.layout).unwrap_or(true) && d.settings.iter().all(|kv| c.settings.contains(kv)) {
            return false;
        }
        if c.files {
            matches!(d.layout, Some(TableLayout::Parquet { .. })) || FILES_CENTRE_OPTIONS.contains(&d.option)
        } else {
            true
        }
    };
    for (ci, c) in cs.iter().enumerate() {
        for (di, d) in m.iter().enumerate() {
            if applicable(c, d) {
                out.push(build_config(&cs, &m, ci, &[di]));
            }
        }
    }
    if thorough {
        for (ci, c) in cs.iter().enumerate() {
            for i in 0..m.len() {
                for j in i + 1..m.len() {
                    if m[i].option == m[j].option || !applicable(c, &m[i]) || !applicable(c, &m[j]) {
                        continue;
                    }
                    out.push(build_config(&cs, &m, ci, &[i, j]));
                }
            }
        }
    }
    (cs, m, out)
}

// ------------------------------------------------------------------ engine side

fn session_config(spec: &ConfigSpec) -> Result<SessionConfig, String> {
    let mut cfg = engine::default_config();
    for (k, v) in &spec.settings {
        cfg.options_mut().set(k, v).map_err(|e| format!("cannot set {k}={v}: {e}"))?;
    }
    Ok(cfg)
}

fn parquet_bytes(batch: &RecordBatch, row_group_rows: usize) -> Result<Vec<u8>, String> {
    use parquet::arrow::ArrowWriter;
    use parquet::file::properties::WriterProperties;
    let mut props = WriterProperties::builder().set_created_by("c02".to_string());
    if row_group_rows > 0 {
        props = props.set_max_row_group_row_count(Some(row_group_rows));
    }
    let mut buf = vec![];
    let mut w = ArrowWriter::try_new(&mut buf, batch.schema(), Some(props.build())).map_err(|e| format!("parquet writer: {e}"))?;
    w.write(batch).map_err(|e| format!("parquet write: {e}"))?;
    w.close().map_err(|e| format!("parquet close: {e}"))?;
    Ok(buf)
}

/// ASC NULLS LAST on cells of one column (one value class per column; no NaN in the domains).
fn asc_nulls_last(x: &Value, y: &Value) -> std::cmp::Ordering {
    use std::cmp::Ordering::*;
    match (x, y) {
        (Value::Null, Value::Null) => Equal,
        (Value::Null, _) => Greater,
        (_, Value::Null) => Less,
        (Value::Int(a), Value::Int(b)) => a.cmp(b),
        (Value::Float(a), Value::Float(b)) => a.partial_cmp(b).unwrap_or(Equal),
        (Value::Text(a), Value::Text(b)) => a.as_bytes().cmp(b.as_bytes()),
        (Value::Bool(a), Value::Bool(b)) => a.cmp(b),
        _ => Equal,
    }
}

/// A fresh context holding `dbv` in the layout / configuration of `spec`.
fn make_ctx(dbv: &Database, spec: &ConfigSpec) -> Result<SessionContext, String> {
    let cfg = session_config(spec)?;
    let ctx = SessionContext::new_with_config(cfg);
    match &spec.layout {
        TableLayout::Mem(l) => engine::register_database(&ctx, dbv, l, TextEncoding::View)?,
        TableLayout::Parquet { files, row_group_rows, sorted } => {
            let store = Arc::new(InMemory::new());
            let url = url::Url::parse("c02mem://db").unwrap();
            ctx.register_object_store(&url, store.clone());
            for t in &dbv.tables {
                let schema = engine::arrow_schema(t, TextEncoding::View);
                let n = (*files).max(1);
                for f in 0..n {
                    let mut rows: Vec<&chk_sql::sqlmc::Row> = t.rows.iter().enumerate().filter(|(i, _)| i % n == f).map(|(_, r)| r).collect();
                    if rows.is_empty() {
                        continue;
                    }
                    if *sorted {
                        rows.sort_by(|x, y| asc_nulls_last(&x[0], &y[0]));
                    }
                    let batch = engine::rows_to_batch(t, &rows, TextEncoding::View);
                    let bytes = parquet_bytes(&batch, *row_group_rows)?;
                    let path = ObjPath::from(format!("{}/part-{f}.parquet", t.name));
                    engine::block_on(store.put(&path, PutPayload::from(bytes))).map_err(|e| format!("put {path}: {e}"))?;
                }
                let mut opts = ParquetReadOptions::default().schema(schema.as_ref()).file_extension(".parquet");
                if *sorted {
                    opts = opts.file_sort_order(vec![vec![datafusion::prelude::col(t.cols[0].0.as_str()).sort(true, false)]]);
                }
                engine::block_on(ctx.register_parquet(t.name.as_str(), format!("c02mem://db/{}/", t.name), opts)).map_err(|e| format!("register_parquet({}): {e}", t.name))?;
            }
        }
    }
    Ok(ctx)
}

/// Outcome of one execution: the physical plan text (when planning succeeded) and the result.
struct Run {
    plan: Option<String>,
    result: Result<QueryResult, String>,
}

/// `ctx.sql(sql)` -> physical plan (kept as text) -> `collect`: exactly what
/// `DataFrame::collect` does, with the plan observed in between.
fn run_query(ctx: &SessionContext, sql: &str) -> Run {
    let mut plan_text: Option<String> = None;
    let result = mc_core::catch(|| {
        engine::block_on(async {
            let df = ctx.sql(sql).await.map_err(|e| format!("plan error: {e}"))?;
            let schema = df.schema().as_arrow().clone();
            let task_ctx = Arc::new(df.task_ctx());
            let plan = df.create_physical_plan().await.map_err(|e| format!("physical plan error: {e}"))?;
            plan_text = Some(displayable(plan.as_ref()).indent(false).to_string());
            let batches = datafusion::physical_plan::collect(plan, task_ctx).await.map_err(|e| format!("execution error: {e}"))?;
            let schema = batches.first().map(|b| b.schema().as_ref().clone()).unwrap_or(schema);
            Ok(engine::batches_to_result(&schema, &batches))
        })
    })
    .unwrap_or_else(Err);
    Run { plan: plan_text, result }
}

// ------------------------------------------------------------------ oracle

/// How strictly a (query, database) pair is compared.
#[derive(Clone, Copy, Debug, PartialEq, Eq, Serialize, Deserialize)]
enum Class {
    /// SQL defines the answer: results must agree, and both runs succeed or both fail
    Strict,
    /// the statement may fail at run time: an error on either side is accepted
    MayFail,
    /// SQL does not define a single answer: not compared
    Ambiguous,
}

fn classify(dbv: &Database, q: &GenQuery) -> Result<Class, String> {
    match reference::evaluate(dbv, &q.ast) {
        RefOutcome::Rows(_) => Ok(if q.flags.may_fail { Class::MayFail } else { Class::Strict }),
        RefOutcome::MayFail(_) => Ok(Class::MayFail),
        RefOutcome::Ambiguous(_) => Ok(Class::Ambiguous),
        RefOutcome::Unsupported(w) => Err(w),
    }
}

#[derive(Debug, PartialEq)]
enum Agreement {
    /// both succeeded and the rows agree
    Same,
    /// both failed (messages are not compared)
    BothFailed,
    /// MayFail class and exactly one side failed
    ToleratedError,
}

fn short(e: &str) -> String {
    let l = e.lines().next().unwrap_or("");
    l.chars().take(300).collect()
}

/// The C02 oracle for one pair of runs. `Err((kind, what))` iff the property is violated.
fn judge(base: &Result<QueryResult, String>, got: &Result<QueryResult, String>, flags: &QueryFlags, class: Class) -> Result<Agreement, (&'static str, String)> {
    let is_panic = |e: &str| e.starts_with("panic:");
    match (base, got) {
        (_, Err(e)) if is_panic(e) => Err(("panic", format!("engine panicked under the configuration: {}", short(e)))),
        (Ok(b), Ok(g)) => {
            let spec: OrderSpec = flags.into();
            match compare_engine_results(&b.rows, &g.rows, &spec) {
                Ok(()) => Ok(Agreement::Same),
                Err(w) => Err(("rows", format!("result under the default configuration vs under the configuration: {w}"))),
            }
        }
        (Err(_), Err(_)) => Ok(Agreement::BothFailed),
        (Ok(_), Err(_)) | (Err(_), Ok(_)) if class == Class::MayFail => Ok(Agreement::ToleratedError),
        (Ok(b), Err(e)) => Err(("error", format!("default configuration returns {} but the configuration fails: {}", show_rows(&b.rows), short(e)))),
        (Err(e), Ok(g)) => Err(("error", format!("default configuration fails ({}) but the configuration returns {}", short(e), show_rows(&g.rows)))),
    }
}

// ------------------------------------------------------------------ case / replay

#[derive(Serialize, Deserialize, Clone, Debug)]
struct Case {
    id: String,
    sql: String,
    flags: QueryFlags,
    class: Class,
    db_label: String,
    db: Database,
    base: ConfigSpec,
    config: ConfigSpec,
}

fn run_case(c: &Case) -> Result<(), String> {
    if c.class == Class::Ambiguous {
        return Ok(());
    }
    let bctx = make_ctx(&c.db, &c.base)?;
    let base = run_query(&bctx, &c.sql);
    let cctx = make_ctx(&c.db, &c.config)?;
    let got = run_query(&cctx, &c.sql);
    match judge(&base.result, &got.result, &c.flags, c.class) {
        Ok(_) => Ok(()),
        Err((_, what)) => Err(format!(
            "{} on {} under [{}]: {what}\n--- plan (default)\n{}--- plan (configuration)\n{}",
            c.sql,
            c.db.show(),
            c.config.name,
            base.plan.unwrap_or_default(),
            got.plan.unwrap_or_default()
        )),
    }
}

fn replay(v: &Json) -> Result<(), String> {
    let c: Case = serde_json::from_value(v.clone()).map_err(|e| format!("bad case: {e}"))?;
    run_case(&c)
}

/// Confirmed engine defects, keyed by root cause.  A failing case is attributed to one only if a
/// twin run that removes exactly the suspected ingredient passes.
///
/// `MinMaxStatistics::new_from_files` + `is_sorted` (datafusion/datasource/src/statistics.rs), used by
/// `is_ordering_valid_for_file_groups` (file_scan_config/sort_pushdown.rs): a file group of several
/// individually sorted files keeps its declared `output_ordering` when max(file i) <= min(file i+1)
/// on the *non-NULL* min/max statistics; NULLs of the sort column (which sort after max under NULLS
/// LAST, before min under NULLS FIRST) are ignored, so `[2, NULL] ++ [2, 3]` is declared sorted.
const CAUSE_SORTED_GROUP_NULLS: &str = "file-group-declared-sorted-by-minmax-statistics-ignoring-nulls:MinMaxStatistics::new_from_files/is_sorted";

fn confirmed_root_cause(case: &Case, tables: &[String]) -> Option<&'static str> {
    if let TableLayout::Parquet { files, row_group_rows, sorted: true } = &case.config.layout {
        let null_in_sort_column = case.db.tables.iter().any(|t| tables.contains(&t.name) && t.rows.iter().any(|r| r[0].is_null()));
        let mut twin = case.clone();
        twin.config.layout = TableLayout::Parquet { files: *files, row_group_rows: *row_group_rows, sorted: false };
        if *files > 1 && null_in_sort_column && run_case(&twin).is_ok() {
            return Some(CAUSE_SORTED_GROUP_NULLS);
        }
    }
    None
}

// ------------------------------------------------------------------ exploration

#[derive(Default, Clone)]
struct OptStat {
    evaluations: u64,
    plan_changed: u64,
    nontrivial: u64,
    mismatches: u64,
}

#[derive(Clone)]
struct Baseline {
    class: Class,
    plan: Option<String>,
    result: Result<QueryResult, String>,
}

/// Hand-written additions to the grammar subset: the shapes that the option-gated physical /
/// logical rewrites look for (TopK aggregation, DISTINCT with a soft limit, limit pushed past a
/// window, per-partition window top-N, TopK below a hash repartition, UNION branches merged into
/// a filter, sorted subqueries, interleaved unions, dynamic filters from TopK / min-max / joins).
fn extra_queries() -> Vec<GenQuery> {
    use chk_sql::sqlmc::ast::*;
    let (a, b) = (|| col("a"), || col("b"));
    let nulls_last = |e: Expr, desc: bool| OrderItem { expr: e, desc, nulls_first: Some(false) };
    let win = |f: WinFn, part: Vec<Expr>, ord: Vec<OrderItem>| Expr::Window { f, args: vec![], partition_by: part, order_by: ord, frame: None };
    let mut out: Vec<Query> = vec![];
    // TopK aggregation: ORDER BY min/max (direction matching) or the single group key, with LIMIT
    out.push(Select::new(vec![item(a()), item_as(agg(AggFn::Max, b()), "m")], table("t")).group(vec![a()]).query().order(vec![nulls_last(col("m"), true)]).limit(1));
    out.push(Select::new(vec![item(a()), item_as(agg(AggFn::Min, b()), "m")], table("t")).group(vec![a()]).query().order(vec![OrderItem::asc(col("m"))]).limit(2));
    out.push(Select::new(vec![item(a())], table("t")).group(vec![a()]).query().order(vec![nulls_last(a(), true)]).limit(1));
    out.push(Select::new(vec![item(col("c")), item_as(agg(AggFn::Max, a()), "m")], table("u")).group(vec![col("c")]).query().order(vec![nulls_last(col("m"), true)]).limit(2));
    // DISTINCT / GROUP BY without aggregates under a plain LIMIT (soft limit)
    out.push(Select::new(vec![item(a())], table("t")).distinct().query().limit(2));
    out.push(Select::new(vec![item(a()), item(b())], table("t")).distinct().query().limit(3));
    out.push(Select::new(vec![item(a())], table("t")).group(vec![a()]).query().limit(1));
    // LIMIT above a ROWS-bounded window
    out.push(
        Select::new(vec![item(a()), item(b()), item_as(win(WinFn::RowNumber, vec![], vec![OrderItem::asc(a()), OrderItem::asc(b())]), "rn")], table("t"))
            .query()
            .order(vec![OrderItem::asc(a()), OrderItem::asc(b())])
            .limit(2),
    );
    out.push(
        Select::new(
            vec![
                item(a()),
                item(b()),
                item_as(
                    Expr::Window {
                        f: WinFn::Agg(AggFn::Sum),
                        args: vec![b()],
                        partition_by: vec![],
                        order_by: vec![OrderItem::asc(a()), OrderItem::asc(b())],
                        frame: Some(Frame { units: FrameUnits::Rows, start: Bound::Preceding(1), end: Bound::Following(1) }),
                    },
                    "s",
                ),
            ],
            table("t"),
        )
        .query()
        .order(vec![OrderItem::asc(a()), OrderItem::asc(b())])
        .limit(2),
    );
    out.push(Select::new(vec![item(a()), item(b()), item_as(win(WinFn::RowNumber, vec![a()], vec![OrderItem::asc(b())]), "rn")], table("t")).query().limit(2));
    // per-partition top-N: filter on a ranking function of a partitioned window
    for (f, k) in [(WinFn::RowNumber, 1), (WinFn::Rank, 1), (WinFn::DenseRank, 2)] {
        let inner = Select::new(vec![item(a()), item(b()), item_as(win(f, vec![a()], vec![OrderItem::asc(b())]), "rn")], table("t")).query();
        out.push(Select::new(vec![item(qcol("s", "a")), item(qcol("s", "b")), item(qcol("s", "rn"))], subquery_as(inner, "s")).filter(bin(BinOp::LtEq, qcol("s", "rn"), int(k))).query());
    }
    // TopK whose sort key starts with the hash-partitioning key
    out.push(
        Select::new(vec![item(a()), item(b()), item_as(Expr::Window { f: WinFn::Agg(AggFn::Sum), args: vec![b()], partition_by: vec![a()], order_by: vec![OrderItem::asc(b())], frame: None }, "s")], table("t"))
            .query()
            .order(vec![OrderItem::asc(a()), OrderItem::asc(b())])
            .limit(2),
    );
    out.push(
        Select::new(
            vec![
                item(a()),
                item(b()),
                item_as(
                    Expr::Window {
                        f: WinFn::Agg(AggFn::Sum),
                        args: vec![b()],
                        partition_by: vec![a()],
                        order_by: vec![OrderItem::asc(b())],
                        frame: Some(Frame { units: FrameUnits::Rows, start: Bound::Preceding(1), end: Bound::CurrentRow }),
                    },
                    "s",
                ),
            ],
            table("t"),
        )
        .query()
        .order(vec![OrderItem::asc(a()), OrderItem::asc(b())])
        .limit(2),
    );
    out.push(Select::new(vec![item(a()), item_as(count_star(), "n")], table("t")).group(vec![a()]).query().order(vec![OrderItem::asc(a())]).limit(2));
    // UNION DISTINCT branches differing only by their filter
    out.push(Select::new(vec![item(a()), item(b())], table("t")).filter(eq(a(), int(1))).query().setop(SetOp::Union, false, Select::new(vec![item(a()), item(b())], table("t")).filter(eq(b(), int(2))).query()));
    out.push(
        Select::new(vec![item(a())], table("t"))
            .filter(bin(BinOp::Gt, a(), int(1)))
            .query()
            .setop(SetOp::Union, false, Select::new(vec![item(a())], table("t")).filter(is_null(b())).query())
            .setop(SetOp::Union, false, Select::new(vec![item(a())], table("t")).filter(eq(b(), int(1))).query()),
    );
    // UNION ALL feeding an aggregation / a join (interleave vs. union + repartition)
    {
        let u_all = Select::new(vec![item(a())], table("t")).query().setop(SetOp::Union, true, Select::new(vec![item(a())], table("u")).query());
        out.push(Select::new(vec![item(qcol("s", "a")), item_as(count_star(), "n")], subquery_as(u_all.clone(), "s")).group(vec![qcol("s", "a")]).query());
        let g1 = Select::new(vec![item(a()), item_as(count_star(), "n")], table("t")).group(vec![a()]).query();
        let g2 = Select::new(vec![item(a()), item_as(count_star(), "n")], table("u")).group(vec![a()]).query();
        out.push(Select::new(vec![item(qcol("s", "a")), item_as(agg(AggFn::Sum, qcol("s", "n")), "n")], subquery_as(g1.setop(SetOp::Union, true, g2), "s")).group(vec![qcol("s", "a")]).query());
    }
    // ORDER BY inside a FROM subquery (eliminated or kept)
    out.push(
        Select::new(vec![item(qcol("s", "a")), item(qcol("s", "b"))], subquery_as(Select::new(vec![item(a()), item(b())], table("t")).query().order(vec![OrderItem::asc(a())]), "s"))
            .filter(bin(BinOp::Gt, qcol("s", "b"), int(1)))
            .query(),
    );
    out.push(
        Select::new(vec![item(qcol("s", "a")), item_as(count_star(), "n")], subquery_as(Select::new(vec![item(a()), item(b())], table("t")).query().order(vec![OrderItem::desc(b())]), "s"))
            .group(vec![qcol("s", "a")])
            .query(),
    );
    // dynamic filters: TopK over a filtered scan, global min/max, selective join
    out.push(Select::new(vec![item(a()), item(b())], table("t")).filter(bin(BinOp::GtEq, b(), int(1))).query().order(vec![nulls_last(a(), true), nulls_last(b(), true)]).limit(1));
    out.push(Select::new(vec![item(a()), item(b())], table("t")).query().order(vec![OrderItem::asc(b()), OrderItem::asc(a())]).limit(2));
    out.push(Select::new(vec![item_as(agg(AggFn::Min, a()), "mn"), item_as(agg(AggFn::Max, b()), "mx")], table("t")).filter(bin(BinOp::Gt, b(), int(1))).query());
    out.push(
        Select::new(
            vec![item_as(qcol("t", "a"), "ta"), item_as(qcol("t", "b"), "tb"), item_as(qcol("u", "c"), "uc")],
            join(JoinKind::Inner, table("t"), table("u"), eq(qcol("t", "a"), qcol("u", "a"))),
        )
        .filter(eq(qcol("u", "c"), txt("a")))
        .query(),
    );
    out.iter().map(|q| grammar::analyse(12, q)).collect()
}

/// The query subset: queries the engine accepts, covering every operator tag.
fn query_subset(tier: Tier, at_least: usize) -> (Vec<GenQuery>, Vec<Json>, usize) {
    let all = grammar::queries(tier);
    let total = all.len();
    let empty = Database::empty();
    let sctx = make_ctx(&empty, &ConfigSpec { name: "default".into(), layout: TableLayout::Mem(Layout::Single), settings: vec![] }).expect("context");
    let mut rejected = vec![];
    let mut ok = vec![];
    for q in all {
        match engine::run_sql(&sctx, &q.sql) {
            Err(e) if e.contains("This feature is not implemented") || e.contains("Correlated scalar subquery must be aggregated") => {
                rejected.push(json!({"sql": q.sql, "error": short(&e)}));
            }
            _ => ok.push(q),
        }
    }
    let mut picked = grammar::operator_cover(&ok, at_least);
    for q in extra_queries() {
        if !picked.iter().any(|p| p.sql == q.sql) {
            picked.push(q);
        }
    }
    (picked, rejected, total)
}

fn explore(ctx: &Ctx) {
    let thorough = ctx.thorough();
    let (cs, m, configs) = configurations(thorough);
    let (qs, rejected, total_queries) = query_subset(ctx.pick(Tier::Quick, Tier::Thorough), ctx.pick(64, 150));
    let dbs: Vec<(String, Database)> = db::rich_databases();
    let mut tags: std::collections::BTreeSet<&String> = Default::default();
    for q in &qs {
        tags.extend(q.tags.iter());
    }
    let n_single = configs.iter().filter(|c| c.devs.len() == 1).count();
    let n_pair = configs.iter().filter(|c| c.devs.len() == 2).count();
    ctx.set_extra(
        "bounds",
        json!({
            "centres": cs.iter().map(|c| json!({"name": c.name, "layout": c.layout, "settings": c.settings})).collect::<Vec<_>>(),
            "menu_options": m.iter().map(|d| d.option).collect::<std::collections::BTreeSet<_>>().len(),
            "menu_values": m.iter().map(|d| d.name.clone()).collect::<Vec<_>>(),
            "configurations": {"centres": cs.len(), "single_deviations": n_single, "pair_deviations": n_pair, "total": configs.len()},
            "deviation_bound": ctx.pick(1, 2),
            "queries": qs.len(), "queries_in_grammar_tier": total_queries, "operator_tags_covered": tags.len(),
            "databases": dbs.iter().map(|(l, _)| l.clone()).collect::<Vec<_>>(),
        }),
    );
    ctx.set_extra("engine_rejected_queries", json!(rejected));
    ctx.assume("single-threaded tokio runtime per worker: the thread schedule of the run is not varied here (schedule part of C02 is the evt engine's)");

    // ---- the centres, per (centre, database, query); centre 0 = default = the comparison baseline
    let base_spec = configs[0].spec.clone();
    let centre_jobs: Vec<(usize, usize)> = (0..cs.len()).flat_map(|c| (0..dbs.len()).map(move |d| (c, d))).collect();
    let centre_runs_flat: Vec<Vec<Baseline>> = centre_jobs
        .par_iter()
        .map(|&(c, di)| {
            let dbv = &dbs[di].1;
            let sctx = make_ctx(dbv, &configs[c].spec).expect("context");
            qs.iter()
                .map(|q| {
                    let class = match classify(dbv, q) {
                        Ok(c) => c,
                        Err(w) => {
                            ctx.machinery_error(format!("reference cannot evaluate {}: {w}", q.sql));
                            Class::Ambiguous
                        }
                    };
                    if class == Class::Ambiguous {
                        return Baseline { class, plan: None, result: Err("not run".into()) };
                    }
                    let r = run_query(&sctx, &q.sql);
                    Baseline { class, plan: r.plan, result: r.result }
                })
                .collect()
        })
        .collect();
    // centre_runs[centre][db][query]
    let mut centre_runs: Vec<Vec<Vec<Baseline>>> = (0..cs.len()).map(|_| vec![]).collect();
    for ((c, _), v) in centre_jobs.iter().zip(centre_runs_flat) {
        centre_runs[*c].push(v);
    }
    let baselines = &centre_runs[0];
    for b in baselines.iter() {
        for x in b.iter() {
            match x.class {
                Class::Strict => ctx.count("pairs_strict", 1),
                Class::MayFail => ctx.count("pairs_may_fail", 1),
                Class::Ambiguous => ctx.count("pairs_ambiguous_skipped", 1),
            }
            if x.class == Class::Strict && x.result.is_err() {
                // the default configuration itself fails where SQL defines an answer: C01's business; here both sides must then fail
                ctx.count("baseline_fails_where_defined", 1);
            }
        }
    }

    // ---- work items: (configuration, database), simplest configuration first
    // (centre 0 is the baseline itself; the other centres are re-run like any configuration)
    let mut work: Vec<(usize, usize)> = vec![];
    for ci in 1..configs.len() {
        for di in 0..dbs.len() {
            work.push((ci, di));
        }
    }
    if ctx.seed != 0 {
        let s = ctx.seed;
        work.sort_by_key(|w| mc_core::stable_hash(&(s, w.0, w.1)));
    }
    struct Fail {
        ci: usize,
        qi: usize,
        di: usize,
        kind: &'static str,
        what: String,
    }
    let fails: Mutex<Vec<Fail>> = Mutex::new(vec![]);
    let stats: Mutex<BTreeMap<String, OptStat>> = Mutex::new(BTreeMap::new());
    let make_case = |ci: usize, qi: usize, di: usize| Case {
        id: qs[qi].id.clone(),
        sql: qs[qi].sql.clone(),
        flags: qs[qi].flags.clone(),
        class: baselines[di][qi].class,
        db_label: dbs[di].0.clone(),
        db: dbs[di].1.clone(),
        base: base_spec.clone(),
        config: configs[ci].spec.clone(),
    };
    work.par_iter().for_each(|&(ci, di)| {
        if ctx.out_of_time() || fails.lock().unwrap().len() > 20_000 {
            return;
        }
        let cfg = &configs[ci];
        let (label, dbv) = &dbs[di];
        let sctx = match make_ctx(dbv, &cfg.spec) {
            Ok(c) => c,
            Err(e) => {
                ctx.machinery_error(format!("cannot build context for [{}]: {e}", cfg.spec.name));
                return;
            }
        };
        // "did the deviation do anything": plan text compared with the plan of the configuration's own
        // centre (for a centre itself: with the default centre)
        let plan_ref = if cfg.devs.is_empty() { &centre_runs[0][di] } else { &centre_runs[cfg.centre][di] };
        let mut st = OptStat::default();
        for (qi, q) in qs.iter().enumerate() {
            let b = &baselines[di][qi];
            if b.class == Class::Ambiguous {
                continue;
            }
            let r = run_query(&sctx, &q.sql);
            ctx.eval();
            st.evaluations += 1;
            let plan_changed = r.plan.is_some() && r.plan != plan_ref[qi].plan;
            if plan_changed {
                st.plan_changed += 1;
            }
            match judge(&b.result, &r.result, &q.flags, b.class) {
                Ok(agreement) => {
                    match agreement {
                        Agreement::Same => {}
                        Agreement::BothFailed => ctx.count("both_failed", 1),
                        Agreement::ToleratedError => ctx.count("may_fail_error_on_one_side_tolerated", 1),
                    }
                    let nonempty = matches!(&r.result, Ok(x) if !x.rows.is_empty());
                    let runtime_relevant = cfg.devs.iter().any(|d| match (m[*d].runtime_if_plan_contains, &r.plan) {
                        (Some(s), Some(p)) => p.contains(s),
                        _ => false,
                    });
                    if agreement == Agreement::Same && nonempty && (plan_changed || runtime_relevant) {
                        st.nontrivial += 1;
                        ctx.nontrivial(&(&q.sql, label, &cfg.spec.name));
                        let h = mc_core::stable_hash(&(&q.sql, label, &cfg.spec.name));
                        if ctx.want_sample() && plan_changed && q.size > 14 && dbv.total_rows() >= 8 && h % 97 == 0 {
                            ctx.sample(json!({
                                "sql": q.sql, "db": dbv.show(), "config": cfg.spec.name,
                                "result": r.result.as_ref().map(|x| show_rows(&x.rows)).unwrap_or_default(),
                                "plan_centre": plan_ref[qi].plan, "plan_config": r.plan,
                            }));
                        }
                        // determinism guard on a 1/64 slice: everything rebuilt from the case, same verdict
                        if h % 64 == 0 {
                            ctx.count("determinism_replays", 1);
                            if let Err(w) = run_case(&make_case(ci, qi, di)) {
                                ctx.machinery_error(format!("case passed in the sweep but fails when rebuilt from scratch: {w}"));
                            }
                        }
                    }
                }
                Err((kind, what)) => {
                    st.mismatches += 1;
                    fails.lock().unwrap().push(Fail { ci, qi, di, kind, what });
                }
            }
        }
        let mut s = stats.lock().unwrap();
        for key in std::iter::once(format!("centre:{}", cs[cfg.centre].name)).chain(cfg.devs.iter().map(|d| m[*d].name.clone())) {
            let e = s.entry(key).or_default();
            e.evaluations += st.evaluations;
            e.plan_changed += st.plan_changed;
            e.nontrivial += st.nontrivial;
            e.mismatches += st.mismatches;
        }
    });
    if ctx.want_sample() {
        // fall-back sample (tiny query lists): any evaluated case
        ctx.sample(json!({"sql": qs[0].sql, "db": dbs[0].1.show(), "config": configs[1].spec.name}));
    }
    let stats = stats.into_inner().unwrap();
    ctx.set_extra(
        "per_option",
        Json::Object(
            stats
                .iter()
                .map(|(k, s)| (k.clone(), json!({"evaluations": s.evaluations, "plan_changed": s.plan_changed, "nontrivial": s.nontrivial, "mismatches": s.mismatches})))
                .collect(),
        ),
    );
    let never_changed: Vec<&String> = stats.iter().filter(|(_, s)| s.nontrivial == 0).map(|(k, _)| k).collect();
    ctx.count("menu_values_never_nontrivial", never_changed.len() as u64);
    ctx.set_extra("menu_values_never_nontrivial", json!(never_changed));

    // ---- violations: one per root-cause key = (smallest failing deviation set, kind).
    // A pair is attributed to one of its single deviations when that single (same centre)
    // already fails on the same (query, database).
    let fails = fails.into_inner().unwrap();
    ctx.count("failing_evaluations", fails.len() as u64);
    let index: std::collections::HashMap<(usize, Vec<usize>), usize> = configs.iter().enumerate().map(|(i, c)| ((c.centre, c.devs.clone()), i)).collect();
    let failing: std::collections::HashSet<(usize, usize, usize)> = fails.iter().map(|f| (f.ci, f.qi, f.di)).collect();
    // key -> (rank, what, case, count)
    let mut by_key: BTreeMap<String, ((usize, usize, usize), String, Case, u64)> = BTreeMap::new();
    for f in &fails {
        let cfg = &configs[f.ci];
        let mut owner = f.ci;
        if cfg.devs.len() == 2 {
            for d in &cfg.devs {
                if let Some(si) = index.get(&(cfg.centre, vec![*d])) {
                    if failing.contains(&(*si, f.qi, f.di)) {
                        owner = *si;
                        break;
                    }
                }
            }
        }
        if owner != f.ci {
            continue; // counted with the single deviation
        }
        let case = make_case(f.ci, f.qi, f.di);
        let key = match confirmed_root_cause(&case, &qs[f.qi].tables) {
            Some(k) => k.to_string(),
            None => {
                // unexplained: keyed by the smallest failing deviation set (whatever the centre) and the kind of disagreement
                let oc = &configs[owner];
                let devs = if oc.devs.is_empty() { format!("centre {}", cs[oc.centre].name) } else { oc.devs.iter().map(|d| m[*d].name.clone()).collect::<Vec<_>>().join(" + ") };
                format!("config-dependent-result[{devs}]:{}", f.kind)
            }
        };
        let rank = (f.qi, f.di, f.ci);
        match by_key.get_mut(&key) {
            Some(e) => {
                e.3 += 1;
                if rank < e.0 {
                    *e = (rank, f.what.clone(), case, e.3);
                }
            }
            None => {
                by_key.insert(key, (rank, f.what.clone(), case, 1));
            }
        }
    }
    for (key, (_, what, case, n)) in by_key {
        ctx.violation(
            key,
            format!("{} on {} [{}] under [{}]: {what} [{n} failing (query, database) evaluation(s) with this key; this is the simplest]", case.sql, case.db_label, case.db.show(), case.config.name),
            serde_json::to_value(&case).unwrap(),
        );
    }
}

// ------------------------------------------------------------------ debug helpers

fn debug_main(args: &[String]) -> bool {
    let thorough = std::env::args().any(|a| a == "thorough");
    let arg = |name: &str| args.iter().position(|a| a == name).and_then(|i| args.get(i + 1)).cloned();
    if args.iter().any(|a| a == "--list-configs") {
        let (_, _, configs) = configurations(thorough);
        for c in &configs {
            println!("{}\t{:?}\t{:?}", c.spec.name, c.spec.layout, c.spec.settings);
        }
        eprintln!("{} configurations", configs.len());
        return true;
    }
    if args.iter().any(|a| a == "--list-queries") {
        let (qs, rejected, total) = query_subset(if thorough { Tier::Thorough } else { Tier::Quick }, if thorough { 150 } else { 64 });
        for q in &qs {
            println!("{}\t{}\t{}\t[{}]", q.id, q.size, q.sql, q.tags.join(" "));
        }
        eprintln!("{} of {} queries ({} rejected statically by the engine)", qs.len(), total, rejected.len());
        return true;
    }
    if let Some(sql) = arg("--explain") {
        let (_, _, configs) = configurations(true);
        let name = arg("--config").unwrap_or("default".into());
        let label = arg("--db").unwrap_or("all_distinct".into());
        let dbv = db::rich_databases().into_iter().find(|(l, _)| *l == label).map(|x| x.1).unwrap_or_else(Database::empty);
        println!("db: {}", dbv.show());
        for n in ["default", name.as_str()] {
            let Some(cfg) = configs.iter().find(|c| c.spec.name == n) else {
                println!("unknown configuration {n}");
                continue;
            };
            let sctx = make_ctx(&dbv, &cfg.spec).unwrap();
            let r = run_query(&sctx, &sql);
            println!("[{}]\n{}  -> {}", cfg.spec.name, r.plan.unwrap_or_default(), match r.result {
                Ok(x) => show_rows(&x.rows),
                Err(e) => format!("ERROR {e}"),
            });
        }
        return true;
    }
    false
}

fn main() {
    if debug_main(&mc_core::extra_args()) {
        return;
    }
    mc_core::quiet_panics();
    run_check(
        "C02",
        Level::Exploration,
        "configurations = three centres (default; parallel: target_partitions=3, batch_size=2, 2-partition 1-row-batch tables; files: 2 Parquet files per table, \
         target_partitions=2) + every single deviation of the menu of semantics-neutral options from every centre (quick) + every pair of deviations of two different \
         options from the default and parallel centres (thorough); x an operator-covering subset of grammar G x the 12 rich databases; each evaluation = one \
         SessionContext::sql().create_physical_plan()+collect under the configuration, compared with the same query on the same database under the default configuration \
         (multiset / ORDER BY key sequence with tie runs / row count under LIMIT; pairs the reference interpreter calls ambiguous are skipped, may-fail statements tolerate \
         an error on one side); non-trivial = distinct (query, database, configuration) with a non-empty agreeing result whose physical plan text differs from the default \
         configuration's plan, or whose deviation is a run-time switch (batch size, thresholds) of an operator present in the plan",
        explore,
        replay,
    );
}
