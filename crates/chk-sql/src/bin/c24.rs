//! C24 — Parquet scans with pruning and pushdown return exactly the matching rows.
//!
//! Small datasets (id, i Int64 NULL-able, s Utf8 NULL-able) are written with the
//! real parquet writer under tiny row groups / pages, every statistics level,
//! with / without bloom filters and dictionaries, into 1 or 2 files of an
//! `InMemory` object store; they are scanned through `SessionContext` with a
//! predicate from a small grammar, a reader-option set that deviates from the
//! default in a bounded number of options, and one of six query shapes.
//!
//! Oracle: an own three-valued evaluator over the rows that were written —
//! it knows nothing about row groups, pages, statistics or filters.
use arrow::array::{Array, ArrayRef, Int64Array, RecordBatch, StringArray};
use arrow::datatypes::{DataType, Field, Schema, SchemaRef};
use bytes::Bytes;
use chk_sql::sqlmc::engine::block_on;
use datafusion::prelude::{ParquetReadOptions, SessionConfig, SessionContext};
use mc_core::serde_json::{Value as Json, json};
use mc_core::{Ctx, Level, rayon::prelude::*, run_check};
use object_store::memory::InMemory;
use object_store::path::Path;
use object_store::{ObjectStoreExt, PutPayload};
use parquet::file::properties::{EnabledStatistics, WriterProperties};
use serde::{Deserialize, Serialize};
use std::sync::Arc;

// ---------------------------------------------------------------------------
// case description
// ---------------------------------------------------------------------------

#[derive(Serialize, Deserialize, Clone, Debug, Hash, PartialEq, Eq)]
struct Row {
    i: Option<i64>,
    s: Option<String>,
}

#[derive(Serialize, Deserialize, Clone, Copy, Debug, Hash, PartialEq, Eq)]
struct Layout {
    /// max rows per row group
    rg: usize,
    /// data_page_row_count_limit (0 = default, i.e. unlimited here); write_batch_size is 1
    page: usize,
    /// 0 = none, 1 = chunk, 2 = page
    stats: u8,
    bloom: bool,
    dict: bool,
    /// 1 or 2 files (rows cut in the middle)
    files: usize,
}

#[derive(Serialize, Deserialize, Clone, Copy, Debug, Hash, PartialEq, Eq)]
enum Op {
    Eq,
    Ne,
    Lt,
    Le,
    Gt,
    Ge,
}

#[derive(Serialize, Deserialize, Clone, Debug, Hash, PartialEq, Eq)]
enum P {
    I(Op, i64),
    IIn(Vec<i64>, bool),
    IBetween(i64, i64),
    INull(bool),
    S(Op, String),
    SIn(Vec<String>, bool),
    SLike(String),
    SNull(bool),
    Not(Box<P>),
    And(Box<P>, Box<P>),
    Or(Box<P>, Box<P>),
}

#[derive(Serialize, Deserialize, Clone, Copy, Debug, Hash, PartialEq, Eq)]
enum Shape {
    /// SELECT id                          (filter columns not projected)
    Ids,
    /// SELECT id, i, s
    Full,
    /// SELECT id, file_row_index()
    RowIndex,
    /// SELECT id ... LIMIT 2
    Limit,
    /// SELECT id ... ORDER BY id LIMIT 2
    TopAsc,
    /// SELECT id ... ORDER BY id DESC LIMIT 2
    TopDesc,
}

const SHAPES: [Shape; 6] = [Shape::Ids, Shape::Full, Shape::RowIndex, Shape::Limit, Shape::TopAsc, Shape::TopDesc];

/// Reader-side deviations from the default configuration: (name, key, value).
const DEVIATIONS: [(&str, &str, &str); 14] = [
    ("pushdown_filters", "datafusion.execution.parquet.pushdown_filters", "true"),
    ("reorder_filters", "datafusion.execution.parquet.reorder_filters", "true"),
    ("no_page_index", "datafusion.execution.parquet.enable_page_index", "false"),
    ("no_pruning", "datafusion.execution.parquet.pruning", "false"),
    ("no_bloom_filter_on_read", "datafusion.execution.parquet.bloom_filter_on_read", "false"),
    ("force_filter_selections", "datafusion.execution.parquet.force_filter_selections", "true"),
    ("max_predicate_cache_size_0", "datafusion.execution.parquet.max_predicate_cache_size", "0"),
    ("no_view_types", "datafusion.execution.parquet.schema_force_view_types", "false"),
    ("binary_as_string", "datafusion.execution.parquet.binary_as_string", "true"),
    ("split_files_into_ranges", "datafusion.optimizer.repartition_file_min_size", "0"),
    ("no_dynamic_filter_pushdown", "datafusion.optimizer.enable_dynamic_filter_pushdown", "false"),
    ("no_sort_pushdown", "datafusion.optimizer.enable_sort_pushdown", "false"),
    ("no_collect_statistics", "datafusion.execution.collect_statistics", "false"),
    ("no_skip_metadata", "datafusion.execution.parquet.skip_metadata", "false"),
];

#[derive(Serialize, Deserialize, Clone, Debug, Hash)]
struct Case {
    rows: Vec<Row>,
    layout: Layout,
    pred: P,
    /// names from `DEVIATIONS`
    opts: Vec<String>,
    shape: Shape,
}

// ---------------------------------------------------------------------------
// reference: three-valued logic over the written rows
// ---------------------------------------------------------------------------

fn cmp<T: PartialOrd>(op: Op, a: &T, b: &T) -> bool {
    match op {
        Op::Eq => a == b,
        Op::Ne => a != b,
        Op::Lt => a < b,
        Op::Le => a <= b,
        Op::Gt => a > b,
        Op::Ge => a >= b,
    }
}

fn eval(p: &P, r: &Row) -> Option<bool> {
    match p {
        P::I(op, k) => r.i.map(|x| cmp(*op, &x, k)),
        P::IIn(ks, neg) => r.i.map(|x| ks.contains(&x) != *neg),
        P::IBetween(lo, hi) => r.i.map(|x| *lo <= x && x <= *hi),
        P::INull(neg) => Some(r.i.is_none() != *neg),
        P::S(op, v) => r.s.as_ref().map(|x| cmp(*op, x, v)),
        P::SIn(vs, neg) => r.s.as_ref().map(|x| vs.contains(x) != *neg),
        P::SLike(prefix) => r.s.as_ref().map(|x| x.starts_with(prefix.as_str())),
        P::SNull(neg) => Some(r.s.is_none() != *neg),
        P::Not(a) => eval(a, r).map(|b| !b),
        P::And(a, b) => match (eval(a, r), eval(b, r)) {
            (Some(false), _) | (_, Some(false)) => Some(false),
            (Some(true), Some(true)) => Some(true),
            _ => None,
        },
        P::Or(a, b) => match (eval(a, r), eval(b, r)) {
            (Some(true), _) | (_, Some(true)) => Some(true),
            (Some(false), Some(false)) => Some(false),
            _ => None,
        },
    }
}

fn op_sql(op: Op) -> &'static str {
    match op {
        Op::Eq => "=",
        Op::Ne => "<>",
        Op::Lt => "<",
        Op::Le => "<=",
        Op::Gt => ">",
        Op::Ge => ">=",
    }
}

fn sql(p: &P) -> String {
    match p {
        P::I(op, k) => format!("i {} {k}", op_sql(*op)),
        P::IIn(ks, neg) => format!("i {}IN ({})", if *neg { "NOT " } else { "" }, ks.iter().map(|k| k.to_string()).collect::<Vec<_>>().join(", ")),
        P::IBetween(lo, hi) => format!("i BETWEEN {lo} AND {hi}"),
        P::INull(neg) => format!("i IS {}NULL", if *neg { "NOT " } else { "" }),
        P::S(op, v) => format!("s {} '{v}'", op_sql(*op)),
        P::SIn(vs, neg) => format!("s {}IN ({})", if *neg { "NOT " } else { "" }, vs.iter().map(|v| format!("'{v}'")).collect::<Vec<_>>().join(", ")),
        P::SLike(prefix) => format!("s LIKE '{prefix}%'"),
        P::SNull(neg) => format!("s IS {}NULL", if *neg { "NOT " } else { "" }),
        P::Not(a) => format!("NOT ({})", sql(a)),
        P::And(a, b) => format!("({}) AND ({})", sql(a), sql(b)),
        P::Or(a, b) => format!("({}) OR ({})", sql(a), sql(b)),
    }
}

// ---------------------------------------------------------------------------
// writing
// ---------------------------------------------------------------------------

fn schema() -> SchemaRef {
    Arc::new(Schema::new(vec![
        Field::new("id", DataType::Int64, false),
        Field::new("i", DataType::Int64, true),
        Field::new("s", DataType::Utf8, true),
    ]))
}

/// rows of file `f`: (id, row)
fn file_rows(rows: &[Row], layout: &Layout) -> Vec<Vec<(i64, Row)>> {
    let cut = if layout.files == 2 { rows.len().div_ceil(2) } else { rows.len() };
    let mut out = vec![];
    for (f, part) in [&rows[..cut], &rows[cut..]].iter().enumerate() {
        if f == 1 && layout.files == 1 {
            break;
        }
        out.push(part.iter().enumerate().map(|(k, r)| ((f * 100 + k) as i64, r.clone())).collect());
    }
    out
}

fn parquet_bytes(rows: &[(i64, Row)], l: &Layout) -> Bytes {
    let mut b = WriterProperties::builder()
        .set_max_row_group_row_count(Some(l.rg))
        .set_write_batch_size(1)
        .set_statistics_enabled(match l.stats {
            0 => EnabledStatistics::None,
            1 => EnabledStatistics::Chunk,
            _ => EnabledStatistics::Page,
        })
        .set_bloom_filter_enabled(l.bloom)
        .set_dictionary_enabled(l.dict);
    if l.page > 0 {
        b = b.set_data_page_row_count_limit(l.page);
    }
    let props = b.build();
    let batch = RecordBatch::try_new(
        schema(),
        vec![
            Arc::new(Int64Array::from(rows.iter().map(|r| r.0).collect::<Vec<_>>())) as ArrayRef,
            Arc::new(Int64Array::from(rows.iter().map(|r| r.1.i).collect::<Vec<_>>())),
            Arc::new(StringArray::from(rows.iter().map(|r| r.1.s.clone()).collect::<Vec<_>>())),
        ],
    )
    .unwrap();
    let mut buf = vec![];
    let mut w = parquet::arrow::ArrowWriter::try_new(&mut buf, schema(), Some(props)).unwrap();
    w.write(&batch).unwrap();
    w.close().unwrap();
    Bytes::from(buf)
}

fn build_store(rows: &[Row], l: &Layout) -> Arc<InMemory> {
    let store = Arc::new(InMemory::new());
    for (f, part) in file_rows(rows, l).iter().enumerate() {
        if part.is_empty() {
            continue;
        }
        let p = Path::from(format!("t/f{f}.parquet"));
        futures::executor::block_on(store.put(&p, PutPayload::from_bytes(parquet_bytes(part, l)))).expect("put");
    }
    store
}

// ---------------------------------------------------------------------------
// running
// ---------------------------------------------------------------------------

type OutRow = Vec<Option<String>>;

fn run_query(store: Arc<InMemory>, opts: &[String], q: &str) -> Result<Vec<OutRow>, String> {
    let mut cfg = SessionConfig::new().with_target_partitions(2);
    for o in opts {
        let (_, key, val) = DEVIATIONS.iter().find(|d| d.0 == o).ok_or_else(|| format!("unknown option {o}"))?;
        cfg = cfg.set_str(key, val);
        if *o == "split_files_into_ranges" {
            cfg = cfg.with_target_partitions(3);
        }
    }
    let ctx = SessionContext::new_with_config(cfg);
    ctx.register_object_store(&url::Url::parse("mem://b").unwrap(), store);
    block_on(async {
        ctx.register_parquet("t", "mem://b/t/", ParquetReadOptions::default()).await.map_err(|e| format!("register: {e}"))?;
        let batches = ctx.sql(q).await.map_err(|e| format!("plan: {e}"))?.collect().await.map_err(|e| format!("execute: {e}"))?;
        let mut out = vec![];
        for b in &batches {
            let cols: Vec<ArrayRef> = b
                .columns()
                .iter()
                .map(|c| arrow::compute::cast(c, &DataType::Utf8).map_err(|e| e.to_string()))
                .collect::<Result<_, _>>()?;
            for r in 0..b.num_rows() {
                out.push(
                    cols.iter()
                        .map(|c| {
                            let a = c.as_any().downcast_ref::<StringArray>().unwrap();
                            if a.is_null(r) { None } else { Some(a.value(r).to_string()) }
                        })
                        .collect(),
                );
            }
        }
        Ok(out)
    })
}

struct Stats {
    matching: usize,
    total: usize,
}

fn run_case_with_store(c: &Case, store: Arc<InMemory>) -> Result<Stats, String> {
    let w = sql(&c.pred);
    let q = match c.shape {
        Shape::Ids => format!("SELECT id FROM t WHERE {w}"),
        Shape::Full => format!("SELECT id, i, s FROM t WHERE {w}"),
        Shape::RowIndex => format!("SELECT id, file_row_index() FROM t WHERE {w}"),
        Shape::Limit => format!("SELECT id FROM t WHERE {w} LIMIT 2"),
        Shape::TopAsc => format!("SELECT id FROM t WHERE {w} ORDER BY id LIMIT 2"),
        Shape::TopDesc => format!("SELECT id FROM t WHERE {w} ORDER BY id DESC LIMIT 2"),
    };
    let all: Vec<(i64, Row)> = file_rows(&c.rows, &c.layout).into_iter().flatten().collect();
    let matching: Vec<&(i64, Row)> = all.iter().filter(|(_, r)| eval(&c.pred, r) == Some(true)).collect();
    let mut got = run_query(store, &c.opts, &q).map_err(|e| format!("{q}: {e}"))?;
    let st = Stats { matching: matching.len(), total: all.len() };
    let s = |x: i64| Some(x.to_string());
    let fail = |got: &Vec<OutRow>, want: &Vec<OutRow>| {
        Err(format!("{q}: got {got:?}, reference filter over the written rows gives {want:?}"))
    };
    match c.shape {
        Shape::Ids | Shape::Full | Shape::RowIndex => {
            let mut want: Vec<OutRow> = matching
                .iter()
                .map(|(id, r)| match c.shape {
                    Shape::Ids => vec![s(*id)],
                    Shape::Full => vec![s(*id), r.i.map(|x| x.to_string()), r.s.clone()],
                    _ => vec![s(*id), s(*id % 100)],
                })
                .collect();
            want.sort();
            got.sort();
            if got != want {
                return fail(&got, &want);
            }
        }
        Shape::Limit => {
            let ids: Vec<OutRow> = matching.iter().map(|(id, _)| vec![s(*id)]).collect();
            let n = ids.len().min(2);
            got.sort();
            let distinct = got.windows(2).all(|w| w[0] != w[1]);
            if got.len() != n || !distinct || got.iter().any(|g| !ids.contains(g)) {
                return Err(format!("{q}: got {got:?}; expected any {n} distinct of {ids:?}"));
            }
        }
        Shape::TopAsc | Shape::TopDesc => {
            let mut ids: Vec<i64> = matching.iter().map(|(id, _)| *id).collect();
            ids.sort();
            if c.shape == Shape::TopDesc {
                ids.reverse();
            }
            let want: Vec<OutRow> = ids.into_iter().take(2).map(|x| vec![s(x)]).collect();
            if got != want {
                return fail(&got, &want);
            }
        }
    }
    Ok(st)
}

fn run_case(c: &Case) -> Result<Stats, String> {
    run_case_with_store(c, build_store(&c.rows, &c.layout))
}

// ---------------------------------------------------------------------------
// enumeration
// ---------------------------------------------------------------------------

fn rows_of(is: &[i64], ss: &[&str]) -> Vec<Row> {
    // 0 = NULL for i, "-" = NULL for s
    is.iter().zip(ss).map(|(i, s)| Row { i: if *i == 0 { None } else { Some(*i) }, s: if *s == "-" { None } else { Some(s.to_string()) } }).collect()
}

fn pattern_datasets() -> Vec<Vec<Row>> {
    vec![
        rows_of(&[1, 1, 2, 2, 3, 3], &["a", "a", "b", "b", "ab", "ab"]), // sorted
        rows_of(&[1, 2, 3, 0, 0, 0], &["a", "b", "-", "a", "b", "-"]),   // sorted, NULL tail
        rows_of(&[2, 2, 2, 2, 2, 2], &["a", "a", "a", "a", "a", "a"]),   // all equal
        rows_of(&[0, 0, 0, 0, 0, 0], &["-", "-", "-", "-", "-", "-"]),   // all NULL
        rows_of(&[3, 3, 1, 1, 2, 2], &["b", "b", "a", "a", "-", "-"]),   // clustered
        rows_of(&[1, 3, 1, 3, 1, 3], &["a", "b", "a", "b", "a", "b"]),   // alternating
        rows_of(&[0, 1, 0, 0, 3, 0], &["-", "-", "a", "-", "-", "ab"]),  // NULL heavy
        rows_of(&[3, 3, 2, 2, 1, 1], &["ab", "b", "a", "ab", "b", "a"]), // descending
        rows_of(&[1, 0, 0, 0, 0, 3], &["a", "-", "-", "-", "-", "b"]),   // values at the edges
        rows_of(&[2, 0, 2, 0, 1], &["ab", "ab", "-", "a", "a"]),         // 5 rows
        rows_of(&[1, 3], &["a", "-"]),
        rows_of(&[0], &["b"]),
    ]
}

fn small_datasets() -> Vec<Vec<Row>> {
    let mut alpha = vec![];
    for i in [None, Some(1), Some(3)] {
        for s in [None, Some("a".to_string())] {
            alpha.push(Row { i, s });
        }
    }
    mc_core::enumerate::sequences(&alpha, 1, 3)
}

/// Rows (as index vectors) covering every pair of factor levels; deterministic greedy.
fn pairwise(dims: &[usize]) -> Vec<Vec<usize>> {
    let mut all = vec![];
    mc_core::enumerate::product(dims, |ix| all.push(ix.to_vec()));
    let mut uncovered = std::collections::BTreeSet::new();
    for a in 0..dims.len() {
        for b in a + 1..dims.len() {
            for x in 0..dims[a] {
                for y in 0..dims[b] {
                    uncovered.insert((a, x, b, y));
                }
            }
        }
    }
    let mut out = vec![];
    while !uncovered.is_empty() {
        let mut best = (0usize, 0usize);
        for (k, row) in all.iter().enumerate() {
            let mut n = 0;
            for a in 0..dims.len() {
                for b in a + 1..dims.len() {
                    if uncovered.contains(&(a, row[a], b, row[b])) {
                        n += 1;
                    }
                }
            }
            if n > best.0 {
                best = (n, k);
            }
        }
        let row = all[best.1].clone();
        for a in 0..dims.len() {
            for b in a + 1..dims.len() {
                uncovered.remove(&(a, row[a], b, row[b]));
            }
        }
        out.push(row);
    }
    out
}

const RG: [usize; 4] = [1, 2, 3, 6];
const PAGE: [usize; 3] = [1, 2, 0];

fn layout_of(ix: &[usize]) -> Layout {
    Layout { rg: RG[ix[0]], page: PAGE[ix[1]], stats: ix[2] as u8, bloom: ix[3] == 1, dict: ix[4] == 1, files: ix[5] + 1 }
}

fn layouts(full: bool) -> Vec<Layout> {
    let dims = [4, 3, 3, 2, 2, 2];
    if full {
        let mut v = vec![];
        mc_core::enumerate::product(&dims, |ix| v.push(layout_of(ix)));
        v
    } else {
        pairwise(&dims).iter().map(|ix| layout_of(ix)).collect()
    }
}

fn predicates() -> Vec<P> {
    let st = |s: &str| s.to_string();
    let atoms = vec![
        P::I(Op::Eq, 1),
        P::I(Op::Eq, 2),
        P::I(Op::Eq, 3),
        P::I(Op::Eq, 4),
        P::I(Op::Ne, 2),
        P::I(Op::Lt, 2),
        P::I(Op::Le, 1),
        P::I(Op::Gt, 2),
        P::I(Op::Ge, 3),
        P::I(Op::Gt, 3),
        P::IIn(vec![1, 3], false),
        P::IIn(vec![1, 3], true),
        P::IIn(vec![4, 5], false),
        P::IBetween(2, 3),
        P::INull(false),
        P::INull(true),
        P::S(Op::Eq, st("a")),
        P::S(Op::Eq, st("c")),
        P::S(Op::Ne, st("a")),
        P::S(Op::Lt, st("b")),
        P::S(Op::Ge, st("ab")),
        P::S(Op::Gt, st("b")),
        P::SIn(vec![st("a"), st("c")], false),
        P::SIn(vec![st("a")], true),
        P::SLike(st("a")),
        P::SNull(false),
        P::SNull(true),
    ];
    let reduced = vec![P::I(Op::Eq, 1), P::I(Op::Ge, 3), P::INull(false), P::S(Op::Eq, st("a")), P::S(Op::Lt, st("b"))];
    let mut out = atoms.clone();
    for a in &reduced {
        out.push(P::Not(Box::new(a.clone())));
    }
    for i in 0..reduced.len() {
        for j in i + 1..reduced.len() {
            // same-column pairs only when they can interact: keep all, it is cheap
            out.push(P::And(Box::new(reduced[i].clone()), Box::new(reduced[j].clone())));
            out.push(P::Or(Box::new(reduced[i].clone()), Box::new(reduced[j].clone())));
        }
    }
    out.push(P::Not(Box::new(P::Or(Box::new(P::I(Op::Eq, 1)), Box::new(P::S(Op::Eq, st("a")))))));
    out
}

/// option sets within `max_dev` deviations of the two bases (default; default + pushdown_filters)
fn option_sets(max_dev: usize) -> Vec<Vec<String>> {
    let names: Vec<&str> = DEVIATIONS.iter().map(|d| d.0).collect();
    let mut out: Vec<Vec<String>> = vec![];
    for base in [vec![], vec!["pushdown_filters"]] {
        for sub in mc_core::enumerate::subsets_up_to(names.len(), max_dev) {
            let mut v: Vec<&str> = base.clone();
            for k in sub {
                if !v.contains(&names[k]) {
                    v.push(names[k]);
                }
            }
            v.sort_by_key(|n| names.iter().position(|x| x == n));
            let v: Vec<String> = v.into_iter().map(|s| s.to_string()).collect();
            if !out.contains(&v) {
                out.push(v);
            }
        }
    }
    out.sort_by_key(|v| v.len());
    out
}

fn explore(ctx: &Ctx) {
    let preds = predicates();
    let opt_sets = option_sets(ctx.pick(1, 2));
    let lay_quick = layouts(false);
    let lay_full = layouts(true);
    let mut patterns = pattern_datasets();
    if ctx.quick() {
        // quick: 9 of the 12 patterns (thorough: all)
        patterns = [0usize, 1, 2, 3, 4, 5, 6, 10, 11].iter().map(|i| patterns[*i].clone()).collect();
    }
    let smalls = small_datasets();
    ctx.set_extra(
        "bounds",
        json!({"pattern_datasets": patterns.len(), "small_datasets (thorough)": format!("{} = every sequence of 1..=3 rows over i in {{NULL,1,3}} x s in {{NULL,'a'}}", smalls.len()),
               "layout_factors": {"max_row_group_rows": RG, "data_page_row_count_limit (0 = unlimited)": PAGE, "statistics": ["none", "chunk", "page"], "bloom_filter": [false, true], "dictionary": [false, true], "files": [1, 2], "write_batch_size": 1},
               "layouts": if ctx.quick() { format!("pairwise (strength 2) covering array of the 288 combinations: {} layouts", lay_quick.len()) } else { "pattern datasets: all 288; small datasets: the pairwise covering array".to_string() },
               "predicates": preds.len(),
               "option_sets": format!("{} = <= {} deviations from default and from default+pushdown_filters over {:?}", opt_sets.len(), ctx.pick(1, 2), DEVIATIONS.iter().map(|d| d.0).collect::<Vec<_>>()),
               "shapes": "the two base option sets run all 6 query shapes with every predicate; every other option set runs one shape chosen round-robin by (dataset + layout + predicate + option set) index, in quick tier with every third predicate only"}),
    );
    // groups sharing one store: (rows, layout)
    let mut groups: Vec<(usize, Vec<Row>, Layout, bool)> = vec![];
    for (di, d) in patterns.iter().enumerate() {
        let ls = if ctx.quick() { &lay_quick } else { &lay_full };
        for (li, l) in ls.iter().enumerate() {
            groups.push((di + li, d.clone(), *l, true));
        }
    }
    if ctx.thorough() {
        for (di, d) in smalls.iter().enumerate() {
            for (li, l) in lay_quick.iter().enumerate() {
                groups.push((di + li, d.clone(), *l, false));
            }
        }
    }
    groups.par_iter().for_each(|(gi, rows, layout, all_opts)| {
        if ctx.should_stop() {
            return;
        }
        let store = build_store(rows, layout);
        let mut cases = vec![];
        for (pi, p) in preds.iter().enumerate() {
            for (oi, o) in opt_sets.iter().enumerate() {
                let base = o.is_empty() || (o.len() == 1 && o[0] == "pushdown_filters");
                if base {
                    for sh in SHAPES {
                        cases.push(Case { rows: rows.clone(), layout: *layout, pred: p.clone(), opts: o.clone(), shape: sh });
                    }
                } else if *all_opts && (ctx.thorough() || (gi + pi + oi) % 3 == 0) {
                    // quick: every non-base option set meets every third predicate of a
                    // (dataset, layout) group, offset by the group and option index
                    let sh = SHAPES[((gi + pi + oi) / 3) % SHAPES.len()];
                    cases.push(Case { rows: rows.clone(), layout: *layout, pred: p.clone(), opts: o.clone(), shape: sh });
                }
            }
        }
        cases.par_iter().for_each(|c| {
            if ctx.should_stop() {
                return;
            }
            ctx.eval();
            match mc_core::catch(|| run_case_with_store(c, Arc::clone(&store))).unwrap_or_else(Err) {
                Ok(st) => {
                    // non-trivial: the predicate selects some but not all rows
                    if st.matching > 0 && st.matching < st.total {
                        ctx.nontrivial(&(rows, layout, &c.pred));
                        ctx.count("cases_selecting_a_proper_subset", 1);
                        if c.opts.len() == 2 && c.shape == Shape::Full && layout.rg == 2 && ctx.want_sample() {
                            ctx.sample(json!({"case": c, "where": sql(&c.pred), "matching_rows": st.matching, "rows": st.total}));
                        }
                    }
                }
                Err(what) => {
                    let j = serde_json::to_value(c).unwrap();
                    ctx.violation(format!("{j}"), what, j);
                }
            }
        });
    });
}

fn replay(v: &Json) -> Result<(), String> {
    let c: Case = serde_json::from_value(v.clone()).map_err(|e| format!("bad case: {e}"))?;
    mc_core::catch(|| run_case(&c)).unwrap_or_else(Err).map(|_| ())
}

fn main() {
    mc_core::quiet_panics();
    run_check(
        "C24",
        Level::Exploration,
        "every (dataset, writer layout, predicate, reader option set, query shape) in the stated lists, each scanned through SessionContext over Parquet bytes produced by the real writer; \
         non-trivial = distinct (dataset, layout, predicate) where the predicate selects some but not all rows",
        explore,
        replay,
    );
}
