//! Plan walker shared by C28 / C29 / C30 / C53 (DESIGN §4.1).
//!
//! For one case = (query of grammar G, database, configuration) the walker
//!   1. builds a fresh `SessionContext` (MemTables in the configuration's
//!      layout), plans the SQL text into the physical plan the engine would run,
//!   2. flattens the plan (pre-order; a node is identified by its child-index
//!      path from the root),
//!   3. executes **every node standalone**: the sub-plan rooted at the node is
//!      copied with fresh execution state (`reset_plan_states`), all its output
//!      partitions are started and driven concurrently on this thread's
//!      current-thread tokio runtime with a fresh `TaskContext`, and every
//!      emitted batch is kept per partition,
//!   4. hands the declared node (as the engine built it) together with its
//!      observed output to the property's oracle.
//!
//! Nodes that cannot run on their own are skipped and counted: readers of a
//! recursive query's work table (everything inside a recursive term).  Nodes
//! below a `ScalarSubqueryExec` that evaluate a `ScalarSubqueryExpr` are run
//! under a copy of that (pass-through) `ScalarSubqueryExec`, which fills in the
//! scalar results first and then forwards the node's batches unchanged.
//! Plans that hold dynamic filters (file scans under a TopK / hash join /
//! min-max aggregate) are never re-executed through `reset_plan_states`: every
//! execution uses a plan planned afresh from the SQL text, so no run sees a
//! filter bound left behind by another run; a consumer whose producer lies
//! outside the executed sub-plan runs with the filter in its initial
//! (pass-everything) state.
//!
//! Configurations: see `ALL_CONFIGS` (MemTables in three layouts, MemTables
//! with a declared sort order, sorted Parquet files with collected statistics
//! in an in-memory object store).
#![allow(dead_code)]

use arrow::array::{Array, ArrayRef, RecordBatch};
use chk_sql::sqlmc::db::{self, Database, Table};
use chk_sql::sqlmc::engine::{self, block_on};
use chk_sql::sqlmc::grammar::{self, GenQuery, Tier};
use chk_sql::sqlmc::value::{Row, Value};
use chk_sql::sqlmc::{ContextOptions, Layout, TextEncoding, default_config};
use datafusion::catalog::MemTable;
use datafusion::common::tree_node::TreeNodeRecursion;
use datafusion::execution::TaskContext;
use datafusion::logical_expr::LogicalPlan;
use datafusion::physical_expr::PhysicalExpr;
use datafusion::physical_expr::expressions::DynamicFilterPhysicalExpr;
use datafusion::physical_expr::scalar_subquery::ScalarSubqueryExpr;
use datafusion::physical_plan::execution_plan::{ChildrenPropertiesMode, ReplaceChildrenOptions, reset_plan_states};
use datafusion::physical_plan::recursive_query::RecursiveQueryExec;
use datafusion::physical_plan::scalar_subquery::ScalarSubqueryExec;
use datafusion::physical_plan::work_table::WorkTableExec;
use datafusion::physical_plan::{ExecutionPlan, ExecutionPlanProperties, displayable};
use datafusion::prelude::{SessionContext, col};
use futures::StreamExt;
use mc_core::rayon::prelude::*;
use mc_core::serde_json::{Value as Json, json};
use mc_core::Ctx;
use serde::{Deserialize, Serialize};
use std::cmp::Ordering;
use std::collections::{BTreeMap, BTreeSet};
use std::sync::{Arc, Mutex};

// ---------------------------------------------------------------- configurations

/// The configuration menu.  `sorted` registers every table with a declared
/// sort order (`MemTable::with_sort_order`) over rows that really are sorted.
pub const ALL_CONFIGS: [&str; 5] = ["default", "tp3", "smj_bs2", "sorted", "parquet"];

pub fn config_description(c: &str) -> &'static str {
    match c {
        "default" => "defaults, target_partitions=1, every table 1 partition / 1 batch",
        "tp3" => "target_partitions=3, every table laid out round-robin over 2 partitions in 1-row batches",
        "smj_bs2" => "prefer_hash_join=false (sort-merge joins), batch_size=2, target_partitions=2, tables 1 partition cut in 2-row batches",
        "sorted" => "target_partitions=2, tables sorted by (a, next column) ASC NULLS LAST, laid out round-robin over 2 partitions, sort order declared with MemTable::with_sort_order",
        "parquet" => "target_partitions=2, every table stored as 2 Parquet files (row i in file i mod 2) in an in-memory object store, rows of each file sorted by (a, next column) ASC NULLS LAST, file sort order declared, Parquet statistics collected",
        _ => "?",
    }
}

/// Sort key (column indices) of the `sorted` configuration per table.
fn sorted_key(t: &Table) -> Vec<usize> {
    let a = t.cols.iter().position(|(n, _)| n == "a").unwrap_or(0);
    let other = (0..t.cols.len()).find(|i| *i != a).unwrap_or(a);
    if other == a { vec![a] } else { vec![a, other] }
}

/// Compare two non-NULL cells of the same class; `None` when the class has no
/// order the oracle knows (lists, exotic types) or the classes differ.
pub fn cmp_non_null(a: &Value, b: &Value) -> Option<Ordering> {
    match (a, b) {
        (Value::Bool(x), Value::Bool(y)) => Some(x.cmp(y)),
        (Value::Int(x), Value::Int(y)) => Some(x.cmp(y)),
        (Value::Float(x), Value::Float(y)) => Some(x.total_cmp(y)),
        (Value::Text(x), Value::Text(y)) => Some(x.as_bytes().cmp(y.as_bytes())),
        _ => None,
    }
}

/// SQL sort comparison of two cells under (descending, nulls_first) — the
/// semantics of Arrow's `SortOptions`: NULL placement is absolute, `descending`
/// reverses non-NULL values only.
pub fn cmp_sort(a: &Value, b: &Value, descending: bool, nulls_first: bool) -> Option<Ordering> {
    match (a.is_null(), b.is_null()) {
        (true, true) => Some(Ordering::Equal),
        (true, false) => Some(if nulls_first { Ordering::Less } else { Ordering::Greater }),
        (false, true) => Some(if nulls_first { Ordering::Greater } else { Ordering::Less }),
        (false, false) => cmp_non_null(a, b).map(|o| if descending { o.reverse() } else { o }),
    }
}

/// Equality of two cells where NULL equals NULL (the equality of "same value").
pub fn same_value(a: &Value, b: &Value) -> Option<bool> {
    match (a.is_null(), b.is_null()) {
        (true, true) => Some(true),
        (true, false) | (false, true) => Some(false),
        _ => match (a, b) {
            (Value::Int(x), Value::Float(y)) | (Value::Float(y), Value::Int(x)) => Some((*x as f64) == *y),
            _ => cmp_non_null(a, b).map(|o| o == Ordering::Equal),
        },
    }
}

pub fn context_for(dbv: &Database, config: &str) -> Result<SessionContext, String> {
    match config {
        "default" => engine::make_context(dbv, &ContextOptions::default()),
        "tp3" => engine::make_context(
            dbv,
            &ContextOptions { layout: Layout::RoundRobin { partitions: 2, batch_rows: 1 }, config: default_config().with_target_partitions(3), text: TextEncoding::View },
        ),
        "smj_bs2" => engine::make_context(
            dbv,
            &ContextOptions {
                layout: Layout::RoundRobin { partitions: 1, batch_rows: 2 },
                config: default_config().with_target_partitions(2).with_batch_size(2).set_bool("datafusion.optimizer.prefer_hash_join", false),
                text: TextEncoding::View,
            },
        ),
        "sorted" => {
            let sctx = SessionContext::new_with_config(default_config().with_target_partitions(2));
            let layout = Layout::RoundRobin { partitions: 2, batch_rows: 0 };
            for t in &dbv.tables {
                let key = sorted_key(t);
                let mut sorted = t.clone();
                let mut bad = false;
                sorted.rows.sort_by(|x, y| {
                    for k in &key {
                        match cmp_sort(&x[*k], &y[*k], false, false) {
                            Some(Ordering::Equal) => {}
                            Some(o) => return o,
                            None => bad = true,
                        }
                    }
                    Ordering::Equal
                });
                if bad {
                    return Err(format!("table {} holds values the harness cannot sort", t.name));
                }
                let parts = engine::table_partitions(&sorted, &layout, TextEncoding::View);
                let order = key.iter().map(|k| col(sorted.cols[*k].0.as_str()).sort(true, false)).collect::<Vec<_>>();
                let mt = MemTable::try_new(engine::arrow_schema(&sorted, TextEncoding::View), parts).map_err(|e| format!("MemTable::try_new: {e}"))?.with_sort_order(vec![order]);
                sctx.register_table(t.name.as_str(), Arc::new(mt)).map_err(|e| format!("register_table: {e}"))?;
            }
            Ok(sctx)
        }
        "parquet" => {
            use object_store::ObjectStoreExt;
            let sctx = SessionContext::new_with_config(default_config().with_target_partitions(2));
            let store = Arc::new(object_store::memory::InMemory::new());
            let url = url::Url::parse("walkermem://db").unwrap();
            sctx.register_object_store(&url, store.clone());
            for t in &dbv.tables {
                let key = sorted_key(t);
                let schema = engine::arrow_schema(t, TextEncoding::View);
                for f in 0..2usize {
                    let mut rows: Vec<&Row> = t.rows.iter().enumerate().filter(|(i, _)| i % 2 == f).map(|(_, r)| r).collect();
                    if rows.is_empty() {
                        continue;
                    }
                    rows.sort_by(|x, y| {
                        for k in &key {
                            match cmp_sort(&x[*k], &y[*k], false, false) {
                                Some(Ordering::Equal) | None => {}
                                Some(o) => return o,
                            }
                        }
                        Ordering::Equal
                    });
                    let batch = engine::rows_to_batch(t, &rows, TextEncoding::View);
                    let mut buf = vec![];
                    let mut w = parquet::arrow::ArrowWriter::try_new(&mut buf, batch.schema(), None).map_err(|e| format!("parquet writer: {e}"))?;
                    w.write(&batch).map_err(|e| format!("parquet write: {e}"))?;
                    w.close().map_err(|e| format!("parquet close: {e}"))?;
                    let path = object_store::path::Path::from(format!("{}/part-{f}.parquet", t.name));
                    block_on(store.put(&path, object_store::PutPayload::from(buf))).map_err(|e| format!("put {path}: {e}"))?;
                }
                let order = key.iter().map(|k| col(t.cols[*k].0.as_str()).sort(true, false)).collect::<Vec<_>>();
                let opts = datafusion::prelude::ParquetReadOptions::default().schema(schema.as_ref()).file_extension(".parquet").file_sort_order(vec![order]);
                block_on(sctx.register_parquet(t.name.as_str(), format!("walkermem://db/{}/", t.name), opts)).map_err(|e| format!("register_parquet({}): {e}", t.name))?;
            }
            Ok(sctx)
        }
        other => Err(format!("unknown configuration {other}")),
    }
}

// ---------------------------------------------------------------- case

#[derive(Serialize, Deserialize, Clone, Debug)]
pub struct Case {
    pub id: String,
    pub sql: String,
    pub db_label: String,
    pub db: Database,
    pub config: String,
    /// replay: restrict the verdict to this node (child-index path from the root)
    #[serde(default)]
    pub node: Option<Vec<usize>>,
    /// replay: restrict the verdict to this root-cause key
    #[serde(default)]
    pub expect_key: Option<String>,
}

// ---------------------------------------------------------------- plan / nodes

pub struct NodeRef {
    pub idx: usize,
    pub parent: Option<usize>,
    /// which child of the parent this node is
    pub child_no: usize,
    pub path: Vec<usize>,
    pub plan: Arc<dyn ExecutionPlan>,
    pub name: String,
    /// end (exclusive) of this node's subtree in the pre-order list
    pub subtree_end: usize,
}

pub fn flatten(root: &Arc<dyn ExecutionPlan>) -> Vec<NodeRef> {
    fn rec(p: &Arc<dyn ExecutionPlan>, parent: Option<usize>, child_no: usize, path: Vec<usize>, out: &mut Vec<NodeRef>) {
        let idx = out.len();
        out.push(NodeRef { idx, parent, child_no, path: path.clone(), plan: Arc::clone(p), name: p.name().to_string(), subtree_end: 0 });
        for (i, c) in p.children().into_iter().enumerate() {
            let mut cp = path.clone();
            cp.push(i);
            rec(c, Some(idx), i, cp, out);
        }
        out[idx].subtree_end = out.len();
    }
    let mut out = vec![];
    rec(root, None, 0, vec![], &mut out);
    out
}

pub fn one_line(p: &dyn ExecutionPlan) -> String {
    let s = format!("{}", displayable(p).one_line());
    s.trim().chars().take(300).collect()
}

pub fn plan_text(p: &dyn ExecutionPlan) -> String {
    format!("{}", displayable(p).indent(false))
}

/// All expression roots a node owns (shallow), via `apply_expressions`.
pub fn node_exprs(p: &dyn ExecutionPlan) -> Vec<Arc<dyn PhysicalExpr>> {
    let mut v = vec![];
    let _ = p.apply_expressions(&mut |e| {
        v.push(Arc::clone(e));
        Ok(TreeNodeRecursion::Continue)
    });
    v
}

pub fn expr_any(e: &Arc<dyn PhysicalExpr>, f: &mut dyn FnMut(&Arc<dyn PhysicalExpr>) -> bool) -> bool {
    if f(e) {
        return true;
    }
    for c in e.children() {
        if expr_any(c, f) {
            return true;
        }
    }
    false
}

fn node_uses_scalar_subquery(p: &dyn ExecutionPlan) -> bool {
    node_exprs(p).iter().any(|e| expr_any(e, &mut |x| x.downcast_ref::<ScalarSubqueryExpr>().is_some()))
}

/// Does this node *consume* a dynamic filter it does not produce itself?
pub fn node_consumes_dynamic_filter(p: &dyn ExecutionPlan) -> bool {
    let produced: Vec<Arc<dyn PhysicalExpr>> = p.dynamic_expressions_produced();
    node_exprs(p).iter().any(|e| {
        expr_any(e, &mut |x| x.downcast_ref::<DynamicFilterPhysicalExpr>().is_some() && !produced.iter().any(|d| Arc::ptr_eq(d, x) || (d.expression_id().is_some() && d.expression_id() == x.expression_id())))
    })
}

#[derive(Clone, Debug, PartialEq)]
pub enum Skip {
    /// the sub-plan reads a recursive query's work table that only the enclosing RecursiveQueryExec fills
    WorkTable,
    /// building the standalone copy failed (harness limitation), with the engine's message
    CannotBuild(String),
}

/// Why node `i` cannot be executed on its own (None = it can).
fn standalone_obstacle(nodes: &[NodeRef], i: usize) -> Option<Skip> {
    let sub = &nodes[i..nodes[i].subtree_end];
    let declared: BTreeSet<String> = sub.iter().filter_map(|n| n.plan.downcast_ref::<RecursiveQueryExec>().map(|r| r.name().to_string())).collect();
    for n in sub {
        if let Some(w) = n.plan.downcast_ref::<WorkTableExec>() {
            if !declared.contains(w.name()) {
                return Some(Skip::WorkTable);
            }
        }
    }
    None
}

/// The plan to execute in order to observe node `i` on its own: a copy of the
/// sub-plan with fresh execution state, wrapped (when the sub-plan evaluates a
/// `ScalarSubqueryExpr`) in copies of the enclosing pass-through
/// `ScalarSubqueryExec` nodes that compute the scalar results.
pub fn standalone_plan(nodes: &[NodeRef], i: usize, freshly_planned: bool) -> Result<Arc<dyn ExecutionPlan>, Skip> {
    if let Some(s) = standalone_obstacle(nodes, i) {
        return Err(s);
    }
    let mut plan = Arc::clone(&nodes[i].plan);
    let uses_ssq = nodes[i..nodes[i].subtree_end].iter().any(|n| node_uses_scalar_subquery(n.plan.as_ref()));
    if uses_ssq {
        // innermost enclosing ScalarSubqueryExec first; only those whose *main input* holds the node
        let mut cur = i;
        while let Some(p) = nodes[cur].parent {
            if nodes[p].plan.is::<ScalarSubqueryExec>() && nodes[cur].child_no == 0 {
                let mut children: Vec<Arc<dyn ExecutionPlan>> = nodes[p].plan.children().into_iter().cloned().collect();
                children[0] = plan;
                plan = Arc::clone(&nodes[p].plan)
                    .replace_children(children, ReplaceChildrenOptions::new(ChildrenPropertiesMode::Recompute))
                    .map_err(|e| Skip::CannotBuild(format!("ScalarSubqueryExec::replace_children: {e}")))?;
            }
            cur = p;
        }
    }
    if freshly_planned {
        // a plan nobody has executed yet needs no reset (and resetting would cut the link between
        // the producers and the consumers of its dynamic filters)
        return Ok(plan);
    }
    reset_plan_states(plan).map_err(|e| Skip::CannotBuild(format!("reset_plan_states: {e}")))
}

/// Plans that hold dynamic filters cannot be re-executed through `reset_plan_states` (documented
/// there): a reset producer gets a new filter object while the consumer keeps the old one, with
/// whatever bound earlier runs left in it.  For such plans every execution uses a plan planned
/// afresh from the SQL text (planning is deterministic; the shape is verified).
pub fn plan_holds_dynamic_filters(nodes: &[NodeRef]) -> bool {
    nodes.iter().any(|n| node_consumes_dynamic_filter(n.plan.as_ref()))
}

/// A freshly planned twin of the plan flattened in `nodes` (None when planning gives another shape).
pub fn fresh_twin(sctx: &SessionContext, sql: &str, nodes: &[NodeRef]) -> Option<Vec<NodeRef>> {
    let (_, p) = plan_case(sctx, sql).ok()?;
    let f = flatten(&p);
    if f.len() == nodes.len() && f.iter().zip(nodes).all(|(a, b)| a.path == b.path && a.name == b.name && a.plan.schema() == b.plan.schema()) { Some(f) } else { None }
}

// ---------------------------------------------------------------- execution

#[derive(Clone)]
pub struct NodeOutput {
    /// per output partition: the batches emitted (before the first error, if any)
    pub parts: Vec<Vec<RecordBatch>>,
    /// first error of any partition (the output is then incomplete)
    pub error: Option<String>,
}

impl NodeOutput {
    pub fn complete(&self) -> bool {
        self.error.is_none()
    }
    pub fn rows(&self) -> usize {
        self.parts.iter().flatten().map(|b| b.num_rows()).sum()
    }
    pub fn part_rows(&self, p: usize) -> usize {
        self.parts[p].iter().map(|b| b.num_rows()).sum()
    }
}

const EXEC_TIMEOUT_S: u64 = 60;

/// Start every output partition of `plan`, then drive all streams concurrently
/// to the end on this thread's runtime.
pub fn execute_all(plan: &Arc<dyn ExecutionPlan>, tctx: Arc<TaskContext>) -> NodeOutput {
    let n = plan.output_partitioning().partition_count();
    let r = mc_core::catch(|| {
        block_on(async {
            let mut streams = vec![];
            for p in 0..n {
                match plan.execute(p, Arc::clone(&tctx)) {
                    Ok(s) => streams.push(s),
                    Err(e) => return NodeOutput { parts: vec![vec![]; n], error: Some(format!("execute({p}): {e}")) },
                }
            }
            let futs = streams.into_iter().map(|mut s| async move {
                let mut out = vec![];
                while let Some(r) = s.next().await {
                    match r {
                        Ok(b) => out.push(b),
                        Err(e) => return (out, Some(format!("{e}"))),
                    }
                }
                (out, None)
            });
            match tokio::time::timeout(std::time::Duration::from_secs(EXEC_TIMEOUT_S), futures::future::join_all(futs)).await {
                Ok(v) => {
                    let error = v.iter().find_map(|(_, e)| e.clone());
                    NodeOutput { parts: v.into_iter().map(|(b, _)| b).collect(), error }
                }
                Err(_) => NodeOutput { parts: vec![vec![]; n], error: Some(format!("HARNESS-TIMEOUT: no progress for {EXEC_TIMEOUT_S}s")) },
            }
        })
    });
    match r {
        Ok(o) => o,
        Err(p) => NodeOutput { parts: vec![vec![]; n], error: Some(p) },
    }
}

pub enum Standalone {
    Ran(NodeOutput),
    Skipped(Skip),
}

pub struct NodeRun {
    pub node: NodeRef,
    pub standalone: Standalone,
}

impl NodeRun {
    pub fn output(&self) -> Option<&NodeOutput> {
        match &self.standalone {
            Standalone::Ran(o) => Some(o),
            _ => None,
        }
    }
}

pub struct PlanRun {
    pub sctx: SessionContext,
    pub logical: LogicalPlan,
    pub physical: Arc<dyn ExecutionPlan>,
    pub nodes: Vec<NodeRun>,
    pub sql: String,
    /// the plan holds dynamic filters: every execution used a freshly planned twin
    pub replanned: bool,
}

impl PlanRun {
    /// A never-executed copy of the whole plan.
    pub fn whole_plan_copy(&self) -> Option<Arc<dyn ExecutionPlan>> {
        if self.replanned {
            let flat = flatten(&self.physical);
            fresh_twin(&self.sctx, &self.sql, &flat).map(|f| Arc::clone(&f[0].plan))
        } else {
            reset_plan_states(Arc::clone(&self.physical)).ok()
        }
    }
}

/// Plan `sql` in `sctx` (logical plan as written, physical plan as the engine would run it).
pub fn plan_case(sctx: &SessionContext, sql: &str) -> Result<(LogicalPlan, Arc<dyn ExecutionPlan>), String> {
    mc_core::catch(|| {
        block_on(async {
            let df = sctx.sql(sql).await.map_err(|e| format!("plan error: {e}"))?;
            let logical = df.logical_plan().clone();
            let physical = df.create_physical_plan().await.map_err(|e| format!("physical plan error: {e}"))?;
            Ok((logical, physical))
        })
    })
    .unwrap_or_else(Err)
}

/// Plan the case and execute every node standalone (`only`: just that node).
pub fn walk(sctx: &SessionContext, sql: &str, only: Option<&[usize]>) -> Result<PlanRun, String> {
    let (logical, physical) = plan_case(sctx, sql)?;
    let flat = flatten(&physical);
    // Each standalone copy is built immediately before it runs: building it resets execution
    // state that copies share with the original plan (a ScalarSubqueryExec's result slots).
    let replanned = plan_holds_dynamic_filters(&flat);
    let mut standalone: Vec<Option<Standalone>> = vec![];
    for i in 0..flat.len() {
        if only.map(|o| o != flat[i].path.as_slice()).unwrap_or(false) {
            standalone.push(None);
            continue;
        }
        let built = if replanned {
            match fresh_twin(sctx, sql, &flat) {
                Some(twin) => standalone_plan(&twin, i, true),
                None => Err(Skip::CannotBuild("planning the statement again gave a different plan".into())),
            }
        } else {
            standalone_plan(&flat, i, false)
        };
        standalone.push(Some(match built {
            Err(s) => Standalone::Skipped(s),
            Ok(p) => Standalone::Ran(execute_all(&p, sctx.task_ctx())),
        }));
    }
    let mut nodes = vec![];
    for (node, st) in flat.into_iter().zip(standalone) {
        if let Some(standalone) = st {
            nodes.push(NodeRun { node, standalone });
        }
    }
    Ok(PlanRun { sctx: sctx.clone(), logical, physical, nodes, sql: sql.to_string(), replanned })
}

// ---------------------------------------------------------------- values of expressions on observed output

/// Evaluate `expr` with the real `PhysicalExpr` on every batch; one cell per row.
pub fn eval_on(expr: &Arc<dyn PhysicalExpr>, batches: &[RecordBatch]) -> Result<Vec<Value>, String> {
    let mut out = vec![];
    for b in batches {
        let r = mc_core::catch(|| expr.evaluate(b).and_then(|c| c.into_array(b.num_rows()))).map_err(|e| e)?;
        let a: ArrayRef = r.map_err(|e| format!("{e}"))?;
        if a.len() != b.num_rows() {
            return Err(format!("expression produced {} values for {} rows", a.len(), b.num_rows()));
        }
        out.extend(engine::array_to_values(&a));
    }
    Ok(out)
}

pub fn column_values(batches: &[RecordBatch], col: usize) -> Vec<Value> {
    let mut out = vec![];
    for b in batches {
        out.extend(engine::array_to_values(b.column(col)));
    }
    out
}

pub fn show_values(v: &[Value]) -> String {
    let s: Vec<String> = v.iter().take(12).map(|x| x.sql_literal()).collect();
    format!("[{}{}]", s.join(", "), if v.len() > 12 { ", .." } else { "" })
}

// ---------------------------------------------------------------- outcome of one case

pub struct Finding {
    /// root-cause key: "<NodeType>: <which declared property>"
    pub key: String,
    pub what: String,
    pub node_path: Vec<usize>,
}

#[derive(Default)]
pub struct Outcome {
    pub evals: u64,
    pub findings: Vec<Finding>,
    /// keys of distinct non-trivial sub-cases (hashed together with the case identity)
    pub nontrivial: Vec<String>,
    pub counters: BTreeMap<String, u64>,
    pub sample: Option<Json>,
    /// free-text remarks for triage (printed under VERIF_DEBUG_FINDINGS)
    pub notes: Vec<(String, String)>,
}

impl Outcome {
    pub fn count(&mut self, k: &str, n: u64) {
        *self.counters.entry(k.to_string()).or_insert(0) += n;
    }
    pub fn finding_keyed(&mut self, key: &str, node: &NodeRef, what: String) {
        self.findings.push(Finding { key: key.to_string(), what: format!("node {:?} `{}`: {what}", node.path, one_line(node.plan.as_ref())), node_path: node.path.clone() });
    }
    pub fn finding(&mut self, node: &NodeRef, property: &str, what: String) {
        self.findings.push(Finding { key: format!("{}: {property}", node.name), what: format!("node {:?} `{}`: {what}", node.path, one_line(node.plan.as_ref())), node_path: node.path.clone() });
    }
}

pub type CheckFn = dyn Fn(&Case, &PlanRun, &mut Outcome) + Sync;

/// A property's oracle plus what it needs from the walker.
pub struct Checker<'a> {
    pub check: &'a CheckFn,
    /// the oracle relates nodes to each other (C53): a replay restricted to one
    /// node must still execute every node
    pub needs_all_nodes: bool,
}

/// Count the walker-level facts of a run (what ran, what was skipped and why).
fn count_walk(run: &PlanRun, out: &mut Outcome) {
    if run.replanned {
        out.count("plans_holding_dynamic_filters(every_execution_freshly_planned)", 1);
    }
    for n in &run.nodes {
        match &n.standalone {
            Standalone::Ran(o) => {
                out.count("nodes_executed_standalone", 1);
                if let Some(e) = &o.error {
                    out.notes.push(("standalone error".into(), format!("node {:?} {}: {}", n.node.path, n.node.name, e.lines().next().unwrap_or("").chars().take(200).collect::<String>())));
                    if e.starts_with("HARNESS-TIMEOUT") {
                        out.count("standalone_timeouts", 1);
                    } else if e.starts_with("panic:") {
                        out.count("standalone_panics", 1);
                    } else {
                        out.count("standalone_runs_ending_in_an_engine_error", 1);
                    }
                }
            }
            Standalone::Skipped(Skip::WorkTable) => out.count("nodes_skipped:reads_a_recursive_work_table", 1),
            Standalone::Skipped(Skip::CannotBuild(_)) => out.count("nodes_skipped:standalone_copy_could_not_be_built", 1),
        }
    }
}

pub fn run_case_in(sctx: &SessionContext, case: &Case, checker: &Checker) -> Result<Outcome, String> {
    let mut out = Outcome::default();
    let check = checker.check;
    let run = match walk(sctx, &case.sql, if checker.needs_all_nodes { None } else { case.node.as_deref() }) {
        Ok(r) => r,
        Err(e) => {
            out.count("queries_not_planned", 1);
            if e.starts_with("panic:") {
                out.count("planning_panics", 1);
            }
            return Ok(out);
        }
    };
    count_walk(&run, &mut out);
    check(case, &run, &mut out);
    attribute_to_lowest_node(&mut out);
    if let Some(k) = &case.expect_key {
        out.findings.retain(|f| &f.key == k);
    }
    if let Some(p) = &case.node {
        out.findings.retain(|f| &f.node_path == p);
    }
    Ok(out)
}

/// A wrong declaration is inherited by the ancestors of the node that introduced it.  To get
/// one report per root cause, a finding is dropped when a *descendant* node of the same plan has
/// a finding about the same kind of declaration (the text after "<NodeType>: " in the key).
fn attribute_to_lowest_node(out: &mut Outcome) {
    let kind = |k: &str| k.split_once(": ").map(|x| x.1.to_string()).unwrap_or_else(|| k.to_string());
    let all: Vec<(Vec<usize>, String)> = out.findings.iter().map(|f| (f.node_path.clone(), kind(&f.key))).collect();
    let before = out.findings.len();
    out.findings.retain(|f| {
        let k = kind(&f.key);
        !all.iter().any(|(p, k2)| *k2 == k && p.len() > f.node_path.len() && p[..f.node_path.len()] == f.node_path[..])
    });
    let dropped = (before - out.findings.len()) as u64;
    if dropped > 0 {
        out.count("findings_inherited_from_a_descendant(not_reported_separately)", dropped);
    }
}

pub fn run_case(case: &Case, check: &Checker) -> Result<Outcome, String> {
    let sctx = context_for(&case.db, &case.config)?;
    run_case_in(&sctx, case, check)
}

pub fn replay(v: &Json, check: &Checker) -> Result<(), String> {
    let c: Case = serde_json::from_value(v.clone()).map_err(|e| format!("bad case: {e}"))?;
    let out = run_case(&c, check)?;
    match out.findings.first() {
        None => Ok(()),
        Some(f) => Err(format!("[{}] {}", f.key, f.what)),
    }
}

// ---------------------------------------------------------------- exploration driver

pub struct ExploreOpts<'a> {
    pub configs: &'a [&'a str],
}

/// Enumerate configurations × rich databases × grammar queries (simplest
/// first), run `check` on every case, and report one violation per root-cause
/// key, witnessed by the smallest failing case.
pub fn explore(ctx: &Ctx, opts: &ExploreOpts, check: &Checker) {
    let tier = ctx.pick(Tier::Quick, Tier::Thorough);
    let qs: Vec<GenQuery> = grammar::queries(tier);
    let dbs = db::rich_databases();
    let mut per_family: BTreeMap<String, usize> = BTreeMap::new();
    for q in &qs {
        *per_family.entry(format!("F{:02}", q.family)).or_insert(0) += 1;
    }
    ctx.set_extra(
        "bounds",
        json!({
            "queries": qs.len(), "queries_per_family": per_family,
            "grammar": "sqlmc grammar G, families F1..F12, tier menus",
            "databases": dbs.iter().map(|(l, d)| json!({"label": l, "rows": d.show()})).collect::<Vec<_>>(),
            "configurations": opts.configs.iter().map(|c| json!({"name": c, "what": config_description(c)})).collect::<Vec<_>>(),
            "nodes": "every node of every physical plan, every output partition, executed standalone with fresh execution state",
            "quick_tier_restriction": "the parquet configuration (when in the menu) visits the rich databases number 1, 3, 5, 7, 9, 11 of the list only",
        }),
    );
    // work items: (config, database, chunk of queries)
    const CHUNK: usize = 24;
    let mut work: Vec<(usize, usize, usize)> = vec![];
    for ci in 0..opts.configs.len() {
        for di in 0..dbs.len() {
            // quick tier: the (costlier) Parquet configuration visits every other rich database
            if ctx.quick() && opts.configs[ci] == "parquet" && di % 2 == 1 {
                continue;
            }
            for ch in 0..qs.len().div_ceil(CHUNK) {
                work.push((ch, di, ci));
            }
        }
    }
    work.sort();
    if ctx.seed != 0 {
        let s = ctx.seed;
        work.sort_by_key(|w| mc_core::stable_hash(&(s, *w)));
    }
    // per root-cause key: (rank, what, case, number of failing (case, node) pairs)
    type Rank = (usize, usize, usize, usize, Vec<usize>);
    let fails: Mutex<BTreeMap<String, (Rank, String, Case, u64)>> = Mutex::new(BTreeMap::new());
    // VERIF_DEBUG_FINDINGS=1: print every finding and note (triage aid; does not change the verdict)
    let debug = std::env::var("VERIF_DEBUG_FINDINGS").is_ok();
    work.par_iter().for_each(|(ch, di, ci)| {
        if ctx.out_of_time() {
            return;
        }
        let (label, dbv) = &dbs[*di];
        let config = opts.configs[*ci];
        let sctx = match context_for(dbv, config) {
            Ok(c) => c,
            Err(e) => {
                ctx.machinery_error(format!("cannot build context {config}/{label}: {e}"));
                return;
            }
        };
        for qi in (*ch * CHUNK)..((*ch + 1) * CHUNK).min(qs.len()) {
            if ctx.out_of_time() {
                return;
            }
            let q = &qs[qi];
            let case = Case { id: q.id.clone(), sql: q.sql.clone(), db_label: label.clone(), db: dbv.clone(), config: config.to_string(), node: None, expect_key: None };
            let out = match run_case_in(&sctx, &case, check) {
                Ok(o) => o,
                Err(e) => {
                    ctx.machinery_error(format!("{e}"));
                    return;
                }
            };
            ctx.evals(out.evals);
            ctx.count("cases(query,database,configuration)", 1);
            for (k, n) in &out.counters {
                ctx.count(k, *n);
            }
            for k in &out.nontrivial {
                ctx.nontrivial(&(&q.sql, label, config, k));
            }
            if let Some(s) = out.sample {
                if ctx.want_sample() {
                    ctx.sample(s);
                }
            }
            if debug {
                for (k, v) in &out.notes {
                    eprintln!("NOTE [{k}] {} | {} | {} | {v}", q.sql, config, label);
                }
            }
            for f in out.findings {
                if debug {
                    eprintln!("FINDING [{}] {} | {} | {} | {}", f.key, q.sql, config, label, f.what);
                }
                let rank: Rank = (qi, dbv.total_rows(), *ci, *di, f.node_path.clone());
                let mut c = case.clone();
                c.node = Some(f.node_path.clone());
                c.expect_key = Some(f.key.clone());
                let what = format!("{} | config {} | db {} ({}) | {}", q.sql, config, label, dbv.show(), f.what);
                let mut m = fails.lock().unwrap();
                match m.get_mut(&f.key) {
                    Some(e) => {
                        e.3 += 1;
                        if rank < e.0 {
                            *e = (rank, what, c, e.3);
                        }
                    }
                    None => {
                        m.insert(f.key.clone(), (rank, what, c, 1));
                    }
                }
            }
        }
    });
    for (key, (_, what, case, n)) in fails.into_inner().unwrap() {
        ctx.count(&format!("failing(case,node)_pairs:{key}"), n);
        ctx.violation(key, format!("{what} [{n} failing (case, node) pair(s) with this root-cause key; this is the smallest]"), serde_json::to_value(&case).unwrap());
    }
}

// ---------------------------------------------------------------- debugging aid (not part of any check)

/// `--explain "<sql>" [--db <label>] [--config <name>]`: print the plan and the
/// standalone output of every node.
pub fn debug_main(args: &[String], checker: &Checker) -> bool {
    let check = checker.check;
    let Some(p) = args.iter().position(|a| a == "--explain") else { return false };
    let sql = args.get(p + 1).cloned().unwrap_or_default();
    let arg = |name: &str, d: &str| args.iter().position(|a| a == name).and_then(|i| args.get(i + 1)).cloned().unwrap_or(d.to_string());
    let label = arg("--db", "all_distinct");
    let config = arg("--config", "default");
    let dbv = db::rich_databases().into_iter().find(|(l, _)| *l == label).map(|x| x.1).unwrap_or_else(Database::empty);
    println!("db: {}", dbv.show());
    let case = Case { id: "debug".into(), sql: sql.clone(), db_label: label, db: dbv.clone(), config: config.clone(), node: None, expect_key: None };
    let sctx = context_for(&dbv, &config).unwrap();
    match walk(&sctx, &sql, None) {
        Err(e) => println!("not planned: {e}"),
        Ok(run) => {
            println!("{}", plan_text(run.physical.as_ref()));
            for n in &run.nodes {
                let props = n.node.plan.properties();
                println!("node {:?} {}", n.node.path, one_line(n.node.plan.as_ref()));
                println!("    partitioning {:?}", props.output_partitioning());
                println!("    eq {}", props.equivalence_properties());
                match &n.standalone {
                    Standalone::Skipped(s) => println!("    skipped: {s:?}"),
                    Standalone::Ran(o) => {
                        for (p, bs) in o.parts.iter().enumerate() {
                            let r = engine::batches_to_result(n.node.plan.schema().as_ref(), bs);
                            println!("    partition {p}: {} batch(es) {}", bs.len(), chk_sql::sqlmc::value::show_rows(&r.rows));
                        }
                        if let Some(e) = &o.error {
                            println!("    error: {e}");
                        }
                    }
                }
            }
            let mut out = Outcome::default();
            check(&case, &run, &mut out);
            for f in &out.findings {
                println!("FINDING [{}] {}", f.key, f.what);
            }
            println!("evals {} nontrivial {} counters {:?}", out.evals, out.nontrivial.len(), out.counters);
        }
    }
    true
}
