//! C30 — produced batches conform to the declared schema.
//!
//! Enumerated: grammar G × the 12 rich databases × the configuration menu of
//! the plan walker; for every physical plan, every node N, every output
//! partition of N executed standalone (see `walker`).
//!
//! Oracle (exactly the property's three data-level clauses):
//!  * every batch N emits has `N.schema()`'s column count,
//!  * column by column the array's data type (and the type recorded in the
//!    batch's own schema) is exactly the declared field type,
//!  * a column whose declared field is non-nullable holds no NULL;
//!  * the batches of the plan root — what `DataFrame::collect` returns — have,
//!    column by column, a type logically equivalent to the type in
//!    `LogicalPlan::schema()` of the DataFrame (dictionary / run-end encodings
//!    of the same value type and the three string / binary layouts count as
//!    equal, nested types are compared recursively).
//! The logical-equivalence relation is written here, not taken from DataFusion.
//!
//! Debug helper: `c30 --explain "<sql>" [--db <label>] [--config <name>]`.
#[path = "walker/mod.rs"]
mod walker;

use arrow::array::Array;
use arrow::datatypes::DataType;
use mc_core::serde_json::json;
use mc_core::{Ctx, Level, run_check};
use walker::{Case, Checker, ExploreOpts, Outcome, PlanRun};

/// Value type behind encodings.
fn strip(dt: &DataType) -> &DataType {
    match dt {
        DataType::Dictionary(_, v) => strip(v),
        DataType::RunEndEncoded(_, v) => strip(v.data_type()),
        other => other,
    }
}

/// Independent "logically equivalent" relation on Arrow types.
fn logically_equal(a: &DataType, b: &DataType) -> bool {
    use DataType::*;
    let (a, b) = (strip(a), strip(b));
    match (a, b) {
        (Utf8 | LargeUtf8 | Utf8View, Utf8 | LargeUtf8 | Utf8View) => true,
        (Binary | LargeBinary | BinaryView, Binary | LargeBinary | BinaryView) => true,
        (List(x) | LargeList(x) | ListView(x) | LargeListView(x), List(y) | LargeList(y) | ListView(y) | LargeListView(y)) => logically_equal(x.data_type(), y.data_type()),
        (FixedSizeList(x, n), FixedSizeList(y, m)) => n == m && logically_equal(x.data_type(), y.data_type()),
        (Struct(x), Struct(y)) => x.len() == y.len() && x.iter().zip(y.iter()).all(|(f, g)| f.name() == g.name() && logically_equal(f.data_type(), g.data_type())),
        (Map(x, _), Map(y, _)) => logically_equal(x.data_type(), y.data_type()),
        _ => a == b,
    }
}

/// Variant name of the first logical node below projections / sorts / limits /
/// aliases (the node that decides the output types) — discriminates root causes
/// of a DataFrame-level type mismatch.
fn logical_root_name(p: &datafusion::logical_expr::LogicalPlan) -> String {
    use datafusion::logical_expr::LogicalPlan as L;
    match p {
        L::Sort(_) | L::Limit(_) | L::SubqueryAlias(_) | L::Distinct(_) | L::Filter(_) => logical_root_name(p.inputs()[0]),
        other => format!("{}", other.display()).split([':', ' ']).next().unwrap_or("?").to_string(),
    }
}

fn check(case: &Case, run: &PlanRun, out: &mut Outcome) {
    let _ = case;
    for n in &run.nodes {
        let Some(o) = n.output() else { continue };
        out.evals += 1;
        let declared = n.node.plan.schema();
        let is_root = n.node.path.is_empty();
        let logical = run.logical.schema();
        let mut rows = 0usize;
        let mut reported: std::collections::BTreeSet<String> = Default::default();
        for (p, batches) in o.parts.iter().enumerate() {
            for (bi, b) in batches.iter().enumerate() {
                rows += b.num_rows();
                out.count("batches_checked", 1);
                if b.num_columns() != declared.fields().len() {
                    if reported.insert("count".into()) {
                        out.finding(&n.node, "batch column count differs from the declared schema", format!("partition {p} batch {bi} has {} column(s), declared schema has {}: {:?}", b.num_columns(), declared.fields().len(), declared));
                    }
                    continue;
                }
                for (ci, f) in declared.fields().iter().enumerate() {
                    let col = b.column(ci);
                    let in_batch_schema = b.schema_ref().field(ci).data_type().clone();
                    if col.data_type() != f.data_type() || &in_batch_schema != f.data_type() {
                        // (a column of the wrong type is reported once, as a type mismatch; its NULLs are not a second root cause)
                        if reported.insert(format!("type{ci}")) {
                            out.finding(
                                &n.node,
                                "batch column data type differs from the declared schema",
                                format!("partition {p} batch {bi} column {ci} `{}`: array type {}, batch schema type {}, declared {}", f.name(), col.data_type(), in_batch_schema, f.data_type()),
                            );
                        }
                    } else if !f.is_nullable() {
                        if b.num_rows() > 0 {
                            out.count("non_nullable_columns_checked_on_non_empty_batches", 1);
                        }
                        let nulls = col.logical_null_count();
                        if nulls > 0 && reported.insert(format!("null{ci}")) {
                            out.finding(
                                &n.node,
                                "NULL in a column declared non-nullable",
                                format!("partition {p} batch {bi} column {ci} `{}` ({}) declared non-nullable holds {nulls} NULL(s) in {} row(s)", f.name(), f.data_type(), b.num_rows()),
                            );
                        }
                    }
                }
                if is_root {
                    // the collected DataFrame vs LogicalPlan::schema()
                    out.count("root_batches_compared_with_logical_schema", 1);
                    let lf = logical.fields();
                    if lf.len() != b.num_columns() {
                        if reported.insert("lcount".into()) {
                            out.finding_keyed("DataFrame: collected result column count differs from LogicalPlan::schema()", &n.node, format!("result has {} column(s), logical schema {}", b.num_columns(), lf.len()));
                        }
                    } else {
                        for (ci, f) in lf.iter().enumerate() {
                            if !logically_equal(f.data_type(), b.column(ci).data_type()) && reported.insert(format!("ltype{ci}")) {
                                out.finding_keyed(
                                    &format!("DataFrame: collected result type not logically equivalent to LogicalPlan::schema() [logical plan root {}]", logical_root_name(&run.logical)),
                                    &n.node,
                                    format!("column {ci} `{}`: collected {}, DataFrame::schema() / LogicalPlan::schema() says {}", f.name(), b.column(ci).data_type(), f.data_type()),
                                );
                            }
                        }
                    }
                }
            }
        }
        out.count(&format!("node_runs:{}", n.node.name), 1);
        if rows > 0 {
            out.nontrivial.push(format!("{:?}", n.node.path));
            out.count(&format!("node_runs_with_rows:{}", n.node.name), 1);
            if declared.fields().iter().any(|f| !f.is_nullable()) {
                out.count("node_runs_with_rows_and_a_non_nullable_field", 1);
            }
            if out.sample.is_none() && declared.fields().iter().any(|f| !f.is_nullable()) && n.node.path.len() >= 2 {
                out.sample = Some(json!({
                    "sql": case.sql, "db": case.db_label, "config": case.config, "node": n.node.path, "node_text": walker::one_line(n.node.plan.as_ref()),
                    "declared_schema": declared.fields().iter().map(|f| format!("{}:{}{}", f.name(), f.data_type(), if f.is_nullable() { "?" } else { "" })).collect::<Vec<_>>(),
                    "partitions": o.parts.len(), "batches": o.parts.iter().map(|p| p.len()).sum::<usize>(), "rows": rows,
                }));
            }
        }
    }
}

const CHECKER: Checker = Checker { check: &check, needs_all_nodes: false };

fn explore(ctx: &Ctx) {
    let configs: Vec<&str> = ctx.pick(vec!["default", "tp3", "smj_bs2"], walker::ALL_CONFIGS.to_vec());
    walker::explore(ctx, &ExploreOpts { configs: &configs }, &CHECKER);
}

fn main() {
    if walker::debug_main(&mc_core::extra_args(), &CHECKER) {
        return;
    }
    mc_core::quiet_panics();
    run_check(
        "C30",
        Level::Exploration,
        "every query of grammar G (tier menus) x the 12 rich databases x the configuration menu (quick: default, target_partitions=3 over 2-partition tables, \
         sort-merge join + batch_size 2; thorough adds declared-sorted MemTables and sorted Parquet files): the physical plan is built as the engine would, and every node is executed standalone \
         (fresh execution state and TaskContext, all output partitions); every emitted batch is compared with the node's declared schema (column count, exact data type \
         of the array and of the batch schema, no NULL under a non-nullable field) and the root's batches with LogicalPlan::schema() under an independent logical-type \
         equivalence; evaluations = standalone node executions; non-trivial = distinct (query, database, configuration, node) whose execution emitted at least one row",
        explore,
        |v| walker::replay(v, &CHECKER),
    );
}
