//! C28 — declared output orderings, equivalences, constants and hash
//! partitionings hold on the data.
//!
//! Enumerated: grammar G × the 12 rich databases × the walker's configuration
//! menu (including tables with a *declared* sort order); every node N of every
//! physical plan executed standalone, all output partitions.
//!
//! Oracle, per node with a complete standalone output, reading the declarations
//! from the node as the engine built it (`N.properties()`):
//!  * every ordering in `equivalence_properties().oeq_class()`: inside each
//!    output partition, consecutive rows are in non-descending order of the
//!    lexicographic key, each key evaluated with the real `PhysicalExpr` on the
//!    node's own output, compared by an independent comparator honouring
//!    `SortOptions` (NULL placement absolute, `descending` reverses non-NULLs);
//!  * every equivalence class of `eq_group()` with ≥ 2 members: on every row all
//!    members evaluate to the same value (NULL = NULL);
//!  * every declared constant (`constants()`): a single value inside each
//!    partition; `Uniform` ⇒ the same value in all partitions; `Uniform(Some(v))`
//!    ⇒ that value is `v`;
//!  * `Partitioning::Hash(exprs, n)`: a key value never occurs in two partitions.
//! Nothing is demanded across partitions for orderings, nothing for
//! `UnknownPartitioning` / `RoundRobinBatch`, and a comparison the oracle cannot
//! decide (lists, exotic types, an expression that fails to evaluate) is
//! counted, never reported.
//!
//! Debug helper: `c28 --explain "<sql>" [--db <label>] [--config <name>]`.
#[path = "walker/mod.rs"]
mod walker;

use chk_sql::sqlmc::engine;
use chk_sql::sqlmc::value::Value;
use datafusion::physical_expr::equivalence::AcrossPartitions;
use datafusion::physical_expr::expressions::Literal;
use datafusion::physical_plan::Partitioning;
use mc_core::serde_json::json;
use mc_core::{Ctx, Level, run_check};
use std::cmp::Ordering;
use std::collections::BTreeMap;
use walker::{Case, Checker, ExploreOpts, Outcome, PlanRun, cmp_sort, eval_on, same_value, show_values};

/// Exact-identity text of a key cell; `None` for cells whose identity the oracle does not know.
fn key_text(v: &Value) -> Option<String> {
    Some(match v {
        Value::Null => "N".into(),
        Value::Bool(b) => format!("b{b}"),
        Value::Int(i) => format!("i{i}"),
        Value::Float(f) => format!("f{:016x}", f.to_bits()),
        Value::Text(s) => format!("t{s:?}"),
        _ => return None,
    })
}

fn check(case: &Case, run: &PlanRun, out: &mut Outcome) {
    for n in &run.nodes {
        let Some(o) = n.output() else { continue };
        if !o.complete() {
            continue;
        }
        out.evals += 1;
        let props = n.node.plan.properties();
        let eq = props.equivalence_properties();
        let name = &n.node.name;
        let mut declared_something = false;

        // ---- orderings
        for (oi, ordering) in eq.oeq_class().iter().enumerate() {
            declared_something = true;
            out.count("declared_orderings", 1);
            let mut nontrivial = false;
            'parts: for (p, batches) in o.parts.iter().enumerate() {
                let mut keys: Vec<Vec<Value>> = vec![];
                for se in ordering.iter() {
                    match eval_on(&se.expr, batches) {
                        Ok(v) => keys.push(v),
                        Err(e) => {
                            out.count("undecided:ordering_key_failed_to_evaluate", 1);
                            out.notes.push(("ordering key failed to evaluate".into(), format!("{} on node {:?} {name}: {e}", se.expr, n.node.path)));
                            continue 'parts;
                        }
                    }
                }
                let rows = keys.first().map(|k| k.len()).unwrap_or(0);
                for r in 1..rows {
                    let mut verdict = Some(Ordering::Equal);
                    for (k, se) in ordering.iter().enumerate() {
                        match cmp_sort(&keys[k][r - 1], &keys[k][r], se.options.descending, se.options.nulls_first) {
                            Some(Ordering::Equal) => continue,
                            other => {
                                verdict = other;
                                break;
                            }
                        }
                    }
                    match verdict {
                        None => {
                            out.count("undecided:ordering_key_of_a_type_without_known_order", 1);
                            continue 'parts;
                        }
                        Some(Ordering::Greater) => {
                            let show = |r: usize| show_values(&keys.iter().map(|k| k[r].clone()).collect::<Vec<_>>());
                            out.finding(
                                &n.node,
                                "declared output ordering violated by the data",
                                format!("declares ordering [{ordering}] but in partition {p} row {} has key {} and row {r} has key {}", r - 1, show(r - 1), show(r)),
                            );
                            continue 'parts;
                        }
                        Some(Ordering::Less) => nontrivial = true,
                        Some(Ordering::Equal) => {}
                    }
                }
            }
            if nontrivial {
                out.nontrivial.push(format!("{:?}/ord{oi}", n.node.path));
                out.count(&format!("nontrivial_ordering:{name}"), 1);
                if out.sample.is_none() && n.node.path.len() >= 1 && ordering.len() >= 2 {
                    out.sample = Some(json!({
                        "sql": case.sql, "db": case.db_label, "config": case.config, "node": n.node.path, "node_text": walker::one_line(n.node.plan.as_ref()),
                        "declared_ordering": format!("{ordering}"),
                        "partitions": o.parts.iter().map(|b| chk_sql::sqlmc::value::show_rows(&engine::batches_to_result(n.node.plan.schema().as_ref(), b).rows)).collect::<Vec<_>>(),
                    }));
                }
            }
        }

        // ---- equivalence classes
        for (ci, class) in eq.eq_group().iter().enumerate() {
            // a literal member is what makes the class a declared constant: "member = literal" is
            // demanded once, by the constant clause below (Uniform(Some(value)))
            let members: Vec<_> = class.iter().filter(|e| e.downcast_ref::<Literal>().is_none()).cloned().collect();
            if members.len() < 2 {
                continue;
            }
            declared_something = true;
            out.count("declared_equivalence_classes", 1);
            let mut seen_rows = false;
            'parts_eq: for (p, batches) in o.parts.iter().enumerate() {
                let mut vals: Vec<Vec<Value>> = vec![];
                for e in members.iter() {
                    match eval_on(e, batches) {
                        Ok(v) => vals.push(v),
                        Err(err) => {
                            out.count("undecided:equivalence_member_failed_to_evaluate", 1);
                            out.notes.push(("equivalence member failed to evaluate".into(), format!("{e} on node {:?} {name}: {err}", n.node.path)));
                            continue 'parts_eq;
                        }
                    }
                }
                for r in 0..vals[0].len() {
                    seen_rows = true;
                    for m in 1..vals.len() {
                        match same_value(&vals[0][r], &vals[m][r]) {
                            Some(true) => {}
                            None => {
                                out.count("undecided:equivalence_member_of_a_type_without_known_equality", 1);
                                continue 'parts_eq;
                            }
                            Some(false) => {
                                out.finding(
                                    &n.node,
                                    "declared equivalence class violated by the data",
                                    format!("declares {class} but in partition {p} row {r} the members evaluate to {}", show_values(&vals.iter().map(|v| v[r].clone()).collect::<Vec<_>>())),
                                );
                                continue 'parts_eq;
                            }
                        }
                    }
                }
            }
            if seen_rows {
                out.nontrivial.push(format!("{:?}/eq{ci}", n.node.path));
                out.count(&format!("nontrivial_equivalence:{name}"), 1);
            }
        }

        // ---- constants
        for (ki, c) in eq.constants().iter().enumerate() {
            declared_something = true;
            out.count("declared_constants", 1);
            let is_literal = c.expr.downcast_ref::<Literal>().is_some();
            let mut per_part: Vec<Option<Value>> = vec![];
            let mut decided = true;
            let mut rows_seen = 0usize;
            for (p, batches) in o.parts.iter().enumerate() {
                let vals = match eval_on(&c.expr, batches) {
                    Ok(v) => v,
                    Err(err) => {
                        out.count("undecided:constant_failed_to_evaluate", 1);
                        out.notes.push(("constant failed to evaluate".into(), format!("{} on node {:?} {name}: {err}", c.expr, n.node.path)));
                        decided = false;
                        break;
                    }
                };
                rows_seen += vals.len();
                let mut first: Option<Value> = None;
                for (r, v) in vals.iter().enumerate() {
                    match &first {
                        None => first = Some(v.clone()),
                        Some(f) => match same_value(f, v) {
                            Some(true) => {}
                            None => {
                                out.count("undecided:constant_of_a_type_without_known_equality", 1);
                                decided = false;
                            }
                            Some(false) => {
                                out.finding(&n.node, "declared constant violated by the data", format!("declares {c} constant but partition {p} holds {} and (row {r}) {}", f.sql_literal(), v.sql_literal()));
                                decided = false;
                            }
                        },
                    }
                    if !decided {
                        break;
                    }
                }
                if !decided {
                    break;
                }
                per_part.push(first);
            }
            if !decided {
                continue;
            }
            if let AcrossPartitions::Uniform(declared_value) = &c.across_partitions {
                let present: Vec<(usize, &Value)> = per_part.iter().enumerate().filter_map(|(p, v)| v.as_ref().map(|v| (p, v))).collect();
                for w in present.windows(2) {
                    if same_value(w[0].1, w[1].1) == Some(false) {
                        out.finding(
                            &n.node,
                            "declared constant violated by the data",
                            format!("declares {c} uniform across partitions but partition {} holds {} and partition {} holds {}", w[0].0, w[0].1.sql_literal(), w[1].0, w[1].1.sql_literal()),
                        );
                        break;
                    }
                }
                if let Some(sv) = declared_value {
                    if let Ok(arr) = sv.to_array_of_size(1) {
                        let dv = engine::array_to_values(&arr).into_iter().next().unwrap_or(Value::Null);
                        if let Some((p, v)) = present.first() {
                            if same_value(&dv, v) == Some(false) {
                                out.finding(&n.node, "declared constant violated by the data", format!("declares {c} but partition {p} holds {}", v.sql_literal()));
                            }
                        }
                    }
                }
            }
            if !is_literal && rows_seen >= 2 {
                out.nontrivial.push(format!("{:?}/const{ki}", n.node.path));
                out.count(&format!("nontrivial_constant:{name}"), 1);
            }
        }

        // ---- hash partitioning
        match props.output_partitioning() {
            Partitioning::Hash(exprs, np) => {
                declared_something = true;
                out.count("declared_hash_partitionings", 1);
                if *np != o.parts.len() {
                    out.finding(&n.node, "declared hash partitioning violated by the data", format!("declares {np} partitions, executed {}", o.parts.len()));
                }
                // key text -> (partition, rows)
                let mut where_: BTreeMap<String, (usize, usize)> = BTreeMap::new();
                let mut decided = true;
                'parts_h: for (p, batches) in o.parts.iter().enumerate() {
                    let mut cols: Vec<Vec<Value>> = vec![];
                    for e in exprs {
                        match eval_on(e, batches) {
                            Ok(v) => cols.push(v),
                            Err(err) => {
                                out.count("undecided:hash_key_failed_to_evaluate", 1);
                                out.notes.push(("hash key failed to evaluate".into(), format!("{e} on node {:?} {name}: {err}", n.node.path)));
                                decided = false;
                                break 'parts_h;
                            }
                        }
                    }
                    let rows: usize = batches.iter().map(|b| b.num_rows()).sum();
                    for r in 0..rows {
                        let mut k = String::new();
                        for c in &cols {
                            match key_text(&c[r]) {
                                Some(t) => {
                                    k.push_str(&t);
                                    k.push('|');
                                }
                                None => {
                                    out.count("undecided:hash_key_of_a_type_without_known_identity", 1);
                                    decided = false;
                                    break 'parts_h;
                                }
                            }
                        }
                        match where_.get_mut(&k) {
                            None => {
                                where_.insert(k, (p, 1));
                            }
                            Some((q, cnt)) => {
                                if *q != p {
                                    out.finding(
                                        &n.node,
                                        "declared hash partitioning violated by the data",
                                        format!("declares {} but key {} occurs in partition {q} and in partition {p}", props.output_partitioning(), show_values(&cols.iter().map(|c| c[r].clone()).collect::<Vec<_>>())),
                                    );
                                    decided = false;
                                    break 'parts_h;
                                }
                                *cnt += 1;
                            }
                        }
                    }
                }
                if decided && *np >= 2 && where_.values().any(|(_, c)| *c >= 2) {
                    out.nontrivial.push(format!("{:?}/hash", n.node.path));
                    out.count(&format!("nontrivial_hash_partitioning:{name}"), 1);
                }
                if decided && where_.values().map(|(p, _)| *p).collect::<std::collections::BTreeSet<_>>().len() >= 2 {
                    out.count("hash_partitioned_outputs_with_rows_in_two_or_more_partitions", 1);
                }
            }
            Partitioning::Range(_) => out.count("declared_range_partitionings(not_checked)", 1),
            _ => {}
        }
        if declared_something {
            out.count(&format!("node_runs_with_a_declaration:{name}"), 1);
        } else {
            out.count("node_runs_declaring_nothing", 1);
        }
    }
}

const CHECKER: Checker = Checker { check: &check, needs_all_nodes: false };

fn explore(ctx: &Ctx) {
    let configs: Vec<&str> = walker::ALL_CONFIGS.to_vec();
    walker::explore(ctx, &ExploreOpts { configs: &configs }, &CHECKER);
}

fn main() {
    if walker::debug_main(&mc_core::extra_args(), &CHECKER) {
        return;
    }
    mc_core::quiet_panics();
    run_check(
        "C28",
        Level::Exploration,
        "every query of grammar G (tier menus) x the 12 rich databases x 5 configurations (default; target_partitions=3 over 2-partition tables; sort-merge join + batch_size 2; \
         MemTables with a declared sort order; sorted Parquet files with a declared file sort order): every node of the physical plan executed standalone (all partitions, fresh state) and its output compared with what the node declares: \
         every ordering of oeq_class() per partition (keys evaluated with the real PhysicalExpr, independent SortOptions comparator), every equivalence class row by row, every constant \
         (per partition / across partitions / declared value), Hash partitioning (no key in two partitions); evaluations = node executions with a complete output; \
         non-trivial = distinct (query, database, configuration, node, declaration) where the declaration is not satisfied vacuously: an ordering with at least one strictly increasing \
         adjacent pair, an equivalence class of >= 2 members over >= 1 row, a non-literal constant over >= 2 rows, a hash partitioning over >= 2 partitions with a key shared by >= 2 rows",
        explore,
        |v| walker::replay(v, &CHECKER),
    );
}
