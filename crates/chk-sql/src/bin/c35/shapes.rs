//! Enumerations for the expression / scalar part of C35:
//! * [`scalars`]: every `ScalarValue` variant with NULL, boundary and ordinary payloads,
//! * [`exprs`]: every logical `Expr` variant the encoder accepts, over small menus
//!   (every binary operator, every registered scalar / aggregate / window function,
//!   every window frame shape, every nesting shape of a same-operator chain, ...).
//! Both lists are deterministic; a case is identified by its label.
use arrow::array::*;
use arrow::buffer::{OffsetBuffer, ScalarBuffer};
use arrow::datatypes::*;
use datafusion::common::{Column, ScalarValue, TableReference};
use datafusion::logical_expr::expr::{
    AggregateFunction, Alias, Between, BinaryExpr, Case, Cast, FieldMetadata, GroupingSet, InList, Lambda, LambdaVariable, Like, NullTreatment,
    Placeholder, ScalarFunction, Sort, TryCast, Unnest, WindowFunction, WindowFunctionDefinition,
};
use datafusion::logical_expr::{Expr, ExprFunctionExt, Operator, WindowFrame, WindowFrameBound, WindowFrameUnits, col, lit};
use datafusion::prelude::SessionContext;
use std::collections::BTreeMap;
use std::sync::Arc;

fn one(a: &dyn Array) -> ScalarValue {
    ScalarValue::try_from_array(a, 0).expect("scalar from array")
}

/// Every ScalarValue variant × {NULL, boundary values, ordinary values}.
pub fn scalars() -> Vec<(String, ScalarValue)> {
    use ScalarValue as S;
    let mut v: Vec<ScalarValue> = vec![S::Null];
    v.extend([S::Boolean(None), S::Boolean(Some(true)), S::Boolean(Some(false))]);
    for f in [None, Some(0.0f32), Some(-0.0), Some(1.5), Some(f32::NAN), Some(f32::INFINITY), Some(f32::NEG_INFINITY), Some(f32::MIN_POSITIVE / 2.0), Some(f32::MAX)] {
        v.push(S::Float32(f));
        v.push(S::Float16(f.map(half::f16::from_f32)));
        v.push(S::Float64(f.map(|x| x as f64)));
    }
    v.push(S::Float64(Some(f64::MAX)));
    v.push(S::Float64(Some(f64::MIN_POSITIVE / 2.0)));
    v.push(S::Float64(Some(0.1)));
    macro_rules! ints {
        ($var:ident, $t:ty) => {
            for x in [None, Some(0 as $t), Some(1 as $t), Some(<$t>::MIN), Some(<$t>::MAX)] {
                v.push(S::$var(x));
            }
        };
    }
    ints!(Int8, i8);
    ints!(Int16, i16);
    ints!(Int32, i32);
    ints!(Int64, i64);
    ints!(UInt8, u8);
    ints!(UInt16, u16);
    ints!(UInt32, u32);
    ints!(UInt64, u64);
    for (p, s) in [(9u8, 2i8), (5, 0), (9, -2)] {
        for x in [None, Some(0i32), Some(-12345), Some(999_999_999), Some(-999_999_999)] {
            v.push(S::Decimal32(x, p, s));
        }
    }
    for (p, s) in [(18u8, 4i8), (10, 0)] {
        for x in [None, Some(0i64), Some(-12345), Some(999_999_999_999_999_999)] {
            v.push(S::Decimal64(x, p, s));
        }
    }
    for (p, s) in [(38u8, 10i8), (10, 2), (20, -3)] {
        for x in [None, Some(0i128), Some(-12345), Some(i128::MAX), Some(i128::MIN), Some(10i128.pow(37))] {
            v.push(S::Decimal128(x, p, s));
        }
    }
    for (p, s) in [(76u8, 10i8), (40, 0)] {
        for x in [None, Some(i256::ZERO), Some(i256::from_i128(-12345)), Some(i256::MAX), Some(i256::MIN), Some(i256::from_parts(7, 3))] {
            v.push(S::Decimal256(x, p, s));
        }
    }
    let long = "a fairly long string beyond twelve bytes \u{e9}\u{4e16}";
    for s in [None, Some(""), Some("a"), Some("ab\u{e9}\0c"), Some("it's \"q\""), Some(long)] {
        v.push(S::Utf8(s.map(String::from)));
        v.push(S::Utf8View(s.map(String::from)));
        v.push(S::LargeUtf8(s.map(String::from)));
    }
    for b in [None, Some(vec![]), Some(vec![0u8]), Some(vec![0xff, 0x00, 0x7f]), Some((0u8..40).collect::<Vec<_>>())] {
        v.push(S::Binary(b.clone()));
        v.push(S::BinaryView(b.clone()));
        v.push(S::LargeBinary(b.clone()));
    }
    v.push(S::FixedSizeBinary(3, None));
    v.push(S::FixedSizeBinary(3, Some(vec![1, 2, 3])));
    v.push(S::FixedSizeBinary(0, Some(vec![])));
    for x in [None, Some(0i32), Some(-1), Some(19_000), Some(i32::MAX), Some(i32::MIN)] {
        v.push(S::Date32(x));
        v.push(S::IntervalYearMonth(x));
    }
    for x in [None, Some(0i32), Some(86_399)] {
        v.push(S::Time32Second(x));
        v.push(S::Time32Millisecond(x.map(|y| y * 1000)));
    }
    for x in [None, Some(0i64), Some(-1), Some(1_700_000_000_000), Some(i64::MAX), Some(i64::MIN)] {
        // Display of Date64(i64::MIN) panics in datafusion-common (Duration::try_milliseconds(..).unwrap());
        // that is outside this property: use the nearest printable value
        v.push(S::Date64(x.map(|y: i64| y.max(-i64::MAX))));
        v.push(S::DurationSecond(x));
        v.push(S::DurationMillisecond(x));
        v.push(S::DurationMicrosecond(x));
        v.push(S::DurationNanosecond(x));
        for tz in [None, Some("UTC"), Some("+01:00"), Some("Europe/Paris")] {
            let tz: Option<Arc<str>> = tz.map(Arc::from);
            v.push(S::TimestampSecond(x, tz.clone()));
            v.push(S::TimestampMillisecond(x, tz.clone()));
            v.push(S::TimestampMicrosecond(x, tz.clone()));
            v.push(S::TimestampNanosecond(x, tz.clone()));
        }
    }
    for x in [None, Some(0i64), Some(86_399_999_999)] {
        v.push(S::Time64Microsecond(x));
        v.push(S::Time64Nanosecond(x.map(|y| y * 1000)));
    }
    for x in [None, Some(IntervalDayTime::new(0, 0)), Some(IntervalDayTime::new(-3, 7)), Some(IntervalDayTime::new(i32::MAX, i32::MIN))] {
        v.push(S::IntervalDayTime(x));
    }
    for x in [None, Some(IntervalMonthDayNano::new(0, 0, 0)), Some(IntervalMonthDayNano::new(-1, 2, -3)), Some(IntervalMonthDayNano::new(i32::MAX, i32::MIN, i64::MAX))] {
        v.push(S::IntervalMonthDayNano(x));
    }
    // ---- nested: built as one-element arrays
    let int_list = |rows: Vec<Option<Vec<Option<i32>>>>| ListArray::from_iter_primitive::<Int32Type, _, _>(rows);
    let l_some = int_list(vec![Some(vec![Some(1), None, Some(3)])]);
    let l_empty = int_list(vec![Some(vec![])]);
    let l_null = int_list(vec![None]);
    for l in [&l_some, &l_empty, &l_null] {
        v.push(one(l));
        let item = Arc::new(Field::new("item", DataType::Int32, true));
        for dt in [DataType::LargeList(item.clone()), DataType::ListView(item.clone()), DataType::LargeListView(item.clone())] {
            if let Ok(c) = arrow::compute::cast(l, &dt) {
                v.push(one(&c));
            }
        }
    }
    // list with a non-default element field name and non-nullable items
    {
        let f = Arc::new(Field::new("element", DataType::Int64, false));
        let l = ListArray::new(f, OffsetBuffer::from_lengths([2]), Arc::new(Int64Array::from(vec![5, 6])), None);
        v.push(one(&l));
    }
    // list of strings (each string flavour), list of lists
    for dt in [DataType::Utf8, DataType::Utf8View, DataType::LargeUtf8] {
        let vals = arrow::compute::cast(&StringArray::from(vec![Some("x"), None, Some(long)]), &dt).unwrap();
        let l = ListArray::new(Arc::new(Field::new("item", dt, true)), OffsetBuffer::from_lengths([3]), vals, None);
        v.push(one(&l));
    }
    {
        let inner = int_list(vec![Some(vec![Some(1)]), None, Some(vec![])]);
        let l = ListArray::new(Arc::new(Field::new("item", inner.data_type().clone(), true)), OffsetBuffer::from_lengths([3]), Arc::new(inner), None);
        v.push(one(&l));
    }
    {
        let f = Arc::new(Field::new("item", DataType::Int32, true));
        let fsl = FixedSizeListArray::new(f.clone(), 2, Arc::new(Int32Array::from(vec![Some(1), None])), None);
        v.push(one(&fsl));
        let fsl_null = FixedSizeListArray::new(f, 2, Arc::new(Int32Array::from(vec![None, None])), Some(vec![false].into()));
        v.push(one(&fsl_null));
    }
    {
        let fields: Fields = vec![Field::new("a", DataType::Int32, true), Field::new("b", DataType::Utf8, true), Field::new("c", DataType::Boolean, false)].into();
        let st = StructArray::new(
            fields.clone(),
            vec![Arc::new(Int32Array::from(vec![Some(7)])), Arc::new(StringArray::from(vec![None::<&str>])), Arc::new(BooleanArray::from(vec![true]))],
            None,
        );
        v.push(one(&st));
        let st_null = StructArray::new_null(fields, 1);
        v.push(one(&st_null));
        let empty_struct = StructArray::new_empty_fields(1, None);
        v.push(one(&empty_struct));
    }
    {
        let mut mb = arrow::array::MapBuilder::new(None, StringBuilder::new(), Int32Builder::new());
        mb.keys().append_value("k1");
        mb.values().append_value(1);
        mb.keys().append_value("k2");
        mb.values().append_null();
        mb.append(true).unwrap();
        let m = mb.finish();
        v.push(one(&m));
        let mut mb = arrow::array::MapBuilder::new(None, StringBuilder::new(), Int32Builder::new());
        mb.append(false).unwrap();
        v.push(one(&mb.finish()));
    }
    // union (sparse and dense), with a value and NULL
    {
        let fields = UnionFields::try_new(vec![3, 5], vec![Field::new("i", DataType::Int32, true), Field::new("s", DataType::Utf8, true)]).unwrap();
        for mode in [UnionMode::Sparse, UnionMode::Dense] {
            v.push(S::Union(Some((3, Box::new(S::Int32(Some(4))))), fields.clone(), mode));
            v.push(S::Union(Some((5, Box::new(S::Utf8(Some("u".into()))))), fields.clone(), mode));
            v.push(S::Union(Some((5, Box::new(S::Utf8(None)))), fields.clone(), mode));
            v.push(S::Union(None, fields.clone(), mode));
        }
    }
    // dictionary: key types × value kinds
    for k in [DataType::Int8, DataType::Int16, DataType::Int32, DataType::Int64, DataType::UInt8, DataType::UInt16, DataType::UInt32, DataType::UInt64] {
        v.push(S::Dictionary(Box::new(k.clone()), Box::new(S::Utf8(Some("d".into())))));
        v.push(S::Dictionary(Box::new(k.clone()), Box::new(S::Utf8(None))));
    }
    v.push(S::Dictionary(Box::new(DataType::Int32), Box::new(S::Int64(Some(9)))));
    v.push(S::Dictionary(Box::new(DataType::Int32), Box::new(S::Utf8View(Some(long.into())))));
    v.push(S::Dictionary(Box::new(DataType::Int32), Box::new(one(&l_some))));
    // run-end encoded
    for re in [DataType::Int16, DataType::Int32, DataType::Int64] {
        let ref_field = Arc::new(Field::new("run_ends", re, false));
        for val in [S::Utf8(Some("r".into())), S::Utf8(None), S::Int32(Some(3))] {
            let vf = Arc::new(Field::new("values", val.data_type(), true));
            v.push(S::RunEndEncoded(ref_field.clone(), vf, Box::new(val)));
        }
    }
    let _ = ScalarBuffer::<i32>::from(vec![0]); // keep the import used on every arrow version
    v.into_iter()
        .enumerate()
        .map(|(i, s)| {
            let text = mc_core::catch(|| format!("{s:?}")).unwrap_or_else(|_| "<Debug panics>".into());
            (format!("S{i:03} {} {}", s.data_type(), short(&text, 60)), s)
        })
        .collect()
}

pub fn short(s: &str, n: usize) -> String {
    let s: String = s.chars().map(|c| if c == '\n' { ' ' } else { c }).collect();
    if s.chars().count() <= n { s } else { format!("{}…", s.chars().take(n).collect::<String>()) }
}

pub const ALL_OPERATORS: [Operator; 42] = [
    Operator::Eq,
    Operator::NotEq,
    Operator::Lt,
    Operator::LtEq,
    Operator::Gt,
    Operator::GtEq,
    Operator::Plus,
    Operator::Minus,
    Operator::Multiply,
    Operator::Divide,
    Operator::Modulo,
    Operator::And,
    Operator::Or,
    Operator::IsDistinctFrom,
    Operator::IsNotDistinctFrom,
    Operator::RegexMatch,
    Operator::RegexIMatch,
    Operator::RegexNotMatch,
    Operator::RegexNotIMatch,
    Operator::LikeMatch,
    Operator::ILikeMatch,
    Operator::NotLikeMatch,
    Operator::NotILikeMatch,
    Operator::BitwiseAnd,
    Operator::BitwiseOr,
    Operator::BitwiseXor,
    Operator::BitwiseShiftRight,
    Operator::BitwiseShiftLeft,
    Operator::StringConcat,
    Operator::AtArrow,
    Operator::ArrowAt,
    Operator::Arrow,
    Operator::LongArrow,
    Operator::HashArrow,
    Operator::HashLongArrow,
    Operator::AtAt,
    Operator::IntegerDivide,
    Operator::HashMinus,
    Operator::AtQuestion,
    Operator::Question,
    Operator::QuestionAnd,
    Operator::QuestionPipe,
];

fn bin(l: Expr, op: Operator, r: Expr) -> Expr {
    Expr::BinaryExpr(BinaryExpr::new(Box::new(l), op, Box::new(r)))
}

fn meta(pairs: &[(&str, &str)]) -> FieldMetadata {
    FieldMetadata::new(pairs.iter().map(|(k, v)| (k.to_string(), v.to_string())).collect::<BTreeMap<_, _>>())
}

/// Every window frame the SQL grammar can express over the bound menu
/// {UNBOUNDED, 1, CURRENT ROW}: units × start × end, keeping only start <= end shapes.
pub fn frames() -> Vec<WindowFrame> {
    use WindowFrameBound::*;
    let n = |units: WindowFrameUnits, k: Option<u64>| match units {
        // RANGE offsets are typed like the ORDER BY column after planning; use Int64 there
        WindowFrameUnits::Range => k.map(|x| ScalarValue::Int64(Some(x as i64))).unwrap_or(ScalarValue::Null),
        _ => ScalarValue::UInt64(k),
    };
    let mut out = vec![];
    for units in [WindowFrameUnits::Rows, WindowFrameUnits::Range, WindowFrameUnits::Groups] {
        let unb = || if matches!(units, WindowFrameUnits::Range) { ScalarValue::Null } else { ScalarValue::UInt64(None) };
        let starts = vec![Preceding(unb()), Preceding(n(units, Some(1))), CurrentRow, Following(n(units, Some(1)))];
        let ends = vec![Preceding(n(units, Some(1))), CurrentRow, Following(n(units, Some(1))), Following(unb())];
        for (si, s) in starts.iter().enumerate() {
            for (ei, e) in ends.iter().enumerate() {
                // start rank: 0 unb-prec, 1 prec, 2 cur, 3 foll ; end rank: 1 prec, 2 cur, 3 foll, 4 unb-foll
                if si <= ei + 1 {
                    out.push(WindowFrame::new_bounds(units, s.clone(), e.clone()));
                }
            }
        }
    }
    out.push(WindowFrame::new(None));
    out.push(WindowFrame::new(Some(true)));
    out.push(WindowFrame::new(Some(false)));
    out
}

/// The enumerated expression shapes.  `ctx` supplies the function registries.
pub fn exprs(ctx: &SessionContext) -> Vec<(String, Expr)> {
    let mut out: Vec<(String, Expr)> = vec![];
    let mut push = |label: String, e: Expr| out.push((label, e));
    let a = || col("a");
    let b = || col("b");
    let c = || Expr::Column(Column::new(Some(TableReference::bare("t")), "c"));
    let one_ = || lit(1i64);
    // ---- columns
    let cols: Vec<(&str, Expr)> = vec![
        ("bare", Expr::Column(Column::new_unqualified("a"))),
        ("rel", Expr::Column(Column::new(Some(TableReference::bare("t")), "a"))),
        ("partial", Expr::Column(Column::new(Some(TableReference::partial("s", "t")), "a"))),
        ("full", Expr::Column(Column::new(Some(TableReference::full("c", "s", "t")), "a"))),
        ("upper", Expr::Column(Column::new_unqualified("MiXed"))),
        ("rel_upper", Expr::Column(Column::new(Some(TableReference::bare("MyT")), "K"))),
        ("rel_space", Expr::Column(Column::new(Some(TableReference::bare("my t")), "a"))),
        ("dotted", Expr::Column(Column::new(Some(TableReference::bare("t.x")), "a.b"))),
        ("quoted", Expr::Column(Column::new_unqualified("a\"b c"))),
        ("empty", Expr::Column(Column::new_unqualified(""))),
    ];
    for (l, e) in &cols {
        push(format!("column:{l}"), e.clone());
    }
    // ---- literals with and without metadata
    push("literal:plain".into(), lit(1i64));
    push("literal:with_metadata".into(), Expr::Literal(ScalarValue::Int64(Some(1)), Some(meta(&[("k", "v")]))));
    // ---- every binary operator, and the nesting shapes of chains
    for op in ALL_OPERATORS {
        push(format!("binary:{op:?}:flat"), bin(a(), op, one_()));
        push(format!("binary:{op:?}:left_nested"), bin(bin(a(), op, b()), op, c()));
        push(format!("binary:{op:?}:right_nested"), bin(a(), op, bin(b(), op, c())));
        push(format!("binary:{op:?}:left_nested4"), bin(bin(bin(a(), op, b()), op, c()), op, one_()));
        push(format!("binary:{op:?}:balanced"), bin(bin(a(), op, b()), op, bin(c(), op, one_())));
        push(format!("binary:{op:?}:mid_nested"), bin(bin(a(), op, bin(b(), op, c())), op, one_()));
    }
    for (o1, o2) in [(Operator::Plus, Operator::Minus), (Operator::Minus, Operator::Plus), (Operator::And, Operator::Or), (Operator::Or, Operator::And), (Operator::Multiply, Operator::Plus), (Operator::Eq, Operator::And)] {
        push(format!("binary:mixed:{o1:?}/{o2:?}:left"), bin(bin(a(), o1, b()), o2, c()));
        push(format!("binary:mixed:{o1:?}/{o2:?}:right"), bin(a(), o1, bin(b(), o2, c())));
        push(format!("binary:mixed:{o1:?}/{o2:?}/{o1:?}"), bin(bin(bin(a(), o1, b()), o2, c()), o1, one_()));
    }
    // ---- unary wrappers × operand kinds
    let operands: Vec<(&str, Expr)> = vec![("col", a()), ("lit", lit(true)), ("null", Expr::Literal(ScalarValue::Null, None)), ("bin", bin(a(), Operator::Gt, one_())), ("not", Expr::Not(Box::new(a())))];
    type Wrap = fn(Box<Expr>) -> Expr;
    let unaries: Vec<(&str, Wrap)> = vec![
        ("Not", Expr::Not as Wrap),
        ("IsNull", Expr::IsNull as Wrap),
        ("IsNotNull", Expr::IsNotNull as Wrap),
        ("IsTrue", Expr::IsTrue as Wrap),
        ("IsFalse", Expr::IsFalse as Wrap),
        ("IsUnknown", Expr::IsUnknown as Wrap),
        ("IsNotTrue", Expr::IsNotTrue as Wrap),
        ("IsNotFalse", Expr::IsNotFalse as Wrap),
        ("IsNotUnknown", Expr::IsNotUnknown as Wrap),
        ("Negative", Expr::Negative as Wrap),
    ];
    for (un, f) in &unaries {
        for (on, o) in &operands {
            push(format!("unary:{un}:{on}"), f(Box::new(o.clone())));
        }
    }
    // ---- LIKE family
    for negated in [false, true] {
        for esc in [None, Some('\\'), Some('#'), Some('\u{e9}')] {
            for ci in [false, true] {
                push(format!("like:neg={negated}:esc={esc:?}:ci={ci}"), Expr::Like(Like::new(negated, Box::new(a()), Box::new(lit("a%")), esc, ci)));
            }
            push(format!("similar_to:neg={negated}:esc={esc:?}"), Expr::SimilarTo(Like::new(negated, Box::new(a()), Box::new(lit("a%")), esc, false)));
        }
    }
    // ---- BETWEEN / IN
    for negated in [false, true] {
        push(format!("between:neg={negated}"), Expr::Between(Between::new(Box::new(a()), negated, Box::new(one_()), Box::new(bin(b(), Operator::Plus, one_())))));
        for n in [0usize, 1, 3] {
            let list: Vec<Expr> = (0..n).map(|i| if i == 1 { Expr::Literal(ScalarValue::Null, None) } else { lit(i as i64) }).collect();
            push(format!("in_list:neg={negated}:n={n}"), Expr::InList(InList::new(Box::new(a()), list, negated)));
        }
    }
    // ---- CASE
    for base in [false, true] {
        for whens in [1usize, 2] {
            for els in [false, true] {
                let wt: Vec<(Box<Expr>, Box<Expr>)> = (0..whens)
                    .map(|i| (Box::new(if base { lit(i as i64) } else { bin(a(), Operator::Eq, lit(i as i64)) }), Box::new(lit(format!("r{i}")))))
                    .collect();
                push(
                    format!("case:base={base}:whens={whens}:else={els}"),
                    Expr::Case(Case::new(if base { Some(Box::new(a())) } else { None }, wt, if els { Some(Box::new(lit("z"))) } else { None })),
                );
            }
        }
    }
    // ---- CAST / TRY_CAST
    let item = Arc::new(Field::new("item", DataType::Int32, true));
    let types: Vec<DataType> = vec![
        DataType::Null,
        DataType::Boolean,
        DataType::Int8,
        DataType::Int64,
        DataType::UInt32,
        DataType::Float16,
        DataType::Float64,
        DataType::Utf8,
        DataType::Utf8View,
        DataType::LargeUtf8,
        DataType::Binary,
        DataType::BinaryView,
        DataType::FixedSizeBinary(4),
        DataType::Date32,
        DataType::Date64,
        DataType::Time32(TimeUnit::Second),
        DataType::Time64(TimeUnit::Nanosecond),
        DataType::Timestamp(TimeUnit::Nanosecond, None),
        DataType::Timestamp(TimeUnit::Millisecond, Some("UTC".into())),
        DataType::Duration(TimeUnit::Microsecond),
        DataType::Interval(IntervalUnit::MonthDayNano),
        DataType::Decimal32(7, 2),
        DataType::Decimal64(12, 3),
        DataType::Decimal128(10, 2),
        DataType::Decimal256(50, -2),
        DataType::List(item.clone()),
        DataType::LargeList(item.clone()),
        DataType::FixedSizeList(item.clone(), 2),
        DataType::ListView(item.clone()),
        DataType::Struct(vec![Field::new("x", DataType::Int32, false), Field::new("y", DataType::Utf8, true)].into()),
        DataType::Dictionary(Box::new(DataType::Int32), Box::new(DataType::Utf8)),
        DataType::Map(Arc::new(Field::new("entries", DataType::Struct(vec![Field::new("key", DataType::Utf8, false), Field::new("value", DataType::Int32, true)].into()), false)), false),
        DataType::RunEndEncoded(Arc::new(Field::new("run_ends", DataType::Int32, false)), Arc::new(Field::new("values", DataType::Utf8, true))),
    ];
    for t in &types {
        push(format!("cast:{t}"), Expr::Cast(Cast::new(Box::new(a()), t.clone())));
        push(format!("try_cast:{t}"), Expr::TryCast(TryCast::new(Box::new(a()), t.clone())));
    }
    {
        let nn = Arc::new(Field::new("", DataType::Int64, false));
        push("cast:non_nullable_field".into(), Expr::Cast(Cast::new_from_field(Box::new(a()), nn.clone())));
        push("try_cast:non_nullable_field".into(), Expr::TryCast(TryCast::new_from_field(Box::new(a()), nn)));
        let md = Arc::new(Field::new("", DataType::Int64, true).with_metadata([("k".to_string(), "v".to_string())].into_iter().collect()));
        push("cast:field_with_metadata".into(), Expr::Cast(Cast::new_from_field(Box::new(a()), md.clone())));
        push("try_cast:field_with_metadata".into(), Expr::TryCast(TryCast::new_from_field(Box::new(a()), md)));
    }
    // ---- aliases
    push("alias:plain".into(), a().alias("x"));
    push("alias:nested".into(), a().alias("x").alias("y"));
    push("alias:odd_name".into(), a().alias("a.b \"c\""));
    for (l, r) in [("bare", TableReference::bare("t")), ("partial", TableReference::partial("s", "t")), ("full", TableReference::full("c", "s", "t"))] {
        push(format!("alias:relation={l}"), Expr::Alias(Alias::new(a(), Some(r), "x")));
    }
    push("alias:relation=upper".into(), Expr::Alias(Alias::new(a(), Some(TableReference::bare("MyT")), "x")));
    push("alias:with_metadata".into(), Expr::Alias(Alias::new(a(), None::<TableReference>, "x").with_metadata(Some(meta(&[("k", "v")])))));
    // ---- every registered scalar function (by canonical name), 0 / 1 / 2 arguments
    let state = ctx.state();
    let mut udfs: Vec<_> = state.scalar_functions().iter().filter(|(k, f)| k.as_str() == f.name()).map(|(_, f)| f.clone()).collect();
    udfs.sort_by(|x, y| x.name().cmp(y.name()));
    for f in &udfs {
        push(format!("scalar_fn:{}:1", f.name()), Expr::ScalarFunction(ScalarFunction::new_udf(f.clone(), vec![a()])));
    }
    for f in udfs.iter().take(3) {
        push(format!("scalar_fn:{}:0", f.name()), Expr::ScalarFunction(ScalarFunction::new_udf(f.clone(), vec![])));
        push(format!("scalar_fn:{}:2", f.name()), Expr::ScalarFunction(ScalarFunction::new_udf(f.clone(), vec![a(), bin(b(), Operator::Plus, one_())])));
    }
    // functions reached through an alias name resolve to the same function
    let mut alias_names: Vec<_> = state.scalar_functions().iter().filter(|(k, f)| k.as_str() != f.name()).map(|(k, f)| (k.clone(), f.clone())).collect();
    alias_names.sort_by(|x, y| x.0.cmp(&y.0));
    for (k, f) in alias_names {
        push(format!("scalar_fn_alias:{k}"), Expr::ScalarFunction(ScalarFunction::new_udf(f, vec![a()])));
    }
    // ---- every registered aggregate function; modifiers on a few
    let mut udafs: Vec<_> = state.aggregate_functions().iter().filter(|(k, f)| k.as_str() == f.name()).map(|(_, f)| f.clone()).collect();
    udafs.sort_by(|x, y| x.name().cmp(y.name()));
    let sorts: Vec<(&str, Vec<Sort>)> =
        vec![("none", vec![]), ("a_asc_nf", vec![Sort::new(a(), true, true)]), ("a_desc_nl,b", vec![Sort::new(a(), false, false), Sort::new(b(), true, false)])];
    let nts = [None, Some(NullTreatment::IgnoreNulls), Some(NullTreatment::RespectNulls)];
    for f in &udafs {
        push(format!("agg:{}", f.name()), Expr::AggregateFunction(AggregateFunction::new_udf(f.clone(), vec![a()], false, None, vec![], None)));
    }
    for f in udafs.iter().filter(|f| ["sum", "first_value", "array_agg", "count"].contains(&f.name())) {
        for distinct in [false, true] {
            for filter in [false, true] {
                for (sl, s) in &sorts {
                    for nt in nts {
                        push(
                            format!("agg:{}:distinct={distinct}:filter={filter}:order={sl}:nulls={nt:?}", f.name()),
                            Expr::AggregateFunction(AggregateFunction::new_udf(
                                f.clone(),
                                vec![a()],
                                distinct,
                                if filter { Some(Box::new(bin(b(), Operator::Gt, one_()))) } else { None },
                                s.clone(),
                                nt,
                            )),
                        );
                    }
                }
            }
        }
    }
    // ---- window functions: every UDWF and three UDAFs × frames; modifiers
    let mut udwfs: Vec<_> = state.window_functions().iter().filter(|(k, f)| k.as_str() == f.name()).map(|(_, f)| f.clone()).collect();
    udwfs.sort_by(|x, y| x.name().cmp(y.name()));
    let mut defs: Vec<(String, WindowFunctionDefinition)> = udwfs.iter().map(|f| (format!("udwf:{}", f.name()), WindowFunctionDefinition::WindowUDF(f.clone()))).collect();
    for f in udafs.iter().filter(|f| ["sum", "count", "min"].contains(&f.name())) {
        defs.push((format!("udaf:{}", f.name()), WindowFunctionDefinition::AggregateUDF(f.clone())));
    }
    let win = |def: &WindowFunctionDefinition, part: Vec<Expr>, mut order: Vec<Sort>, frame: WindowFrame, nt: Option<NullTreatment>, distinct: bool, filter: Option<Expr>| -> Option<Expr> {
        // like the SQL planner: only "regularised" (frame, ORDER BY) pairs are expressions the engine builds
        frame.regularize_order_bys(&mut order).ok()?;
        let mut bld = Expr::from(WindowFunction::new(def.clone(), vec![a()])).partition_by(part).order_by(order).window_frame(frame).null_treatment(nt);
        if distinct {
            bld = bld.distinct();
        }
        if let Some(f) = filter {
            bld = bld.filter(f);
        }
        bld.build().ok()
    };
    for (dl, def) in &defs {
        if let Some(e) = win(def, vec![], vec![], WindowFrame::new(None), None, false, None) {
            push(format!("window:{dl}:plain"), e);
        }
    }
    let frames = frames();
    for (dl, def) in defs.iter().filter(|(l, _)| ["udwf:row_number", "udaf:sum", "udwf:lag"].contains(&l.as_str())) {
        for (fi, fr) in frames.iter().enumerate() {
            for (ol, order) in [("none", vec![]), ("a", vec![Sort::new(a(), true, false)]), ("a_desc_nf,b", vec![Sort::new(a(), false, true), Sort::new(b(), true, false)])] {
                if let Some(e) = win(def, vec![b()], order, fr.clone(), None, false, None) {
                    push(format!("window:{dl}:frame{fi}={fr}:order={ol}"), e);
                }
            }
        }
        for nt in nts {
            for distinct in [false, true] {
                for filter in [false, true] {
                    for part in [0usize, 2] {
                        let p: Vec<Expr> = [b(), c()].into_iter().take(part).collect();
                        if let Some(e) = win(def, p, vec![Sort::new(a(), true, false)], WindowFrame::new(Some(false)), nt, distinct, if filter { Some(bin(b(), Operator::Gt, one_())) } else { None }) {
                            push(format!("window:{dl}:nulls={nt:?}:distinct={distinct}:filter={filter}:partition={part}"), e);
                        }
                    }
                }
            }
        }
    }
    // ---- grouping sets, unnest, placeholders, lambdas
    push("grouping:rollup".into(), Expr::GroupingSet(GroupingSet::Rollup(vec![a(), b()])));
    push("grouping:cube".into(), Expr::GroupingSet(GroupingSet::Cube(vec![a(), b()])));
    push("grouping:sets".into(), Expr::GroupingSet(GroupingSet::GroupingSets(vec![vec![a(), b()], vec![a()], vec![]])));
    push("grouping:rollup_empty".into(), Expr::GroupingSet(GroupingSet::Rollup(vec![])));
    push("unnest".into(), Expr::Unnest(Unnest::new(a())));
    push("unnest:outer".into(), Expr::Unnest(Unnest::new_outer(a())));
    push("placeholder:untyped".into(), Expr::Placeholder(Placeholder::new_with_field("$1".into(), None)));
    push("placeholder:named".into(), Expr::Placeholder(Placeholder::new_with_field("$name".into(), None)));
    for t in [DataType::Int32, DataType::Utf8View, DataType::Decimal128(10, 2), DataType::List(item.clone())] {
        push(format!("placeholder:typed:{t}"), Expr::Placeholder(Placeholder::new_with_field("$1".into(), Some(Arc::new(Field::new("", t.clone(), true))))));
    }
    push("placeholder:typed:non_nullable".into(), Expr::Placeholder(Placeholder::new_with_field("$1".into(), Some(Arc::new(Field::new("", DataType::Int32, false))))));
    push(
        "placeholder:typed:metadata".into(),
        Expr::Placeholder(Placeholder::new_with_field("$1".into(), Some(Arc::new(Field::new("", DataType::Int32, true).with_metadata([("k".to_string(), "v".to_string())].into_iter().collect()))))),
    );
    push("lambda".into(), Expr::Lambda(Lambda::new(vec!["x".into(), "y".into()], bin(a(), Operator::Plus, one_()))));
    push("lambda:no_params".into(), Expr::Lambda(Lambda::new(vec![], one_())));
    push("lambda_variable:untyped".into(), Expr::LambdaVariable(LambdaVariable::new("x".into(), None)));
    push("lambda_variable:typed".into(), Expr::LambdaVariable(LambdaVariable::new("x".into(), Some(Arc::new(Field::new("x", DataType::Int32, true))))));
    let mut hofs: Vec<_> = state.higher_order_functions().iter().filter(|(k, f)| k.as_str() == f.name()).map(|(_, f)| f.clone()).collect();
    hofs.sort_by(|x, y| x.name().cmp(y.name()));
    for f in hofs {
        let l = Expr::Lambda(Lambda::new(vec!["x".into()], bin(Expr::LambdaVariable(LambdaVariable::new("x".into(), None)), Operator::Plus, one_())));
        push(format!("higher_order_fn:{}", f.name()), Expr::HigherOrderFunction(datafusion::logical_expr::expr::HigherOrderFunction::new(f, vec![a(), l])));
    }
    // ---- a scalar variable (documented as not serialisable: counted as a rejection)
    push("scalar_variable".into(), Expr::ScalarVariable(Arc::new(Field::new("@v", DataType::Int32, true)), vec!["@v".into()]));
    // ---- every unary wrapper / alias / cast over every composite kind (depth 2)
    let composites: Vec<(&str, Expr)> = out
        .iter()
        .filter(|(l, _)| {
            ["case:base=true:whens=2:else=true", "in_list:neg=true:n=3", "between:neg=false", "like:neg=true:esc=Some('#'):ci=true", "agg:sum:distinct=true:filter=true:order=a_asc_nf:nulls=None", "window:udaf:sum:plain", "cast:Utf8View", "binary:Plus:right_nested", "scalar_fn:abs:1"]
                .contains(&l.as_str())
        })
        .map(|(l, e)| (if l.starts_with("case") { "case" } else if l.starts_with("in_list") { "in_list" } else if l.starts_with("between") { "between" } else if l.starts_with("like") { "like" } else if l.starts_with("agg") { "agg" } else if l.starts_with("window") { "window" } else if l.starts_with("cast") { "cast" } else if l.starts_with("binary") { "binary" } else { "scalar_fn" }, e.clone()))
        .collect();
    for (cl, ce) in &composites {
        for (un, f) in &unaries {
            out.push((format!("depth2:{un}({cl})"), f(Box::new(ce.clone()))));
        }
        out.push((format!("depth2:alias({cl})"), ce.clone().alias("z")));
        out.push((format!("depth2:cast({cl})"), Expr::Cast(Cast::new(Box::new(ce.clone()), DataType::Int64))));
        out.push((format!("depth2:binary({cl},{cl})"), bin(ce.clone(), Operator::Eq, ce.clone())));
        for (cl2, ce2) in &composites {
            out.push((format!("depth2:case_when({cl})_then({cl2})"), Expr::Case(Case::new(None, vec![(Box::new(ce.clone()), Box::new(ce2.clone()))], None))));
        }
    }
    out
}
