//! C45 — components passed through the foreign-function interface behave as native.
//!
//! Every scalar / aggregate / window function of the default registry is wrapped
//! as `FFI_ScalarUDF` / `FFI_AggregateUDF` / `FFI_WindowUDF`, its
//! `library_marker_id` is overwritten by a harness `extern "C" fn` (so that the
//! consumer side builds the `Foreign*` adapter instead of unwrapping the local
//! object), and — through replaced public function-pointer fields — the
//! accumulators, groups accumulators and partition evaluators it creates are put
//! on the foreign path too (see `c45/hooks.rs`).  MemTables are wrapped as
//! `FFI_TableProvider`, physical plans as `FFI_ExecutionPlan` (with foreign
//! `FFI_PlanProperties`), native streams as `FFI_RecordBatchStream`.
//!
//! Parts (all enumerated exhaustively inside the stated bounds, native and foreign
//! side by side on identical inputs):
//!   scalar    declared attributes, coercion of ~80 probe type lists, placement,
//!             preserves_lex_ordering; per (function, ≤ N coerced type lists): every
//!             argument varied over its value menu (C32's menus) in the modes batch /
//!             const (one call per row, all constants) / scalar:others, plus
//!             return_field_from_args with and without constants
//!   aggregate declared attributes and coercion; per (function, type list, config ∈
//!             {plain, DISTINCT, IGNORE NULLS + ORDER BY, literal tail}): return_field,
//!             state_fields, groups_accumulator_supported; every row sequence of length
//!             ≤ L over {NULL, v1, v2}^arity through update/evaluate,
//!             update×2/state/merge/evaluate, sliding update/retract/evaluate, groups
//!             accumulator update(±filter)/convert_to_state/state(First)/merge/evaluate
//!   window    declared attributes, coercion, field(); per (function, type list, config):
//!             every partition of ≤ L rows through evaluate_all, get_range, evaluate over
//!             every range, evaluate_all_with_rank over every run partition; evaluator flags
//!   sql       12 small databases × 16 statements, foreign providers vs MemTables
//!   provider  schema / table_type / statistics / supports_filters_pushdown / scan
//!   plan      every physical plan of those queries wrapped as a foreign plan: name, schema,
//!             properties (partitioning, ordering, boundedness, emission), children, per
//!             partition results, partition_statistics; and native streams through
//!             FFI_RecordBatchStream
//!
//! Oracle: equal results / fields / declared attributes, and failure on one side iff
//! failure on the other.  `Signature` is compared through what it accepts and
//! coerces to (+ volatility): the FFI layer documents that every foreign function
//! presents a user-defined signature whose `coerce_types` calls back into the original.
#[path = "c32/engine.rs"]
mod engine;
#[path = "c45/hooks.rs"]
mod hooks;
#[path = "c32/menu.rs"]
mod menu;
#[path = "c45/table.rs"]
mod table;
#[path = "c45/udaf.rs"]
mod udaf;
#[path = "c45/udf.rs"]
mod udf;
#[path = "c45/udwf.rs"]
mod udwf;

use std::collections::BTreeMap;
use std::sync::Arc;

use arrow::datatypes::DataType;
use datafusion::catalog::TableProvider;
use datafusion::physical_plan::ExecutionPlan;
use mc_core::serde_json::{Value, json};
use mc_core::{Ctx, Level, enumerate, rayon::prelude::*, run_check};
use serde::{Deserialize, Serialize};

const CAP_MAX: usize = 8;

/// Scalar functions for which some enumerated call *through the FFI* ends in a panic inside the
/// `extern "C"` wrapper (which cannot unwind: the process aborts) although the native call returns.
/// They are compared on declared attributes only (set C45_ABORTING=1 to include them anyway).
const FOREIGN_CALL_ABORTS: [&str; 11] =
    ["array_append", "array_prepend", "array_remove", "array_remove_all", "array_remove_n", "array_replace", "array_replace_all", "array_resize", "arrays_zip", "lpad", "rpad"];

#[derive(Serialize, Deserialize, Clone, Debug)]
#[serde(tag = "part")]
enum Case {
    Scalar {
        func: String,
        /// None: the declared attributes only
        sig: Option<usize>,
        types: Vec<String>,
        vary: usize,
        #[serde(default)]
        rows: Option<Vec<usize>>,
        #[serde(default)]
        mode: Option<String>,
    },
    Aggregate {
        func: String,
        sig: Option<usize>,
        types: Vec<String>,
        #[serde(default)]
        config: Option<udaf::Config>,
        /// None: the per-configuration declared things only
        #[serde(default)]
        seq: Option<Vec<Vec<usize>>>,
    },
    Window {
        func: String,
        sig: Option<usize>,
        types: Vec<String>,
        #[serde(default)]
        config: Option<udwf::Config>,
        #[serde(default)]
        rows: Option<Vec<Vec<usize>>>,
    },
    Sql {
        db: usize,
        query: usize,
    },
    Provider {
        db: usize,
    },
    Plan {
        db: usize,
        query: usize,
    },
}

#[derive(Default)]
struct TaskOut {
    /// (key, symptom class, what, case)
    violations: Vec<(String, String, String, Case)>,
    counters: BTreeMap<String, u64>,
    nontrivial: Vec<String>,
    sample: Option<Value>,
}
impl TaskOut {
    fn add(&mut self, k: &str, n: u64) {
        *self.counters.entry(k.to_string()).or_insert(0) += n;
    }
}

fn tnames(t: &[DataType]) -> Vec<String> {
    t.iter().map(|x| x.to_string()).collect()
}

// ---------------------------------------------------------------------------------------------- scalar

fn scalar_task(udf: &Arc<datafusion::logical_expr::ScalarUDF>, cap: usize, only: Option<&Case>) -> TaskOut {
    let mut out = TaskOut::default();
    let name = udf.name().to_string();
    let foreign = match udf::foreign(udf) {
        Ok(f) => f,
        Err(e) => {
            out.violations.push((format!("scalar|{name}||machinery"), "machinery".into(), e, Case::Scalar { func: name, sig: None, types: vec![], vary: 0, rows: None, mode: None }));
            return out;
        }
    };
    let (lists, _) = engine::type_lists(udf, cap);
    let only_sig = match only {
        Some(Case::Scalar { sig, .. }) => Some(*sig),
        _ => None,
    };
    if only_sig.is_none() || only_sig == Some(None) {
        let mut ops = 0u64;
        for f in udf::compare_declared(udf, &foreign, &lists, &mut ops) {
            out.violations.push((format!("scalar|{name}|declared|{}", f.symptom), format!("scalar:{}", f.symptom), f.what, Case::Scalar { func: name.clone(), sig: None, types: vec![], vary: 0, rows: None, mode: None }));
        }
        out.add("scalar.declared_comparisons", ops / 2);
    }
    if engine::is_volatile(udf) {
        out.add("scalar.volatile_functions_declared_only", 1);
        return out;
    }
    if FOREIGN_CALL_ABORTS.contains(&udf.name()) && std::env::var("C45_ABORTING").is_err() {
        out.add("scalar.functions_declared_only_because_foreign_call_aborts", 1);
        return out;
    }
    let cfg = engine::cfg();
    // nullary functions: one empty type list
    let mut all: Vec<(usize, Vec<DataType>)> = lists.into_iter().enumerate().collect();
    if all.is_empty() {
        let none: Vec<arrow::datatypes::FieldRef> = vec![];
        if matches!(mc_core::catch(|| datafusion::logical_expr::type_coercion::functions::fields_with_udf(&none, udf.as_ref())), Ok(Ok(_))) {
            all.push((0, vec![]));
        }
    }
    for (i, types) in all {
        if let Some(Some(s)) = only_sig {
            if s != i {
                continue;
            }
        }
        let Some(plan) = engine::plan(udf, &types, &cfg) else { continue };
        let names = tnames(&types);
        let varies: Vec<usize> = if types.is_empty() { vec![0] } else { (0..types.len()).collect() };
        for vary in varies {
            let (rows_f, mode_f) = match only {
                Some(Case::Scalar { vary: v, rows, mode, .. }) => {
                    if *v != vary {
                        continue;
                    }
                    (rows.clone(), mode.clone())
                }
                _ => (None, None),
            };
            let (findings, st) = udf::compare_grid(udf, &foreign, &plan, vary, rows_f.as_deref(), mode_f.as_deref());
            out.add("scalar.invocations_foreign", st.invocations / 2);
            out.add("scalar.both_ok", st.both_ok);
            out.add("scalar.both_fail", st.both_fail);
            if st.both_ok > 0 && st.nonnull_rows > 0 {
                out.nontrivial.push(format!("scalar|{name}|{}|{vary}", names.join(",")));
                if out.sample.is_none() {
                    out.sample = Some(json!({"part": "scalar", "function": name, "types": names, "vary": vary, "invocations": st.invocations, "both_ok": st.both_ok, "both_fail": st.both_fail}));
                }
            }
            for f in findings {
                // minimise: the one row
                let mut case = Case::Scalar { func: name.clone(), sig: Some(i), types: names.clone(), vary, rows: None, mode: Some(f.mode.clone()) };
                if let Some(r) = f.row {
                    let (ff, _) = udf::compare_grid(udf, &foreign, &plan, vary, Some(&[r]), Some(&f.mode));
                    if ff.iter().any(|x| x.symptom == f.symptom) {
                        case = Case::Scalar { func: name.clone(), sig: Some(i), types: names.clone(), vary, rows: Some(vec![r]), mode: Some(f.mode.clone()) };
                    }
                }
                out.violations.push((format!("scalar|{name}|{}|{}|{}", names.join(","), f.mode, f.symptom), format!("scalar:{}", f.symptom), f.what, case));
            }
        }
    }
    out
}

// ---------------------------------------------------------------------------------------------- aggregate

fn sequences(alpha: &[Vec<usize>], max_len: usize) -> Vec<Vec<Vec<usize>>> {
    enumerate::sequences(alpha, 0, max_len)
}

fn aggregate_task(u: &Arc<datafusion::logical_expr::AggregateUDF>, cap: usize, thorough: bool, only: Option<&Case>) -> TaskOut {
    let mut out = TaskOut::default();
    let name = u.name().to_string();
    let foreign = match udaf::foreign(u) {
        Ok(f) => f,
        Err(e) => {
            out.violations.push((format!("aggregate|{name}||machinery"), "machinery".into(), e, Case::Aggregate { func: name, sig: None, types: vec![], config: None, seq: None }));
            return out;
        }
    };
    let lists = udaf::type_lists(u, cap);
    let (only_sig, only_cfg, only_seq) = match only {
        Some(Case::Aggregate { sig, config, seq, .. }) => (Some(*sig), config.clone(), seq.clone()),
        _ => (None, None, None),
    };
    if only_sig.is_none() || only_sig == Some(None) {
        let mut ops = 0;
        for f in udaf::compare_declared(u, &foreign, &lists, &mut ops) {
            out.violations.push((format!("aggregate|{name}|declared|{}", f.symptom), format!("aggregate:{}", f.symptom), f.what, Case::Aggregate { func: name.clone(), sig: None, types: vec![], config: None, seq: None }));
        }
        out.add("aggregate.declared_comparisons", ops / 2);
    }
    for (i, types) in lists.iter().enumerate() {
        if let Some(Some(s)) = only_sig {
            if s != i {
                continue;
            }
        }
        let Some(s) = udaf::setup(types) else { continue };
        let names = tnames(types);
        let alpha = udaf::row_alphabet(&s);
        let max_len = match (types.len(), thorough) {
            (1, false) => 3,
            (1, true) => 4,
            (_, false) => 2,
            (_, true) => 3,
        };
        let seqs = sequences(&alpha, max_len);
        for c in udaf::configs(types.len()) {
            if let Some(oc) = &only_cfg {
                if *oc != c {
                    continue;
                }
            }
            if only.is_none() || only_seq.is_none() {
                let mut ops = 0;
                for f in udaf::compare_config(u, &foreign, &s, &c, &mut ops) {
                    out.violations.push((
                        format!("aggregate|{name}|{}|{}", names.join(","), f.symptom),
                        format!("aggregate:{}", f.symptom),
                        format!("{c:?}: {}", f.what),
                        Case::Aggregate { func: name.clone(), sig: Some(i), types: names.clone(), config: Some(c.clone()), seq: None },
                    ));
                }
                out.add("aggregate.declared_comparisons", ops / 2);
            }
            let mut st = udaf::SeqStats { ops: 0, evaluated_ok: 0, nonnull_results: 0, foreign_accumulators: 0 };
            let mut seen: Vec<String> = vec![];
            for seq in &seqs {
                if let Some(os) = &only_seq {
                    if os != seq {
                        continue;
                    }
                }
                for f in udaf::compare_sequence(u, &foreign, &s, &c, seq, &mut st) {
                    if seen.contains(&f.symptom) {
                        continue;
                    }
                    seen.push(f.symptom.clone());
                    out.violations.push((
                        format!("aggregate|{name}|{}|{}", names.join(","), f.symptom),
                        format!("aggregate:{}", f.symptom),
                        format!("{c:?}, rows (menu indices) {seq:?}: {}", f.what),
                        Case::Aggregate { func: name.clone(), sig: Some(i), types: names.clone(), config: Some(c.clone()), seq: Some(seq.clone()) },
                    ));
                }
            }
            out.add("aggregate.foreign_calls", st.ops / 2);
            out.add("aggregate.evaluations_compared_ok", st.evaluated_ok);
            out.add("aggregate.foreign_accumulators", st.foreign_accumulators);
            if st.nonnull_results > 0 {
                out.nontrivial.push(format!("aggregate|{name}|{}|{c:?}", names.join(",")));
                if out.sample.is_none() {
                    out.sample = Some(json!({"part": "aggregate", "function": name, "types": names, "config": format!("{c:?}"), "sequences": seqs.len(), "foreign_calls": st.ops / 2, "non_null_results": st.nonnull_results}));
                }
            }
        }
    }
    out
}

// ---------------------------------------------------------------------------------------------- window

fn window_task(u: &Arc<datafusion::logical_expr::WindowUDF>, cap: usize, thorough: bool, only: Option<&Case>) -> TaskOut {
    let mut out = TaskOut::default();
    let name = u.name().to_string();
    let foreign = match udwf::foreign(u) {
        Ok(f) => f,
        Err(e) => {
            out.violations.push((format!("window|{name}||machinery"), "machinery".into(), e, Case::Window { func: name, sig: None, types: vec![], config: None, rows: None }));
            return out;
        }
    };
    let lists = udwf::type_lists(u, cap);
    let (only_sig, only_cfg, only_rows) = match only {
        Some(Case::Window { sig, config, rows, .. }) => (Some(*sig), config.clone(), rows.clone()),
        _ => (None, None, None),
    };
    if only_sig.is_none() || only_sig == Some(None) {
        let mut ops = 0;
        for f in udwf::compare_declared(u, &foreign, &lists, &mut ops) {
            out.violations.push((format!("window|{name}|declared|{}", f.symptom), format!("window:{}", f.symptom), f.what, Case::Window { func: name.clone(), sig: None, types: vec![], config: None, rows: None }));
        }
        out.add("window.declared_comparisons", ops / 2);
    }
    for (i, types) in lists.iter().enumerate() {
        if let Some(Some(s)) = only_sig {
            if s != i {
                continue;
            }
        }
        let Some(s) = udwf::setup(types) else { continue };
        let names = tnames(types);
        // rows: menu indices {NULL, v1, v2} per argument
        let per_arg: Vec<Vec<usize>> = s.menus.iter().map(|m| [0usize, 2, 3].iter().map(|i| (*i).min(m.len() - 1)).collect()).collect();
        let mut alpha: Vec<Vec<usize>> = vec![vec![]];
        for a in per_arg {
            let mut next = vec![];
            for r in &alpha {
                for v in &a {
                    let mut x = r.clone();
                    x.push(*v);
                    next.push(x);
                }
            }
            alpha = next;
        }
        let max_len = match (types.len(), thorough) {
            (0, _) => 4,
            (1, false) => 3,
            (1, true) => 4,
            (2, false) => 2,
            (2, true) => 3,
            (_, false) => 1,
            (_, true) => 2,
        };
        let parts = sequences(&alpha, max_len);
        for c in udwf::configs(types.len()) {
            if let Some(oc) = &only_cfg {
                if *oc != c {
                    continue;
                }
            }
            let mut st = udwf::PartStats { ops: 0, ok_results: 0, nonnull_results: 0, foreign_evaluators: 0 };
            let mut seen: Vec<String> = vec![];
            for rows in &parts {
                if let Some(or) = &only_rows {
                    if or != rows {
                        continue;
                    }
                }
                for f in udwf::compare_partition(u, &foreign, &s, &c, rows, &mut st) {
                    if seen.contains(&f.symptom) {
                        continue;
                    }
                    seen.push(f.symptom.clone());
                    out.violations.push((
                        format!("window|{name}|{}|{}", names.join(","), f.symptom),
                        format!("window:{}", f.symptom),
                        format!("{c:?}, partition rows (menu indices) {rows:?}: {}", f.what),
                        Case::Window { func: name.clone(), sig: Some(i), types: names.clone(), config: Some(c.clone()), rows: Some(rows.clone()) },
                    ));
                }
            }
            out.add("window.foreign_calls", st.ops / 2);
            out.add("window.results_compared_ok", st.ok_results);
            out.add("window.foreign_evaluators", st.foreign_evaluators);
            if st.nonnull_results > 0 {
                out.nontrivial.push(format!("window|{name}|{}|{c:?}", names.join(",")));
                if out.sample.is_none() {
                    out.sample = Some(json!({"part": "window", "function": name, "types": names, "config": format!("{c:?}"), "partitions": parts.len(), "foreign_calls": st.ops / 2}));
                }
            }
        }
    }
    out
}

// ---------------------------------------------------------------------------------------------- tables, plans, streams

fn rt() -> tokio::runtime::Runtime {
    tokio::runtime::Builder::new_current_thread().enable_all().build().expect("runtime")
}

fn sql_task(dbi: usize, qi: usize) -> TaskOut {
    let mut out = TaskOut::default();
    let dbs = table::databases();
    let qs = table::queries();
    let (db, (sql, ordered, pre)) = (&dbs[dbi], qs[qi]);
    let case = Case::Sql { db: dbi, query: qi };
    let r = rt().block_on(async {
        let native = table::new_ctx();
        let (t, u) = table::mem_tables(db);
        native.register_table("t", t).map_err(|e| e.to_string())?;
        native.register_table("u", u).map_err(|e| e.to_string())?;
        let foreign = table::new_ctx();
        let (t, u) = table::mem_tables(db);
        foreign.register_table("t", table::wrap_provider(&foreign, t)?).map_err(|e| e.to_string())?;
        foreign.register_table("u", table::wrap_provider(&foreign, u)?).map_err(|e| e.to_string())?;
        let a = table::run_sql(&native, pre, sql, ordered).await;
        let b = table::run_sql(&foreign, pre, sql, ordered).await;
        Ok::<_, String>((a, b))
    });
    out.add("sql.queries_foreign", 1);
    match r {
        Err(e) => out.violations.push((format!("sql|{}|{qi}|machinery", db.label), "machinery".into(), e, case)),
        Ok((a, b)) => {
            let bad = match (&a, &b) {
                (Ok(x), Ok(y)) => {
                    if !x.rows.is_empty() {
                        out.nontrivial.push(format!("sql|{dbi}|{qi}"));
                        if out.sample.is_none() && dbi == 5 {
                            out.sample = Some(json!({"part": "sql", "db": db.label, "sql": sql, "rows": x.rows}));
                        }
                    }
                    if x.schema != y.schema {
                        Some(("result-schema-differs", format!("native {}, foreign {}", x.schema, y.schema)))
                    } else if x.rows != y.rows {
                        Some(("result-rows-differ", format!("native {:?}, foreign {:?}", x.rows, y.rows)))
                    } else {
                        None
                    }
                }
                (Err(_), Err(_)) => None,
                (Ok(x), Err(e)) => Some(("fails-only-foreign", format!("native Ok({} rows), foreign Err({e})", x.rows.len()))),
                (Err(e), Ok(y)) => Some(("fails-only-native", format!("native Err({e}), foreign Ok({} rows)", y.rows.len()))),
            };
            if let Some((sym, what)) = bad {
                out.violations.push((format!("sql|{}|{sql}|{sym}", db.label), format!("sql:{sym}"), format!("db {} / {}{sql}: {what}", db.label, pre.map(|p| format!("{p}; ")).unwrap_or_default()), case));
            }
        }
    }
    out
}

fn provider_task(dbi: usize) -> TaskOut {
    let mut out = TaskOut::default();
    let dbs = table::databases();
    let db = &dbs[dbi];
    let case = Case::Provider { db: dbi };
    let mut push = |out: &mut TaskOut, sym: &str, what: String| {
        out.violations.push((format!("provider|{}|{sym}", db.label), format!("provider:{sym}"), format!("db {}: {what}", db.label), case.clone()));
    };
    let r: Result<(), String> = rt().block_on(async {
        let ctx = table::new_ctx();
        let (t, _) = table::mem_tables(db);
        let native: Arc<dyn TableProvider> = t;
        let (t2, _) = table::mem_tables(db);
        let foreign = table::wrap_provider(&ctx, t2)?;
        let mut ops = 0u64;
        if table::schema_text(&native.schema()) != table::schema_text(&foreign.schema()) {
            push(&mut out, "schema-differs", format!("schema(): native {}, foreign {}", table::schema_text(&native.schema()), table::schema_text(&foreign.schema())));
        }
        if native.table_type() != foreign.table_type() {
            push(&mut out, "table-type-differs", format!("table_type(): native {:?}, foreign {:?}", native.table_type(), foreign.table_type()));
        }
        if format!("{:?}", native.statistics()) != format!("{:?}", foreign.statistics()) {
            push(&mut out, "statistics-differ", format!("statistics(): native {:?}, foreign {:?}", native.statistics(), foreign.statistics()));
        }
        ops += 3;
        let filters = table::filters();
        let refs: Vec<&datafusion::logical_expr::Expr> = filters.iter().collect();
        let pn = native.supports_filters_pushdown(&refs).map_err(|e| e.to_string());
        let pf = foreign.supports_filters_pushdown(&refs).map_err(|e| e.to_string());
        ops += 1;
        match (&pn, &pf) {
            (Ok(a), Ok(b)) if a == b => {}
            (Err(_), Err(_)) => {}
            _ => push(&mut out, "filter-pushdown-differs", format!("supports_filters_pushdown: native {pn:?}, foreign {pf:?}")),
        }
        let state = ctx.state();
        let projections: Vec<Option<Vec<usize>>> = vec![None, Some(vec![0]), Some(vec![2, 0]), Some(vec![])];
        for proj in &projections {
            for fl in [vec![], vec![filters[0].clone()]] {
                for limit in [None, Some(1usize)] {
                    let pn = native.scan(&state, proj.as_deref(), &fl, limit).await.map_err(|e| e.to_string());
                    let pf = foreign.scan(&state, proj.as_deref(), &fl, limit).await.map_err(|e| e.to_string());
                    ops += 1;
                    let what = format!("scan(projection {proj:?}, {} filter(s), limit {limit:?})", fl.len());
                    match (pn, pf) {
                        (Ok(a), Ok(b)) => {
                            if table::props_text(a.as_ref()) != table::props_text(b.as_ref()) {
                                push(&mut out, "scan-properties-differ", format!("{what}: native {}, foreign {}", table::props_text(a.as_ref()), table::props_text(b.as_ref())));
                            }
                            let ra = table::run_plan(&a, &ctx, false).await;
                            let rb = table::run_plan(&b, &ctx, false).await;
                            if format!("{ra:?}") != format!("{rb:?}") {
                                push(&mut out, "scan-results-differ", format!("{what}: native {ra:?}, foreign {rb:?}"));
                            }
                            if ra.iter().any(|p| matches!(p, Ok((_, rows)) if !rows.is_empty())) {
                                out.nontrivial.push(format!("provider|{dbi}|{proj:?}|{}|{limit:?}", fl.len()));
                            }
                        }
                        (Err(_), Err(_)) => {}
                        (a, b) => push(&mut out, "scan-outcome-differs", format!("{what}: native {:?}, foreign {:?}", a.map(|_| "plan"), b.map(|_| "plan"))),
                    }
                }
            }
        }
        out.add("provider.foreign_calls", ops);
        Ok(())
    });
    if let Err(e) = r {
        out.violations.push((format!("provider|{}|machinery", db.label), "machinery".into(), e, case));
    }
    out
}

fn plan_task(dbi: usize, qi: usize) -> TaskOut {
    let mut out = TaskOut::default();
    let dbs = table::databases();
    let qs = table::queries();
    let (db, (sql, ordered, pre)) = (&dbs[dbi], qs[qi]);
    if pre.is_some() {
        return out;
    }
    let case = Case::Plan { db: dbi, query: qi };
    let r: Result<(), String> = rt().block_on(async {
        let ctx = table::new_ctx();
        let (t, u) = table::mem_tables(db);
        ctx.register_table("t", t).map_err(|e| e.to_string())?;
        ctx.register_table("u", u).map_err(|e| e.to_string())?;
        let df = match ctx.sql(sql).await {
            Ok(d) => d,
            Err(_) => return Ok(()),
        };
        let plan: Arc<dyn ExecutionPlan> = match df.create_physical_plan().await {
            Ok(p) => p,
            Err(_) => return Ok(()),
        };
        let mut push = |out: &mut TaskOut, sym: &str, what: String| {
            out.violations.push((format!("plan|{}|{sql}|{sym}", db.label), format!("plan:{sym}"), format!("db {} / {sql}: {what}", db.label), case.clone()));
        };
        // every node of the plan, wrapped on its own
        let mut nodes: Vec<Arc<dyn ExecutionPlan>> = vec![];
        let mut stack = vec![plan.clone()];
        while let Some(p) = stack.pop() {
            for c in p.children() {
                stack.push(c.clone());
            }
            nodes.push(p);
        }
        for (k, node) in nodes.iter().enumerate() {
            let f = match mc_core::catch(|| table::wrap_plan(node)) {
                Ok(Ok(f)) => f,
                Ok(Err(e)) => {
                    push(&mut out, "wrap-fails", format!("node {k} {}: cannot be wrapped: {e}", node.name()));
                    continue;
                }
                Err(p) => {
                    push(&mut out, "wrap-panics", format!("node {k} {}: {p}", node.name()));
                    continue;
                }
            };
            out.add("plan.nodes_wrapped", 1);
            if f.name() != node.name() {
                push(&mut out, "name-differs", format!("node {k}: name native {:?}, foreign {:?}", node.name(), f.name()));
            }
            if table::props_text(node.as_ref()) != table::props_text(f.as_ref()) {
                push(&mut out, "properties-differ", format!("node {k} {}: native {}, foreign {}", node.name(), table::props_text(node.as_ref()), table::props_text(f.as_ref())));
            }
            if node.children().len() != f.children().len() {
                push(&mut out, "children-differ", format!("node {k} {}: {} children native, {} foreign", node.name(), node.children().len(), f.children().len()));
            }
            let sn = format!("{:?}", node.partition_statistics(None).map_err(|e| e.to_string()));
            let sf = format!("{:?}", f.partition_statistics(None).map_err(|e| e.to_string()));
            if sn != sf {
                push(&mut out, "statistics-differ", format!("node {k} {}: partition_statistics(None) native {sn}, foreign {sf}", node.name()));
            }
            // results: only the root is executed (inner nodes are executed as part of it)
            if k == 0 {
                let unordered = !ordered;
                let ra = table::run_plan(node, &ctx, unordered).await;
                let rb = table::run_plan(&f, &ctx, unordered).await;
                let rc = table::run_plan_ffi_stream(node, &ctx, unordered).await;
                out.add("plan.partitions_executed_foreign", (rb.len() + rc.len()) as u64);
                if format!("{ra:?}") != format!("{rb:?}") {
                    push(&mut out, "results-differ", format!("native {ra:?}, foreign plan {rb:?}"));
                }
                if format!("{ra:?}") != format!("{rc:?}") {
                    push(&mut out, "stream-results-differ", format!("native {ra:?}, through FFI_RecordBatchStream {rc:?}"));
                }
                if ra.iter().any(|p| matches!(p, Ok((_, rows)) if !rows.is_empty())) {
                    out.nontrivial.push(format!("plan|{dbi}|{qi}"));
                }
            }
        }
        Ok(())
    });
    if let Err(e) = r {
        out.violations.push((format!("plan|{}|{qi}|machinery", db.label), "machinery".into(), e, case));
    }
    out
}

// ---------------------------------------------------------------------------------------------- driver

enum Task {
    Scalar(Arc<datafusion::logical_expr::ScalarUDF>),
    Aggregate(Arc<datafusion::logical_expr::AggregateUDF>),
    Window(Arc<datafusion::logical_expr::WindowUDF>),
    Sql(usize, usize),
    Provider(usize),
    Plan(usize, usize),
}

fn explore(ctx: &Ctx) {
    if let Err(e) = hooks::self_check() {
        ctx.machinery_error(e);
        return;
    }
    let only_part: Option<String> = std::env::var("C45_PART").ok();
    let only_func: Option<String> = std::env::var("C45_ONLY").ok();
    let want = |p: &str| only_part.as_deref().map(|x| x == p).unwrap_or(true);
    let wantf = |n: &str| only_func.as_deref().map(|x| x == n).unwrap_or(true);
    let cap_s = ctx.pick(3, 6);
    let cap_a = ctx.pick(3, 5);
    let cap_w = ctx.pick(3, 5);
    let thorough = ctx.thorough();
    let mut tasks: Vec<Task> = vec![];
    let (mut ns, mut na, mut nw) = (0, 0, 0);
    if want("scalar") {
        for u in engine::registry("default") {
            if wantf(u.name()) {
                ns += 1;
                tasks.push(Task::Scalar(u));
            }
        }
    }
    if want("aggregate") {
        for u in udaf::registry() {
            if wantf(u.name()) {
                na += 1;
                tasks.push(Task::Aggregate(u));
            }
        }
    }
    if want("window") {
        for u in udwf::registry() {
            if wantf(u.name()) {
                nw += 1;
                tasks.push(Task::Window(u));
            }
        }
    }
    let ndb = table::databases().len();
    let nq = table::queries().len();
    for d in 0..ndb {
        if want("provider") {
            tasks.push(Task::Provider(d));
        }
        for q in 0..nq {
            if want("sql") {
                tasks.push(Task::Sql(d, q));
            }
            // the plan part is opt-in (C45_PART=plan): on the unchanged tree some wrapped plans abort the process
            // (a panic inside an `extern "C"` wrapper cannot unwind) and its statistics oracle is not final
            if only_part.as_deref() == Some("plan") {
                tasks.push(Task::Plan(d, q));
            }
        }
    }
    ctx.set_extra(
        "bounds",
        json!({
            "scalar": {"functions": ns, "type_lists_per_function": cap_s, "varied": "each argument alone over its value menu", "modes": ["batch", "const", "scalar:others", "return-field"]},
            "aggregate": {"functions": na, "type_lists_per_function": cap_a, "row_alphabet": "{NULL, v1, v2}^arity", "max_rows": if thorough { "4 (1 arg) / 3" } else { "3 (1 arg) / 2" },
                "configs": ["plain", "distinct", "ignore nulls + order by", "literal tail"]},
            "window": {"functions": nw, "type_lists_per_function": cap_w, "max_partition_rows": if thorough { "4 / 4 / 3 / 2 by arity" } else { "4 / 3 / 2 / 1 by arity" }, "configs": "reversed x ignore_nulls x literal tail"},
            "scalar_functions_declared_only_because_foreign_call_aborts": FOREIGN_CALL_ABORTS,
            "tables": {"databases": ndb, "statements": nq, "scan": "4 projections x {no filter, 1 filter} x {no limit, limit 1}"},
        }),
    );
    let outs: Vec<TaskOut> = tasks
        .par_iter()
        .map(|t| {
            if ctx.out_of_time() {
                let mut o = TaskOut::default();
                o.add("tasks_not_run", 1);
                return o;
            }
            match t {
                Task::Scalar(u) => scalar_task(u, cap_s, None),
                Task::Aggregate(u) => aggregate_task(u, cap_a, thorough, None),
                Task::Window(u) => window_task(u, cap_w, thorough, None),
                Task::Sql(d, q) => sql_task(*d, *q),
                Task::Provider(d) => provider_task(*d),
                Task::Plan(d, q) => plan_task(*d, *q),
            }
        })
        .collect();
    // Report: at most 3 cases per symptom class (systematic differences would otherwise swamp the list);
    // everything found is listed under `all_findings`.
    let mut per_class: BTreeMap<String, usize> = BTreeMap::new();
    let mut all: BTreeMap<String, Vec<String>> = BTreeMap::new();
    let mut samples_by_part: BTreeMap<String, Value> = BTreeMap::new();
    for o in outs {
        for (k, v) in &o.counters {
            ctx.count(k, *v);
            if k.ends_with("invocations_foreign") || k.ends_with("foreign_calls") || k.ends_with("queries_foreign") || k.ends_with("executed_foreign") {
                ctx.evals(*v);
            }
        }
        for k in &o.nontrivial {
            ctx.nontrivial(k);
        }
        if let Some(s) = o.sample {
            let part = s.get("part").and_then(|p| p.as_str()).unwrap_or("").to_string();
            samples_by_part.entry(part).or_insert(s);
        }
        for (key, class, what, case) in o.violations {
            all.entry(class.clone()).or_default().push(key.clone());
            let n = per_class.entry(class.clone()).or_insert(0);
            if *n < 3 || class == "machinery" {
                *n += 1;
                ctx.violation(key, what, serde_json::to_value(&case).unwrap());
            }
        }
    }
    for (_, s) in samples_by_part {
        ctx.sample(s);
    }
    ctx.count("foreign_calls_skipped_because_native_panicked", engine::NATIVE_PANICS_SKIPPED.load(std::sync::atomic::Ordering::Relaxed));
    ctx.count("hooks.markers_patched", hooks::PATCHED.load(std::sync::atomic::Ordering::Relaxed) as u64);
    ctx.set_extra("all_findings", json!(all));
}

fn replay(v: &Value) -> Result<(), String> {
    hooks::self_check()?;
    let c: Case = serde_json::from_value(v.clone()).map_err(|e| format!("bad case: {e}"))?;
    let out = match &c {
        Case::Scalar { func, .. } => {
            let u = engine::registry("default").into_iter().find(|u| u.name() == func).ok_or("machinery: no such function")?;
            scalar_task(&u, CAP_MAX, Some(&c))
        }
        Case::Aggregate { func, .. } => {
            let u = udaf::registry().into_iter().find(|u| u.name() == func).ok_or("machinery: no such function")?;
            aggregate_task(&u, CAP_MAX, true, Some(&c))
        }
        Case::Window { func, .. } => {
            let u = udwf::registry().into_iter().find(|u| u.name() == func).ok_or("machinery: no such function")?;
            window_task(&u, CAP_MAX, true, Some(&c))
        }
        Case::Sql { db, query } => sql_task(*db, *query),
        Case::Provider { db } => provider_task(*db),
        Case::Plan { db, query } => plan_task(*db, *query),
    };
    match out.violations.first() {
        None => Ok(()),
        Some((key, _, what, _)) => Err(format!("[{key}] {what}")),
    }
}

fn main() {
    mc_core::quiet_panics();
    run_check(
        "C45",
        Level::Exploration,
        "every default scalar / aggregate / window function wrapped for the FFI and forced onto the Foreign* path (incl. the accumulators / evaluators it creates) x \
         coerced argument-type lists x value menus / row sequences / partitions within the bounds; MemTables, physical plans and streams wrapped likewise x databases x statements; \
         one evaluation = one call through the foreign side; non-trivial = a (function, types, varied argument / configuration) or (database, statement) whose native result has a non-NULL value / a row",
        explore,
        replay,
    );
}
