//! C37 — a Substrait round trip preserves query results.
//!
//! Enumerated: every grammar query (tier list) × {unoptimised, optimised} logical plan × the 12
//! rich databases.  Route: `to_substrait_plan(plan, state A)` → `from_substrait_plan(state B, ..)`
//! where B is a *fresh* session holding the same tables → `execute_logical_plan` in B.  Oracle: the
//! rows equal those of the original plan executed in A (multiset; sequence up to ties when the
//! query has a top-level ORDER BY; row count under LIMIT without a total order) and the output
//! column types are the same Arrow types.  A producer or consumer error is a counted rejection
//! ("any *supported* logical plan"); a plan the consumer accepted must execute whenever the
//! original executes.
//!
//! Debug helper: `c37 --sql "<text>" [--opt] [--db LABEL]`.
use chk_sql::sqlmc::db::{self, Database};
use chk_sql::sqlmc::engine;
use chk_sql::sqlmc::grammar::{self, GenQuery, QueryFlags, Tier};
use chk_sql::sqlmc::value::show_rows;
use chk_sql::sqlmc::{ContextOptions, OrderSpec, compare_engine_results};
use datafusion::logical_expr::LogicalPlan;
use datafusion::prelude::SessionContext;
use datafusion_substrait::logical_plan::consumer::from_substrait_plan;
use datafusion_substrait::logical_plan::producer::to_substrait_plan;
use mc_core::serde_json::{Value as Json, json};
use mc_core::{Ctx, Level, rayon::prelude::*, run_check};
use serde::{Deserialize, Serialize};
use std::collections::BTreeMap;
use std::sync::Mutex;

#[derive(Serialize, Deserialize, Clone, Debug)]
struct Case {
    sql: String,
    optimized: bool,
    db_label: String,
    db: Database,
    flags: QueryFlags,
}

#[derive(Debug, Clone)]
struct Fail {
    cause: String,
    what: String,
}

#[derive(Debug, Default, Clone)]
struct Stats {
    planned: bool,
    producer_rejected: Option<String>,
    consumer_rejected: Option<String>,
    nonempty: bool,
    both_failed: bool,
    names_differ: bool,
    rows: usize,
    plan_text: String,
    back_text: String,
}

/// Error text with numbers, quoted text and embedded expression text masked.
fn normalise_error(e: &str) -> String {
    let mut first = e.lines().next().unwrap_or("").to_string();
    for wrapper in ["Error during planning: ", "DataFusion error: ", "General error: ", "Internal error: ", "plan error: ", "execution error: ", "Execution error: "] {
        first = first.replace(wrapper, "");
    }
    let mut out = String::new();
    let mut in_digits = false;
    let mut quote: Option<char> = None;
    for ch in first.chars() {
        if let Some(q) = quote {
            if ch == q {
                quote = None;
                out.push('_');
                out.push(ch);
            }
            continue;
        }
        if ch == '\'' || ch == '"' || ch == '`' {
            quote = Some(ch);
            out.push(ch);
            continue;
        }
        if ch.is_ascii_digit() {
            if !in_digits {
                out.push('N');
            }
            in_digits = true;
        } else {
            in_digits = false;
            out.push(ch);
        }
    }
    // messages often end with the offending expression or type: keep the fixed head
    for cut in [": ", " for ", " in "] {
        if out.len() > 90 {
            if let Some(p) = out[40..].find(cut) {
                out.truncate(40 + p);
            }
        }
    }
    out.chars().take(110).collect()
}

fn build_plan(ctx: &SessionContext, sql: &str, optimized: bool) -> Result<LogicalPlan, String> {
    let plan = engine::plan_sql(ctx, sql)?;
    if optimized { mc_core::catch(|| ctx.state().optimize(&plan).map_err(|e| format!("optimizer error: {e}"))).unwrap_or_else(Err) } else { Ok(plan) }
}

fn demo() -> Option<String> {
    std::env::var("C37_DEMO").ok()
}

/// DETECTION DEMO: deterministic corruption of the plan that came back from Substrait.
fn corrupt(p: LogicalPlan, how: &str) -> LogicalPlan {
    use datafusion::common::tree_node::{Transformed, TreeNode};
    use datafusion::logical_expr::JoinType;
    match how {
        // "a join type mapped wrongly to Substrait": LEFT comes back as INNER
        "left_join_becomes_inner" => p
            .transform_up(|n| match n {
                LogicalPlan::Join(mut j) if j.join_type == JoinType::Left => {
                    j.join_type = JoinType::Inner;
                    Ok(Transformed::yes(LogicalPlan::Join(j)))
                }
                n => Ok(Transformed::no(n)),
            })
            .unwrap()
            .data,
        // sort direction lost
        "sort_direction_lost" => p
            .transform_up(|n| match n {
                LogicalPlan::Sort(mut s) if s.expr.iter().any(|e| !e.asc) => {
                    for e in s.expr.iter_mut() {
                        e.asc = true;
                    }
                    Ok(Transformed::yes(LogicalPlan::Sort(s)))
                }
                n => Ok(Transformed::no(n)),
            })
            .unwrap()
            .data,
        _ => p,
    }
}

/// Confirmed root causes (triaged on the unchanged tree, see the final report): maps a failing
/// case to one fixed key per root cause.  First match wins; otherwise the per-query default key.
fn attribute(_sql: &str, plan_text: &str, back_text: &str, _what: &str) -> Option<&'static str> {
    if plan_text.contains("null_aware") && !back_text.contains("null_aware") {
        // NOT IN: the null-aware flag of the LeftAnti join is not carried through Substrait
        return Some("anti_join_null_aware_flag_lost");
    }
    // RANGE frames with numeric offsets: unoptimised plans come back UNBOUNDED..UNBOUNDED, optimised plans keep the
    // text but return different rows (the typed offset literal is not preserved)
    // (every RANGE frame of the plan is inspected: a query may hold several windows)
    for (p, _) in plan_text.match_indices("RANGE BETWEEN ") {
        let rest = &plan_text[p + "RANGE BETWEEN ".len()..];
        if rest.chars().next().map(|c| c.is_ascii_digit()).unwrap_or(false) || rest.contains(" AND 1 ") {
            return Some("range_frame_offsets_not_preserved");
        }
    }
    if plan_text.contains("outer_ref(") && plan_text.contains("SubqueryAlias:") && !back_text.contains("SubqueryAlias:") {
        // the producer drops SubqueryAlias; a correlated subquery over the same table then compares a column with itself
        return Some("table_alias_dropped_in_correlated_subquery_over_the_same_table");
    }
    None
}

fn check(ctx_a: &SessionContext, ctx_b: &SessionContext, sql: &str, optimized: bool, flags: &QueryFlags) -> (Stats, Option<Fail>) {
    let mut st = Stats::default();
    let plan = match build_plan(ctx_a, sql, optimized) {
        Ok(p) => p,
        Err(_) => return (st, None),
    };
    st.planned = true;
    st.plan_text = format!("{}", plan.display_indent());
    let sub = match mc_core::catch(|| to_substrait_plan(&plan, &ctx_a.state())) {
        Ok(Ok(s)) => s,
        Ok(Err(e)) => {
            st.producer_rejected = Some(normalise_error(&e.to_string()));
            return (st, None);
        }
        Err(p) => return (st, Some(Fail { cause: format!("producer_panic:{}", normalise_error(&p)), what: format!("to_substrait_plan panicked for {sql} (optimized={optimized}): {p}") })),
    };
    let back = match mc_core::catch(|| engine::block_on(from_substrait_plan(&ctx_b.state(), &sub))) {
        Ok(Ok(p)) => p,
        Ok(Err(e)) => {
            st.consumer_rejected = Some(normalise_error(&e.to_string()));
            return (st, None);
        }
        Err(p) => {
            let f = Fail { cause: format!("consumer_panic:{}", normalise_error(&p)), what: format!("from_substrait_plan panicked for {sql} (optimized={optimized}): {p}") };
            return (st, Some(f));
        }
    };
    let back = match demo() {
        Some(how) => corrupt(back, &how),
        None => back,
    };
    st.back_text = format!("{}", back.display_indent());
    let r0 = engine::run_plan(ctx_a, plan);
    let r1 = engine::run_plan(ctx_b, back);
    let plans = format!("original plan:\n{}\nplan after the Substrait round trip:\n{}", st.plan_text, st.back_text);
    let mk = |default_key: String, what: String| -> Fail {
        let cause = attribute(sql, &st.plan_text, &st.back_text, &what).map(|s| s.to_string()).unwrap_or(default_key);
        Fail { cause, what: format!("{what}\n{plans}") }
    };
    let fail = match (r0, r1) {
        (Ok(a), Ok(b)) => {
            let spec: OrderSpec = flags.into();
            st.rows = a.rows.len();
            st.nonempty = !a.rows.is_empty();
            st.names_differ = a.names != b.names;
            if let Err(w) = compare_engine_results(&a.rows, &b.rows, &spec) {
                Some(mk(format!("rows_changed:{sql}"), format!("{sql} (optimized={optimized}): the plan that came back from Substrait returns different rows: {w}")))
            } else if a.arrow_types != b.arrow_types {
                Some(mk(
                    format!("output_types_changed:{}", type_change_signature(&a.arrow_types, &b.arrow_types)),
                    format!("{sql} (optimized={optimized}): same rows but output types {:?} became {:?}", a.arrow_types, b.arrow_types),
                ))
            } else {
                None
            }
        }
        (Err(_), Err(_)) => {
            st.both_failed = true;
            None
        }
        (Ok(a), Err(e)) => Some(mk(
            format!("round_tripped_plan_fails:{}", normalise_error(&e)),
            format!("{sql} (optimized={optimized}): the original plan returns {} but the plan that came back from Substrait fails: {e}", show_rows(&a.rows)),
        )),
        (Err(e), Ok(b)) => Some(mk(
            format!("only_original_fails:{}", normalise_error(&e)),
            format!("{sql} (optimized={optimized}): the original plan fails ({e}) but the plan that came back from Substrait returns {}", show_rows(&b.rows)),
        )),
    };
    (st, fail)
}

/// `Int32->Int64,Utf8View->Utf8`: the set of distinct per-column type changes.
fn type_change_signature(a: &[String], b: &[String]) -> String {
    if a.len() != b.len() {
        return format!("{} columns became {}", a.len(), b.len());
    }
    let mut v: Vec<String> = a.iter().zip(b).filter(|(x, y)| x != y).map(|(x, y)| format!("{x}->{y}")).collect();
    v.sort();
    v.dedup();
    v.join(",")
}

fn sessions(dbv: &Database) -> Result<(SessionContext, SessionContext), String> {
    Ok((engine::make_context(dbv, &ContextOptions::default())?, engine::make_context(dbv, &ContextOptions::default())?))
}

fn run_case(c: &Case) -> Result<(), Fail> {
    let (a, b) = sessions(&c.db).map_err(|e| Fail { cause: "machinery".into(), what: e })?;
    match check(&a, &b, &c.sql, c.optimized, &c.flags).1 {
        Some(f) => Err(f),
        None => Ok(()),
    }
}

type FailMap = Mutex<BTreeMap<String, ((usize, bool, usize, String), String, Case, u64)>>;

fn explore(ctx: &Ctx) {
    let tier = ctx.pick(Tier::Quick, Tier::Thorough);
    let qs: Vec<GenQuery> = grammar::queries(tier);
    let dbs = db::rich_databases();
    ctx.set_extra(
        "bounds",
        json!({"queries": qs.len(), "plan_forms": ["unoptimized", "optimized"], "databases": dbs.iter().map(|d| d.0.clone()).collect::<Vec<_>>(),
               "config": "default, target_partitions=1; consumer runs in a fresh SessionContext with the same MemTables"}),
    );
    let fails: FailMap = Mutex::new(BTreeMap::new());
    let rejected: Mutex<BTreeMap<String, (u64, String)>> = Mutex::new(BTreeMap::new());
    let accepted_tags: Mutex<BTreeMap<String, u64>> = Mutex::new(BTreeMap::new());
    let chunk = 24usize;
    let mut work: Vec<(usize, usize)> = vec![];
    for q0 in (0..qs.len()).step_by(chunk) {
        for di in 0..dbs.len() {
            work.push((di, q0));
        }
    }
    let samples = std::sync::atomic::AtomicUsize::new(0);
    work.par_iter().for_each(|(di, q0)| {
        if ctx.out_of_time() {
            return;
        }
        let (label, dbv) = &dbs[*di];
        let (a, b) = match sessions(dbv) {
            Ok(x) => x,
            Err(e) => {
                ctx.machinery_error(format!("cannot build sessions: {e}"));
                return;
            }
        };
        for qi in *q0..(*q0 + chunk).min(qs.len()) {
            let q = &qs[qi];
            for optimized in [false, true] {
                if ctx.out_of_time() {
                    return;
                }
                let (st, f) = check(&a, &b, &q.sql, optimized, &q.flags);
                if !st.planned {
                    ctx.count("plans_not_built_by_direct_route", 1);
                    continue;
                }
                ctx.eval();
                ctx.count(if optimized { "cases_optimized" } else { "cases_unoptimized" }, 1);
                if let Some(f) = f {
                    ctx.count("cases_failed", 1);
                    let case = Case { sql: q.sql.clone(), optimized, db_label: label.clone(), db: dbv.clone(), flags: q.flags.clone() };
                    let rank = (qi, optimized, dbv.total_rows(), label.clone());
                    let mut m = fails.lock().unwrap();
                    match m.get_mut(&f.cause) {
                        Some(e) => {
                            e.3 += 1;
                            if rank < e.0 {
                                *e = (rank, f.what, case, e.3);
                            }
                        }
                        None => {
                            m.insert(f.cause, (rank, f.what, case, 1));
                        }
                    }
                    continue;
                }
                if let Some(why) = st.producer_rejected {
                    ctx.count("cases_producer_rejected", 1);
                    let mut r = rejected.lock().unwrap();
                    let e = r.entry(format!("producer: {why}")).or_insert((0, format!("{} (optimized={optimized})", q.sql)));
                    e.0 += 1;
                    continue;
                }
                if let Some(why) = st.consumer_rejected {
                    ctx.count("cases_consumer_rejected", 1);
                    let mut r = rejected.lock().unwrap();
                    let e = r.entry(format!("consumer: {why}")).or_insert((0, format!("{} (optimized={optimized})", q.sql)));
                    e.0 += 1;
                    continue;
                }
                ctx.count("cases_round_tripped_and_compared", 1);
                if st.both_failed {
                    ctx.count("cases_both_plans_fail_at_run_time", 1);
                }
                if st.names_differ {
                    ctx.count("cases_with_different_output_column_names (informational)", 1);
                }
                if *di == 0 {
                    let mut t = accepted_tags.lock().unwrap();
                    for tag in &q.tags {
                        *t.entry(tag.clone()).or_insert(0) += 1;
                    }
                }
                if st.nonempty {
                    ctx.nontrivial(&(&q.sql, optimized, label));
                    if st.rows >= 2 && q.size > 14 && samples.fetch_add(1, std::sync::atomic::Ordering::Relaxed) < 4 {
                        ctx.sample(json!({"sql": q.sql, "optimized": optimized, "db": label, "result_rows": st.rows, "plan_after_round_trip": st.back_text}));
                    }
                }
            }
        }
    });
    let rj = rejected.into_inner().unwrap();
    ctx.set_extra("rejections", json!(rj.iter().map(|(k, (n, ex))| json!({"reason": k, "cases": n, "example": ex})).collect::<Vec<_>>()));
    ctx.set_extra("constructs_round_tripped (query tags -> plan forms accepted, first database)", json!(accepted_tags.into_inner().unwrap()));
    for (cause, (_, what, case, n)) in fails.into_inner().unwrap() {
        ctx.count(&format!("cases_attributed_to:{cause}"), n);
        ctx.violation(cause, format!("{what}\n[{n} case(s) share this key; this is the smallest]"), serde_json::to_value(&case).unwrap());
    }
}

fn replay(v: &Json) -> Result<(), String> {
    let c: Case = serde_json::from_value(v.clone()).map_err(|e| format!("bad case: {e}"))?;
    run_case(&c).map_err(|f| format!("[{}] {}", f.cause, f.what))
}

fn debug_main(args: &[String]) -> bool {
    if let Some(p) = args.iter().position(|a| a == "--sql") {
        let sql = args.get(p + 1).cloned().unwrap_or_default();
        let optimized = args.iter().any(|a| a == "--opt");
        let label = args.iter().position(|a| a == "--db").and_then(|i| args.get(i + 1)).cloned().unwrap_or("all_distinct".into());
        let dbv = db::rich_databases().into_iter().find(|(l, _)| *l == label).map(|x| x.1).unwrap_or_else(Database::empty);
        let (a, b) = sessions(&dbv).unwrap();
        let (st, f) = check(&a, &b, &sql, optimized, &QueryFlags::default());
        println!("original:\n{}\nround-tripped:\n{}", st.plan_text, st.back_text);
        println!("producer_rejected={:?} consumer_rejected={:?} rows={} both_failed={}", st.producer_rejected, st.consumer_rejected, st.rows, st.both_failed);
        if let Some(f) = f {
            println!("FAIL [{}] {}", f.cause, f.what);
        }
        return true;
    }
    false
}

fn main() {
    if debug_main(&mc_core::extra_args()) {
        return;
    }
    mc_core::quiet_panics();
    run_check(
        "C37",
        Level::Exploration,
        "every grammar query x {unoptimized, optimized} logical plan x 12 rich databases: to_substrait_plan in session A, from_substrait_plan in a fresh session B with the same tables, \
         both plans executed: same rows (multiset / sequence up to ties under ORDER BY / count under LIMIT) and same Arrow output types; producer and consumer errors are counted rejections; \
         non-trivial = distinct (query, plan form, database) accepted by both directions whose result is non-empty",
        explore,
        replay,
    );
}
