//! Value menus: for every supported `DataType` a small array of representative
//! values (index 0 = NULL, 1 = empty / zero, 2 = "typical", …), plus the list of
//! probe type lists and the pool of "meaningful" strings used to find argument
//! values a picky function accepts.
#![allow(dead_code)]

use std::sync::Arc;

use arrow::array::*;
use arrow::buffer::{NullBuffer, OffsetBuffer, ScalarBuffer};
use arrow::datatypes::*;

/// Core string menu: NULL, empty, ASCII, multibyte, > 12 bytes (out-of-line in a view array).
pub const CORE_STR: [Option<&str>; 5] = [
    None,
    Some(""),
    Some("abc"),
    Some("\u{dc}n\u{ef} \u{1f600}b"),
    Some("The Quick brown fox, 12345 \u{e9}"),
];

/// Pool of strings that mean something to some function (date parts, encodings,
/// digests, time zones, formats, timestamps, numbers, regular expressions, …).
pub const POOL: [&str; 36] = [
    "year",
    "hex",
    "sha256",
    "UTC",
    "%Y-%m-%d %H:%M:%S",
    "2020-02-29T23:59:58.123456789",
    "2020-02-29",
    "12",
    "-3.5",
    "(b)(c)?",
    "[a-c]+",
    "i",
    "1 day 2 hours",
    "base64",
    "month",
    "+02:00",
    "America/New_York",
    "md5",
    "yyyy-MM-dd",
    "23:59:58",
    "true",
    "{\"a\": [1, 2]}",
    "http://u:p@h.com:80/p?q=1#f",
    "Int64",
    "utf-8",
    ",",
    "a",
    "bc",
    "millisecond",
    "%d/%m/%Y",
    "29/02/2020",
    "NFC",
    "both",
    "a=1,b=2",
    "%b%",
    "0",
];

pub fn is_string(dt: &DataType) -> bool {
    matches!(dt, DataType::Utf8 | DataType::LargeUtf8 | DataType::Utf8View)
}
pub fn is_binary(dt: &DataType) -> bool {
    matches!(dt, DataType::Binary | DataType::LargeBinary | DataType::BinaryView)
}

/// The other members of the string / binary flavour family of `dt`.
pub fn flavours(dt: &DataType) -> Vec<DataType> {
    let fam: &[DataType] = if is_string(dt) {
        &[DataType::Utf8, DataType::LargeUtf8, DataType::Utf8View]
    } else if is_binary(dt) {
        &[DataType::Binary, DataType::LargeBinary, DataType::BinaryView]
    } else {
        &[]
    };
    fam.iter().filter(|f| *f != dt).cloned().collect()
}

pub fn flavour_name(dt: &DataType) -> &'static str {
    match dt {
        DataType::Utf8 | DataType::Binary => "small",
        DataType::LargeUtf8 | DataType::LargeBinary => "large",
        DataType::Utf8View | DataType::BinaryView => "view",
        _ => "other",
    }
}

/// Replace signature wildcards (time zone "+TZ", fixed-size-list size i32::MIN) by concrete choices.
pub fn concretize(dt: &DataType) -> DataType {
    match dt {
        DataType::Timestamp(u, Some(tz)) if tz.as_ref() == "+TZ" => DataType::Timestamp(*u, Some("+02:00".into())),
        DataType::FixedSizeList(f, n) => {
            let n = if *n < 0 { 2 } else { *n };
            DataType::FixedSizeList(Arc::new(f.as_ref().clone().with_data_type(concretize(f.data_type()))), n)
        }
        DataType::List(f) => DataType::List(Arc::new(f.as_ref().clone().with_data_type(concretize(f.data_type())))),
        DataType::LargeList(f) => DataType::LargeList(Arc::new(f.as_ref().clone().with_data_type(concretize(f.data_type())))),
        other => other.clone(),
    }
}

macro_rules! prim {
    ($t:ty, $vals:expr) => {{
        let v: Vec<Option<<$t as ArrowPrimitiveType>::Native>> = $vals;
        Arc::new(PrimitiveArray::<$t>::from(v)) as ArrayRef
    }};
}

macro_rules! sint {
    ($t:ty, $n:ty) => {
        prim!($t, vec![None, Some(0), Some(1), Some(-1), Some(2), Some(13), Some(<$n>::MAX), Some(<$n>::MIN)])
    };
}
macro_rules! uint {
    ($t:ty, $n:ty) => {
        prim!($t, vec![None, Some(0), Some(1), Some(2), Some(3), Some(13), Some(<$n>::MAX)])
    };
}

fn str_values(extra: &[String]) -> Vec<Option<String>> {
    let mut v: Vec<Option<String>> = CORE_STR.iter().map(|s| s.map(|x| x.to_string())).collect();
    for e in extra {
        if !v.iter().any(|x| x.as_deref() == Some(e.as_str())) {
            v.push(Some(e.clone()));
        }
    }
    v
}

fn bin_values() -> Vec<Option<Vec<u8>>> {
    vec![
        None,
        Some(vec![]),
        Some(b"abc".to_vec()),
        Some(vec![0xff, 0x00, 0xfe]),
        Some("\u{dc}n\u{ef} \u{1f600}b".as_bytes().to_vec()),
        Some(b"0123456789abcdef\x00\x01".to_vec()),
    ]
}

fn pow10(p: u32) -> i128 {
    10i128.pow(p)
}

/// Raw decimal menu for precision p / scale s, clipped to the representable range of `max_abs`.
fn dec_raw(p: u8, s: i8) -> Vec<Option<i128>> {
    let max = pow10(p as u32) - 1;
    let one = if s >= 0 && (s as u32) < p as u32 { pow10(s as u32) } else { 1 };
    let mut v = vec![None, Some(0), Some(one), Some(-one), Some(1), Some(max), Some(-max)];
    if one * 25 / 10 <= max {
        v.insert(4, Some(one * 25 / 10));
    }
    v
}

/// The menu of values of type `dt` as one array; `extra` = additional strings for top-level string types.
pub fn menu_array(dt: &DataType, extra: &[String]) -> Option<ArrayRef> {
    use DataType::*;
    Some(match dt {
        Null => Arc::new(NullArray::new(2)) as ArrayRef,
        Boolean => Arc::new(BooleanArray::from(vec![None, Some(false), Some(true)])),
        Int8 => sint!(Int8Type, i8),
        Int16 => sint!(Int16Type, i16),
        Int32 => sint!(Int32Type, i32),
        Int64 => sint!(Int64Type, i64),
        UInt8 => uint!(UInt8Type, u8),
        UInt16 => uint!(UInt16Type, u16),
        UInt32 => uint!(UInt32Type, u32),
        UInt64 => uint!(UInt64Type, u64),
        Float16 => {
            use half::f16;
            prim!(
                Float16Type,
                vec![None, Some(f16::from_f32(0.0)), Some(f16::from_f32(1.5)), Some(f16::from_f32(-2.5)), Some(f16::NEG_ZERO), Some(f16::NAN), Some(f16::INFINITY), Some(f16::MAX)]
            )
        }
        Float32 => prim!(Float32Type, vec![None, Some(0.0), Some(1.5), Some(-2.5), Some(-0.0), Some(f32::NAN), Some(f32::INFINITY), Some(f32::MAX)]),
        Float64 => prim!(Float64Type, vec![None, Some(0.0), Some(1.5), Some(-2.5), Some(-0.0), Some(f64::NAN), Some(f64::INFINITY), Some(f64::MAX)]),
        Decimal32(p, s) => {
            let v: Vec<Option<i32>> = dec_raw(*p, *s).into_iter().map(|x| x.map(|y| y as i32)).collect();
            Arc::new(Decimal32Array::from(v).with_precision_and_scale(*p, *s).ok()?)
        }
        Decimal64(p, s) => {
            let v: Vec<Option<i64>> = dec_raw(*p, *s).into_iter().map(|x| x.map(|y| y as i64)).collect();
            Arc::new(Decimal64Array::from(v).with_precision_and_scale(*p, *s).ok()?)
        }
        Decimal128(p, s) => Arc::new(Decimal128Array::from(dec_raw(*p, *s)).with_precision_and_scale(*p, *s).ok()?),
        Decimal256(p, s) => {
            let v: Vec<Option<i256>> = dec_raw((*p).min(38), *s).into_iter().map(|x| x.map(i256::from_i128)).collect();
            Arc::new(Decimal256Array::from(v).with_precision_and_scale(*p, *s).ok()?)
        }
        // 18321 = 2020-02-29
        Date32 => prim!(Date32Type, vec![None, Some(0), Some(18321), Some(-1), Some(19000), Some(2932896), Some(i32::MAX), Some(i32::MIN)]),
        Date64 => prim!(
            Date64Type,
            vec![None, Some(0), Some(18321 * 86_400_000), Some(-86_400_000), Some(19000 * 86_400_000), Some(i64::MAX), Some(i64::MIN)]
        ),
        Time32(TimeUnit::Second) => prim!(Time32SecondType, vec![None, Some(0), Some(3723), Some(86399), Some(1)]),
        Time32(TimeUnit::Millisecond) => prim!(Time32MillisecondType, vec![None, Some(0), Some(3_723_004), Some(86_399_999), Some(1)]),
        Time64(TimeUnit::Microsecond) => prim!(Time64MicrosecondType, vec![None, Some(0), Some(3_723_004_005), Some(86_399_999_999), Some(1)]),
        Time64(TimeUnit::Nanosecond) => prim!(Time64NanosecondType, vec![None, Some(0), Some(3_723_004_005_006), Some(86_399_999_999_999), Some(1)]),
        Timestamp(u, tz) => {
            // 2020-02-29T23:59:58.123456789Z
            let ns: i128 = 1_583_020_798_123_456_789;
            let div: i128 = match u {
                TimeUnit::Second => 1_000_000_000,
                TimeUnit::Millisecond => 1_000_000,
                TimeUnit::Microsecond => 1_000,
                TimeUnit::Nanosecond => 1,
            };
            let typical = (ns / div) as i64;
            let other = ((ns - 400 * 86_400 * 1_000_000_000) / div) as i64;
            let v = vec![None, Some(0), Some(typical), Some(-1), Some(other), Some(i64::MAX), Some(i64::MIN)];
            match u {
                TimeUnit::Second => Arc::new(TimestampSecondArray::from(v).with_timezone_opt(tz.clone())) as ArrayRef,
                TimeUnit::Millisecond => Arc::new(TimestampMillisecondArray::from(v).with_timezone_opt(tz.clone())),
                TimeUnit::Microsecond => Arc::new(TimestampMicrosecondArray::from(v).with_timezone_opt(tz.clone())),
                TimeUnit::Nanosecond => Arc::new(TimestampNanosecondArray::from(v).with_timezone_opt(tz.clone())),
            }
        }
        Duration(u) => {
            let day: i64 = match u {
                TimeUnit::Second => 86_400,
                TimeUnit::Millisecond => 86_400_000,
                TimeUnit::Microsecond => 86_400_000_000,
                TimeUnit::Nanosecond => 86_400_000_000_000,
            };
            let v = vec![None, Some(0), Some(day + 1), Some(-1), Some(7), Some(i64::MAX), Some(i64::MIN)];
            match u {
                TimeUnit::Second => Arc::new(DurationSecondArray::from(v)) as ArrayRef,
                TimeUnit::Millisecond => Arc::new(DurationMillisecondArray::from(v)),
                TimeUnit::Microsecond => Arc::new(DurationMicrosecondArray::from(v)),
                TimeUnit::Nanosecond => Arc::new(DurationNanosecondArray::from(v)),
            }
        }
        Interval(IntervalUnit::YearMonth) => prim!(IntervalYearMonthType, vec![None, Some(0), Some(14), Some(-1), Some(1), Some(i32::MAX)]),
        Interval(IntervalUnit::DayTime) => prim!(
            IntervalDayTimeType,
            vec![
                None,
                Some(IntervalDayTime::new(0, 0)),
                Some(IntervalDayTime::new(1, 3_600_000)),
                Some(IntervalDayTime::new(-1, -1)),
                Some(IntervalDayTime::new(0, 1)),
                Some(IntervalDayTime::new(i32::MAX, i32::MAX)),
            ]
        ),
        Interval(IntervalUnit::MonthDayNano) => prim!(
            IntervalMonthDayNanoType,
            vec![
                None,
                Some(IntervalMonthDayNano::new(0, 0, 0)),
                Some(IntervalMonthDayNano::new(1, 2, 3_000_000_000)),
                Some(IntervalMonthDayNano::new(-1, -1, -1)),
                Some(IntervalMonthDayNano::new(0, 1, 0)),
                Some(IntervalMonthDayNano::new(i32::MAX, i32::MAX, i64::MAX)),
            ]
        ),
        Utf8 => Arc::new(StringArray::from(str_values(extra))),
        LargeUtf8 => Arc::new(LargeStringArray::from(str_values(extra))),
        Utf8View => Arc::new(StringViewArray::from_iter(str_values(extra))),
        Binary => Arc::new(BinaryArray::from_iter(bin_values())),
        LargeBinary => Arc::new(LargeBinaryArray::from_iter(bin_values())),
        BinaryView => Arc::new(BinaryViewArray::from_iter(bin_values())),
        FixedSizeBinary(n) => {
            let n = *n as usize;
            if n == 0 {
                return None;
            }
            let rows: Vec<Option<Vec<u8>>> =
                vec![None, Some(vec![0u8; n]), Some((0..n).map(|i| b'a' + (i % 26) as u8).collect()), Some(vec![0xffu8; n]), Some((0..n).map(|i| (i * 37 + 200) as u8).collect())];
            Arc::new(FixedSizeBinaryArray::try_from_sparse_iter_with_size(rows.into_iter(), n as i32).ok()?)
        }
        List(f) => list_menu::<i32>(f, false)?,
        LargeList(f) => list_menu::<i64>(f, true)?,
        FixedSizeList(f, n) => {
            let n = *n;
            if n <= 0 || n > 4 {
                return None;
            }
            let child = menu_array(f.data_type(), &[])?;
            let m = child.len();
            let c = |i: usize| i.min(m - 1) as u32;
            let mut idx: Vec<u32> = vec![];
            // row 0 NULL (garbage children), row 1 all "zero", row 2 typical, row 3 with NULL inside, row 4 reversed
            for r in 0..5usize {
                for k in 0..n as usize {
                    idx.push(match r {
                        0 => c(2),
                        1 => c(1),
                        2 => c(2 + k),
                        3 => {
                            if k == 0 {
                                c(0)
                            } else {
                                c(3)
                            }
                        }
                        _ => c(m - 1 - k.min(m - 1)),
                    });
                }
            }
            let values = arrow::compute::take(&child, &UInt32Array::from(idx), None).ok()?;
            let nulls = NullBuffer::from(vec![false, true, true, true, true]);
            Arc::new(FixedSizeListArray::try_new(f.clone(), n, values, Some(nulls)).ok()?)
        }
        Struct(fields) => {
            if fields.is_empty() {
                return None;
            }
            let rows = 5usize;
            let mut cols: Vec<ArrayRef> = vec![];
            for f in fields.iter() {
                let child = menu_array(f.data_type(), &[])?;
                let m = child.len();
                // row 0: NULL struct; row 1: zeros; row 2: typical; row 3: NULL children; row 4: others
                let pick = [2usize, 1, 2, 0, 3];
                let idx: Vec<u32> = (0..rows).map(|r| pick[r].min(m - 1) as u32).collect();
                let mut col = arrow::compute::take(&child, &UInt32Array::from(idx), None).ok()?;
                if !f.is_nullable() && col.null_count() > 0 {
                    // keep declared nullability honest: replace NULL children by the typical value
                    let idx: Vec<u32> = (0..rows).map(|r| if pick[r] == 0 { 2usize.min(m - 1) } else { pick[r].min(m - 1) } as u32).collect();
                    col = arrow::compute::take(&child, &UInt32Array::from(idx), None).ok()?;
                    if col.null_count() > 0 {
                        return None;
                    }
                }
                cols.push(col);
            }
            let nulls = NullBuffer::from(vec![false, true, true, true, true]);
            Arc::new(StructArray::try_new(fields.clone(), cols, Some(nulls)).ok()?)
        }
        Map(entries, sorted) => {
            let DataType::Struct(kv) = entries.data_type() else { return None };
            if kv.len() != 2 {
                return None;
            }
            let keys = menu_array(kv[0].data_type(), &[])?;
            let vals = menu_array(kv[1].data_type(), &[])?;
            let (mk, mv) = (keys.len(), vals.len());
            if mk < 4 {
                return None;
            }
            // rows: NULL (one garbage entry) ; {} ; {k2: v2} ; {k2: NULL, k3: v3} ; {k3: v1}
            let kidx: Vec<u32> = vec![2, 2, 2, 3, 3];
            let vidx: Vec<u32> = [2usize, 2, 0, 3, 1].iter().map(|i| (*i).min(mv - 1) as u32).collect();
            let k = arrow::compute::take(&keys, &UInt32Array::from(kidx), None).ok()?;
            let v = arrow::compute::take(&vals, &UInt32Array::from(vidx), None).ok()?;
            if !kv[1].is_nullable() && v.null_count() > 0 {
                return None;
            }
            let entries_arr = StructArray::try_new(kv.clone(), vec![k, v], None).ok()?;
            let offsets = OffsetBuffer::new(ScalarBuffer::from(vec![0i32, 1, 1, 2, 4, 5]));
            let nulls = NullBuffer::from(vec![false, true, true, true, true]);
            Arc::new(MapArray::try_new(entries.clone(), offsets, entries_arr, Some(nulls), *sorted).ok()?)
        }
        Dictionary(k, v) => {
            let plain = menu_array(v, extra)?;
            arrow::compute::cast(&plain, &Dictionary(k.clone(), v.clone())).ok()?
        }
        _ => return None,
    })
}

fn list_menu<O: OffsetSizeTrait>(f: &FieldRef, _large: bool) -> Option<ArrayRef> {
    let child = menu_array(f.data_type(), &[])?;
    let m = child.len();
    let c = |i: usize| i.min(m - 1) as u32;
    // row 0: NULL with one garbage child; row 1: []; row 2: [c2]; row 3: [c2, NULL, c3]; row 4: [c3, c3, c2, c1, c_last]; row 5: [NULL]
    let nullable = f.is_nullable();
    let n0 = if nullable { c(0) } else { c(1) };
    let idx: Vec<u32> = vec![c(3), c(2), c(2), n0, c(3), c(3), c(3), c(2), c(1), c(m - 1), n0];
    let lens = [1usize, 0, 1, 3, 5, 1];
    let values = arrow::compute::take(&child, &UInt32Array::from(idx), None).ok()?;
    if !nullable && values.null_count() > 0 {
        return None;
    }
    let offsets = OffsetBuffer::<O>::from_lengths(lens);
    let nulls = NullBuffer::from(vec![false, true, true, true, true, true]);
    Some(Arc::new(GenericListArray::<O>::try_new(f.clone(), offsets, values, Some(nulls)).ok()?))
}

/// Types used to probe signatures that publish no example types (Any, VariadicAny, UserDefined, ArraySignature, …).
pub fn probe_alphabet() -> Vec<DataType> {
    let item = |dt: DataType| Arc::new(Field::new_list_field(dt, true));
    vec![
        DataType::Utf8,
        DataType::Int64,
        DataType::Float64,
        DataType::List(item(DataType::Int64)),
        DataType::List(item(DataType::Utf8)),
        DataType::Boolean,
        DataType::Binary,
        DataType::Timestamp(TimeUnit::Nanosecond, None),
        DataType::Date32,
        DataType::Decimal128(10, 2),
        DataType::Struct(Fields::from(vec![Field::new("a", DataType::Int64, true), Field::new("b", DataType::Utf8, true)])),
        DataType::Map(
            Arc::new(Field::new(
                "entries",
                DataType::Struct(Fields::from(vec![Field::new("key", DataType::Utf8, false), Field::new("value", DataType::Int64, true)])),
                false,
            )),
            false,
        ),
        DataType::Interval(IntervalUnit::MonthDayNano),
        DataType::Utf8View,
        DataType::List(item(DataType::List(item(DataType::Int64)))),
    ]
}
