//! Shared between C32 and C45: function registries, signature → type lists,
//! adaptive string hints, invocation through `ScalarUDF::invoke_with_args`.
#![allow(dead_code)]

use std::collections::{BTreeSet, HashSet};
use std::sync::Arc;

use arrow::array::{Array, ArrayRef, UInt32Array};
use arrow::datatypes::{DataType, Field, FieldRef};
use datafusion::common::ScalarValue;
use datafusion::common::config::ConfigOptions;
use datafusion::logical_expr::type_coercion::functions::{UDFCoercionExt, fields_with_udf};
use datafusion::logical_expr::{ColumnarValue, ReturnFieldArgs, ScalarFunctionArgs, ScalarUDF, Volatility};

use super::menu;

/// Functions documented as (or by construction) depending on the physical type / metadata of
/// their arguments, or on the session rather than on the arguments.
pub const EXCLUDED: [(&str, &str); 9] = [
    ("arrow_typeof", "returns the physical type name"),
    ("arrow_cast", "result type is named by an argument; casts between physical types"),
    ("arrow_try_cast", "result type is named by an argument; casts between physical types"),
    ("arrow_metadata", "returns field metadata"),
    ("arrow_field", "returns the physical field (type, nullability, metadata)"),
    ("version", "session constant"),
    ("union_tag", "inspects the union's physical layout"),
    ("union_extract", "inspects the union's physical layout"),
    ("typeof", "spark: returns the type name"),
];

/// Functions whose *result size* is an argument value (series generators): the extreme values of the
/// numeric / temporal menus are dropped for them (a 2^63-element series is not a representation question).
pub const SIZE_BY_ARGUMENT: [&str; 2] = ["generate_series", "range"];

pub fn excluded(name: &str) -> Option<&'static str> {
    EXCLUDED.iter().find(|(n, _)| *n == name).map(|(_, why)| *why)
}

thread_local! {
    static NATIVE_PANICKED: std::cell::Cell<bool> = const { std::cell::Cell::new(false) };
}
pub static NATIVE_PANICS_SKIPPED: std::sync::atomic::AtomicU64 = std::sync::atomic::AtomicU64::new(0);

/// Evaluate the native side of a native / foreign pair.  A panic inside a function called through the FFI
/// cannot unwind (`extern "C"`) and would abort the process, so when the native side panics the foreign
/// side of the pair is not called (see `catch_foreign`).
pub fn catch_native<T>(f: impl FnOnce() -> T) -> Result<T, String> {
    let r = mc_core::catch(f);
    NATIVE_PANICKED.with(|c| c.set(r.is_err()));
    r
}

/// The foreign side of the pair started by the last `catch_native` on this thread.
pub fn catch_foreign<T>(f: impl FnOnce() -> T) -> Result<T, String> {
    if NATIVE_PANICKED.with(|c| c.replace(false)) {
        NATIVE_PANICS_SKIPPED.fetch_add(1, std::sync::atomic::Ordering::Relaxed);
        return Err("panic: (not called: the native side panicked)".into());
    }
    mc_core::catch(f)
}

pub fn cfg() -> Arc<ConfigOptions> {
    Arc::new(ConfigOptions::default())
}

pub fn field(i: usize, dt: &DataType) -> FieldRef {
    Arc::new(Field::new(format!("a{i}"), dt.clone(), true))
}

pub enum Out {
    /// result (already expanded to `n` rows) and the declared return field
    Ok(ArrayRef, FieldRef),
    /// error or panic
    Fail(String),
    /// the result contradicts the contract by itself: (symptom class, text)
    Defect(&'static str, String),
}

/// One invocation exactly as `ScalarFunctionExpr::evaluate` performs it.
pub fn invoke(udf: &ScalarUDF, args: &[ColumnarValue], n: usize, cfg: &Arc<ConfigOptions>) -> Out {
    let arg_fields: Vec<FieldRef> = args.iter().enumerate().map(|(i, a)| field(i, &a.data_type())).collect();
    let r = mc_core::catch(|| -> Result<(ColumnarValue, FieldRef), String> {
        let scalars: Vec<Option<&ScalarValue>> = args
            .iter()
            .map(|a| match a {
                ColumnarValue::Scalar(s) => Some(s),
                _ => None,
            })
            .collect();
        let rf = udf
            .return_field_from_args(ReturnFieldArgs { arg_fields: &arg_fields, scalar_arguments: &scalars })
            .map_err(|e| format!("return_field_from_args: {e}"))?;
        let out = udf
            .invoke_with_args(ScalarFunctionArgs {
                args: args.to_vec(),
                arg_fields: arg_fields.clone(),
                number_rows: n,
                return_field: rf.clone(),
                config_options: cfg.clone(),
            })
            .map_err(|e| format!("{e}"))?;
        Ok((out, rf))
    });
    let (out, rf) = match r {
        Ok(Ok(x)) => x,
        Ok(Err(e)) => return Out::Fail(e),
        Err(p) => return Out::Fail(p),
    };
    let all_scalar = !args.is_empty() && args.iter().all(|a| matches!(a, ColumnarValue::Scalar(_)));
    let arr = match out {
        ColumnarValue::Array(a) => {
            if a.len() == n {
                a
            } else if a.len() == 1 && all_scalar {
                // ScalarFunctionExpr treats a 1-row array from all-constant arguments as a constant
                match mc_core::catch(|| ScalarValue::try_from_array(&a, 0).and_then(|s| s.to_array_of_size(n))) {
                    Ok(Ok(x)) => x,
                    other => return Out::Fail(format!("cannot expand 1-row result: {:?}", other.map(|r| r.map(|_| ()).map_err(|e| e.to_string())))),
                }
            } else {
                return Out::Defect("wrong-row-count", format!("returned an array of {} rows for number_rows = {n}", a.len()));
            }
        }
        ColumnarValue::Scalar(s) => match mc_core::catch(|| s.to_array_of_size(n)) {
            Ok(Ok(x)) => x,
            other => return Out::Fail(format!("cannot expand scalar result: {:?}", other.map(|r| r.map(|_| ()).map_err(|e| e.to_string())))),
        },
    };
    if arr.data_type() != rf.data_type() {
        return Out::Defect("type-differs-from-declared", format!("returned {} but return_field_from_args declared {}", arr.data_type(), rf.data_type()));
    }
    Out::Ok(arr, rf)
}

pub fn take1(menu: &ArrayRef, idx: &[usize]) -> ArrayRef {
    let i = UInt32Array::from(idx.iter().map(|x| *x as u32).collect::<Vec<_>>());
    arrow::compute::take(menu, &i, None).expect("take")
}

pub fn registry(name: &str) -> Vec<Arc<ScalarUDF>> {
    let mut v = match name {
        "default" => datafusion::execution::SessionStateDefaults::default_scalar_functions(),
        "spark" => datafusion_spark::all_default_scalar_functions(),
        _ => vec![],
    };
    v.sort_by(|a, b| a.name().cmp(b.name()));
    v.dedup_by(|a, b| a.name() == b.name());
    v
}

pub fn is_volatile(u: &ScalarUDF) -> bool {
    u.signature().volatility == Volatility::Volatile
}

/// Flavour-normalised type name (Utf8 / LargeUtf8 / Utf8View collapse), used to de-duplicate type lists.
fn norm(dt: &DataType) -> String {
    match dt {
        DataType::LargeUtf8 | DataType::Utf8View => "Utf8".into(),
        DataType::LargeBinary | DataType::BinaryView => "Binary".into(),
        other => format!("{other}"),
    }
}

#[derive(Default, Debug, Clone)]
pub struct SigStats {
    pub examples: usize,
    pub candidates_accepted: usize,
    pub distinct_lists: usize,
    pub no_menu: usize,
    pub chosen: usize,
}

/// Deterministic list of argument-type lists for a function, at most `cap`:
/// the signature's example types, then every list of 1..=3 probe types, each
/// passed through the function's own coercion; de-duplicated up to string
/// flavour; chosen greedily for diversity of (position, type).
pub fn type_lists(udf: &ScalarUDF, cap: usize) -> (Vec<Vec<DataType>>, SigStats) {
    type_lists_with(udf, cap, 3, &|coerced: &[FieldRef]| {
        let none: Vec<Option<&ScalarValue>> = vec![None; coerced.len()];
        matches!(mc_core::catch(|| udf.return_field_from_args(ReturnFieldArgs { arg_fields: coerced, scalar_arguments: &none })), Ok(Ok(_)))
    })
}

/// Generic over scalar / aggregate / window functions; `rf_ok` says whether the return field is
/// known for the coerced argument fields; `max_arity` bounds the probe lists.
pub fn type_lists_with<F: UDFCoercionExt>(udf: &F, cap: usize, max_arity: usize, rf_ok: &dyn Fn(&[FieldRef]) -> bool) -> (Vec<Vec<DataType>>, SigStats) {
    let mut st = SigStats::default();
    let mut cands: Vec<Vec<DataType>> = vec![];
    let ex = mc_core::catch(|| udf.signature().type_signature.get_example_types()).unwrap_or_default();
    st.examples = ex.len();
    for e in ex.into_iter().take(300) {
        if !e.is_empty() {
            cands.push(e.iter().map(menu::concretize).collect());
        }
    }
    let alpha = menu::probe_alphabet();
    for a in &alpha {
        cands.push(vec![a.clone()]);
    }
    if max_arity >= 2 {
        for a in &alpha {
            for b in &alpha {
                cands.push(vec![a.clone(), b.clone()]);
            }
        }
    }
    if max_arity >= 3 {
        let small = &alpha[..8];
        for a in small {
            for b in small {
                for c in small {
                    cands.push(vec![a.clone(), b.clone(), c.clone()]);
                }
            }
        }
        // four arguments: a few shapes only
        for a in &alpha[..3] {
            for b in &alpha[..3] {
                cands.push(vec![a.clone(), b.clone(), b.clone(), alpha[0].clone()]);
                cands.push(vec![a.clone(), a.clone(), b.clone(), alpha[1].clone()]);
            }
        }
    }
    let mut seen: HashSet<Vec<String>> = HashSet::new();
    // (list, return type known without constants)
    let mut good: Vec<(Vec<DataType>, bool)> = vec![];
    for c in cands {
        let fields: Vec<FieldRef> = c.iter().enumerate().map(|(i, t)| field(i, t)).collect();
        let coerced = match mc_core::catch(|| fields_with_udf(&fields, udf)) {
            Ok(Ok(f)) => f,
            _ => continue,
        };
        st.candidates_accepted += 1;
        let types: Vec<DataType> = coerced.iter().map(|f| f.data_type().clone()).collect();
        if types.len() != c.len() {
            continue;
        }
        let key: Vec<String> = types.iter().map(norm).collect();
        if !seen.insert(key) {
            continue;
        }
        if types.iter().any(|t| menu::menu_array(t, &[]).is_none()) {
            st.no_menu += 1;
            continue;
        }
        let ok = rf_ok(&coerced);
        good.push((types, ok));
    }
    st.distinct_lists = good.len();
    // greedy diversity: round-robin over the arities present; within an arity prefer lists whose return
    // type is known, then those adding most unseen (position, type) pairs (ties: enumeration order)
    let mut covered: BTreeSet<(usize, String)> = BTreeSet::new();
    let mut chosen: Vec<Vec<DataType>> = vec![];
    let mut used = vec![false; good.len()];
    let arities: Vec<usize> = good.iter().map(|g| g.0.len()).collect::<BTreeSet<_>>().into_iter().collect();
    let mut turn = 0usize;
    let mut misses = 0usize;
    while chosen.len() < cap && !arities.is_empty() && misses < arities.len() {
        let arity = arities[turn % arities.len()];
        turn += 1;
        let mut best: Option<(usize, (bool, usize))> = None;
        for (k, (t, rf_ok)) in good.iter().enumerate() {
            if used[k] || t.len() != arity {
                continue;
            }
            let gain = t.iter().enumerate().filter(|(i, d)| !covered.contains(&(*i, norm(d)))).count();
            let score = (*rf_ok, gain);
            if best.map(|(_, s)| score > s).unwrap_or(true) {
                best = Some((k, score));
            }
        }
        let Some((k, _)) = best else {
            misses += 1;
            continue;
        };
        misses = 0;
        used[k] = true;
        for (i, d) in good[k].0.iter().enumerate() {
            covered.insert((i, norm(d)));
        }
        chosen.push(good[k].0.clone());
    }
    st.chosen = chosen.len();
    (chosen, st)
}

/// Everything needed to enumerate the rows of one (function, type list).
pub struct Plan {
    pub types: Vec<DataType>,
    /// value menu per argument
    pub menus: Vec<ArrayRef>,
    /// menu index each argument is fixed at while others vary
    pub defaults: Vec<usize>,
    /// number of 1-row evaluations spent on finding hints
    pub probe_evals: u64,
}

#[derive(PartialEq, Clone, Copy)]
enum Probe {
    Value,
    Null,
    Fail,
}

fn probe_row(udf: &ScalarUDF, menus: &[ArrayRef], row: &[usize], cfg: &Arc<ConfigOptions>) -> (Probe, Option<ScalarValue>) {
    // try with plain 1-row arrays, then with constants (some functions need constant arguments)
    let arrays: Vec<ColumnarValue> = menus.iter().zip(row).map(|(m, i)| ColumnarValue::Array(take1(m, &[*i]))).collect();
    let mut r = invoke(udf, &arrays, 1, cfg);
    if !matches!(r, Out::Ok(..)) {
        let scalars: Vec<ColumnarValue> = menus
            .iter()
            .zip(row)
            .filter_map(|(m, i)| ScalarValue::try_from_array(m, *i).ok().map(ColumnarValue::Scalar))
            .collect();
        if scalars.len() == menus.len() {
            r = invoke(udf, &scalars, 1, cfg);
        }
    }
    match r {
        Out::Ok(a, _) => {
            if a.is_null(0) {
                (Probe::Null, None)
            } else {
                (Probe::Value, ScalarValue::try_from_array(&a, 0).ok())
            }
        }
        _ => (Probe::Fail, None),
    }
}

/// Build menus; for string arguments, find (deterministically, by 1-row probes) pool strings the
/// function accepts, so that the enumeration is not vacuous for functions whose arguments are
/// date parts, formats, encodings, patterns, …
pub fn plan(udf: &ScalarUDF, types: &[DataType], cfg: &Arc<ConfigOptions>) -> Option<Plan> {
    let n = types.len();
    let mut evals = 0u64;
    let str_pos: Vec<usize> = (0..n).filter(|i| menu::is_string(&types[*i])).collect();
    // probe menus: core + whole pool for string positions
    let pool: Vec<String> = menu::POOL.iter().map(|s| s.to_string()).collect();
    let probe_menus: Vec<ArrayRef> = types.iter().map(|t| if menu::is_string(t) { menu::menu_array(t, &pool) } else { menu::menu_array(t, &[]) }).collect::<Option<Vec<_>>>()?;
    let core = menu::CORE_STR.len();
    let typical = |i: usize| 2usize.min(probe_menus[i].len() - 1);
    let mut defaults: Vec<usize> = (0..n).map(typical).collect();
    let mut hints: Vec<Vec<String>> = vec![vec![]; n];
    if !str_pos.is_empty() {
        evals += 1;
        let mut ok = probe_row(udf, &probe_menus, &defaults, cfg).0 == Probe::Value;
        if !ok {
            // one position
            'one: for &p in &str_pos {
                for s in 0..pool.len() {
                    let mut row = defaults.clone();
                    row[p] = core + s;
                    evals += 1;
                    if probe_row(udf, &probe_menus, &row, cfg).0 == Probe::Value {
                        defaults = row;
                        ok = true;
                        break 'one;
                    }
                }
            }
        }
        if !ok && str_pos.len() >= 2 {
            'two: for (x, &p) in str_pos.iter().enumerate() {
                for &q in &str_pos[x + 1..] {
                    for s in 0..pool.len() {
                        for t in 0..pool.len() {
                            let mut row = defaults.clone();
                            row[p] = core + s;
                            row[q] = core + t;
                            evals += 1;
                            if probe_row(udf, &probe_menus, &row, cfg).0 == Probe::Value {
                                defaults = row;
                                break 'two;
                            }
                        }
                    }
                }
            }
        }
        // per position: up to 3 pool strings that succeed with pairwise distinct results, also distinct from 'abc'
        for &p in &str_pos {
            let mut seen: Vec<ScalarValue> = vec![];
            let mut row = defaults.clone();
            row[p] = 2;
            evals += 1;
            if let (Probe::Value, Some(v)) = probe_row(udf, &probe_menus, &row, cfg) {
                seen.push(v);
            }
            if defaults[p] >= core {
                hints[p].push(pool[defaults[p] - core].clone());
                row[p] = defaults[p];
                evals += 1;
                if let (Probe::Value, Some(v)) = probe_row(udf, &probe_menus, &row, cfg) {
                    seen.push(v);
                }
            }
            for s in 0..pool.len() {
                if hints[p].len() >= 3 {
                    break;
                }
                if hints[p].contains(&pool[s]) {
                    continue;
                }
                row[p] = core + s;
                evals += 1;
                if let (Probe::Value, Some(v)) = probe_row(udf, &probe_menus, &row, cfg) {
                    if !seen.contains(&v) {
                        seen.push(v);
                        hints[p].push(pool[s].clone());
                    }
                }
            }
        }
    }
    let mut menus: Vec<ArrayRef> = types.iter().enumerate().map(|(i, t)| menu::menu_array(t, &hints[i])).collect::<Option<Vec<_>>>()?;
    if SIZE_BY_ARGUMENT.contains(&udf.name()) {
        // the result size grows with the magnitude of the arguments: keep NULL, zero and the small values only
        for (i, m) in menus.iter_mut().enumerate() {
            if !menu::is_string(&types[i]) && m.len() > 5 {
                *m = m.slice(0, 5);
            }
        }
    }
    // translate defaults into the final menus (hint 0 is the default when the default came from the pool)
    let defaults: Vec<usize> = (0..n).map(|i| if defaults[i] >= core && menu::is_string(&types[i]) { core } else { defaults[i].min(menus[i].len() - 1) }).collect();
    Some(Plan { types: types.to_vec(), menus, defaults, probe_evals: evals })
}

// ------------------------------------------------------------------------------------------------
// A function that sizes an allocation by an argument value (repeat / pad / range … with i64::MAX)
// would abort the whole process (`handle_alloc_error`), which no check can report.  This allocator
// refuses requests above 4 GiB by panicking instead, so that the call ends as an ordinary "panic"
// outcome (compared across representations like an error) and the exploration goes on.
pub struct GuardAlloc;

pub static REFUSED_ALLOCATIONS: std::sync::atomic::AtomicU64 = std::sync::atomic::AtomicU64::new(0);
const ALLOC_LIMIT: usize = 4 << 30;

fn refuse(size: usize) -> ! {
    REFUSED_ALLOCATIONS.fetch_add(1, std::sync::atomic::Ordering::Relaxed);
    panic!("allocation of {size} bytes refused by the harness allocator");
}

unsafe impl std::alloc::GlobalAlloc for GuardAlloc {
    unsafe fn alloc(&self, l: std::alloc::Layout) -> *mut u8 {
        if l.size() > ALLOC_LIMIT {
            refuse(l.size());
        }
        unsafe { std::alloc::System.alloc(l) }
    }
    unsafe fn dealloc(&self, p: *mut u8, l: std::alloc::Layout) {
        unsafe { std::alloc::System.dealloc(p, l) }
    }
    unsafe fn alloc_zeroed(&self, l: std::alloc::Layout) -> *mut u8 {
        if l.size() > ALLOC_LIMIT {
            refuse(l.size());
        }
        unsafe { std::alloc::System.alloc_zeroed(l) }
    }
    unsafe fn realloc(&self, p: *mut u8, l: std::alloc::Layout, new_size: usize) -> *mut u8 {
        if new_size > ALLOC_LIMIT {
            refuse(new_size);
        }
        unsafe { std::alloc::System.realloc(p, l, new_size) }
    }
}

#[global_allocator]
static GLOBAL: GuardAlloc = GuardAlloc;
