//! C03 — logical optimization preserves query results and output schema.
//!
//! Enumerated: every query of grammar G (tier list) is planned and analyzed once
//! (`SessionState::create_logical_plan` + `Analyzer::execute_and_check`); the analyzed
//! plan P is then optimized by every pipeline of
//!
//! * `none`            — no rule (P itself),
//! * `full`            — the session's default rule list through `Optimizer::with_rules`,
//! * `session`         — the production route `SessionState::optimize` (must agree with `full`),
//! * `alone:<rule>`    — each rule of the default list alone,
//! * `prefix:<k>`      — each proper prefix (length 2..n-1) of the default list,
//! * `minus:<rule>`    — the default list without one rule,
//!
//! (max_passes etc. at their defaults).  Every *distinct* resulting plan (structural
//! `LogicalPlan` equality; a plan equal to P needs no run) is handed to the default
//! physical planner **without further logical optimization**
//! (`state.query_planner().create_physical_plan`) and executed on each of the 12 rich
//! databases (the tables are MemTables whose single partition is swapped in place, so one
//! logical plan serves every database).
//!
//! Oracle: (i) schema — same number of fields, same field names, logically equivalent
//! types (dictionary / run-end encoding erased; Utf8 = LargeUtf8 = Utf8View; binary
//! flavours equal; list flavours equal element-wise) as P's schema; (ii) results — equal
//! to the result of P (`none`) under the query's ORDER BY / LIMIT comparison rule whenever
//! both plans can be executed; when P itself cannot be planned physically or fails while
//! running (subqueries that only decorrelation makes executable, DISTINCT ON, `coalesce`
//! that only simplification makes runnable, ...) the reference is the `full` pipeline's
//! result instead (counted).  An optimized plan the physical planner rejects is "not
//! executable" (not compared); one that is planned but fails while running is a violation
//! only when P itself runs (then the applied rules broke it).  (query, database) pairs the independent
//! reference interpreter calls ambiguous are not compared; where it says the statement may
//! fail at run time an error on one side is tolerated.  An optimizer error on a valid
//! analyzed plan is a violation ("yields a plan").
//!
//! Debug helpers: `c03 --rules`, `c03 --show "<sql>" [--pipeline <name>] [--db <label>]`.
use arrow::datatypes::DataType;
use chk_sql::sqlmc::compare::{OrderSpec, compare_engine_results};
use chk_sql::sqlmc::db::{self, Database};
use chk_sql::sqlmc::engine::{self, QueryResult, TextEncoding};
use chk_sql::sqlmc::grammar::{self, GenQuery, QueryFlags, Tier};
use chk_sql::sqlmc::reference::{self, RefOutcome};
use chk_sql::sqlmc::value::show_rows;
use datafusion::catalog::MemTable;
use datafusion::logical_expr::LogicalPlan;
use datafusion::optimizer::{Optimizer, OptimizerRule};
use datafusion::prelude::SessionContext;
use mc_core::serde_json::{Value as Json, json};
use mc_core::{Ctx, Level, rayon::prelude::*, run_check};
use serde::{Deserialize, Serialize};
use std::collections::BTreeMap;
use std::sync::{Arc, Mutex};

type Rule = Arc<dyn OptimizerRule + Send + Sync>;

// ------------------------------------------------------------------ pipelines

/// One optimizer pipeline: a name and the rule names (in order).  `session = true` is the
/// production route `SessionState::optimize` with the session's own rule list.
#[derive(Clone, Debug, Serialize, Deserialize, PartialEq, Eq)]
struct Pipeline {
    name: String,
    rules: Vec<String>,
    #[serde(default)]
    session: bool,
}

/// Rank used to attribute a failing (query, database) to its simplest failing pipeline.
fn pipeline_rank(name: &str) -> u8 {
    match name.split(':').next().unwrap_or("") {
        "alone" => 0,
        "prefix" => 1,
        "minus" => 2,
        "full" => 3,
        "session" => 4,
        _ => 5,
    }
}

fn pipelines(rule_names: &[String]) -> Vec<Pipeline> {
    let n = rule_names.len();
    let mut out = vec![Pipeline { name: "none".into(), rules: vec![], session: false }];
    out.push(Pipeline { name: "full".into(), rules: rule_names.to_vec(), session: false });
    out.push(Pipeline { name: "session".into(), rules: rule_names.to_vec(), session: true });
    for r in rule_names {
        out.push(Pipeline { name: format!("alone:{r}"), rules: vec![r.clone()], session: false });
    }
    for k in 2..n {
        out.push(Pipeline { name: format!("prefix:{k}:..{}", rule_names[k - 1]), rules: rule_names[..k].to_vec(), session: false });
    }
    for (i, r) in rule_names.iter().enumerate() {
        let mut rules = rule_names.to_vec();
        rules.remove(i);
        out.push(Pipeline { name: format!("minus:{r}"), rules, session: false });
    }
    out
}

// ------------------------------------------------------------------ engine side

/// A session whose three MemTables (1 partition each) can be re-loaded in place.
struct Worker {
    ctx: SessionContext,
    tables: Vec<(String, Arc<MemTable>)>,
    rules: Vec<Rule>,
}

impl Worker {
    fn new() -> Worker {
        let ctx = SessionContext::new_with_config(engine::default_config());
        let mut tables = vec![];
        for t in &Database::empty().tables {
            let mt = Arc::new(MemTable::try_new(engine::arrow_schema(t, TextEncoding::View), vec![vec![]]).expect("MemTable"));
            ctx.register_table(t.name.as_str(), mt.clone()).expect("register_table");
            tables.push((t.name.clone(), mt));
        }
        let rules = ctx.state().optimizers().to_vec();
        Worker { ctx, tables, rules }
    }
    fn rule_names(&self) -> Vec<String> {
        self.rules.iter().map(|r| r.name().to_string()).collect()
    }
    fn load(&self, dbv: &Database) {
        for t in &dbv.tables {
            let mt = &self.tables.iter().find(|(n, _)| *n == t.name).expect("table").1;
            let rows: Vec<&chk_sql::sqlmc::Row> = t.rows.iter().collect();
            let batches = if rows.is_empty() { vec![] } else { vec![engine::rows_to_batch(t, &rows, TextEncoding::View)] };
            engine::block_on(async { *mt.batches[0].write().await = batches });
        }
    }
    /// SQL -> analyzed plan P.
    fn analyzed(&self, sql: &str) -> Result<LogicalPlan, String> {
        let plan = engine::plan_sql(&self.ctx, sql)?;
        mc_core::catch(|| {
            let state = self.ctx.state();
            state.analyzer().execute_and_check(plan, state.config().options(), |_, _| {}).map_err(|e| format!("analyzer error: {e}"))
        })
        .unwrap_or_else(Err)
    }
    /// Apply one pipeline to P.  `observer` sees the plan after every rule invocation.
    fn optimize(&self, analyzed: &LogicalPlan, p: &Pipeline, mut observer: impl FnMut(&LogicalPlan, &str)) -> Result<LogicalPlan, String> {
        mc_core::catch(|| {
            // a fresh state per call: fresh alias generator, as for every real query
            let state = self.ctx.state();
            if p.session {
                // production route (re-runs the analyzer, which is idempotent on P)
                return state.optimize(analyzed).map_err(|e| format!("optimizer error: {e}"));
            }
            let mut rules: Vec<Rule> = vec![];
            for name in &p.rules {
                match self.rules.iter().find(|r| r.name() == name) {
                    Some(r) => rules.push(Arc::clone(r)),
                    None => return Err(format!("unknown optimizer rule {name}")),
                }
            }
            if rules.is_empty() {
                return Ok(analyzed.clone());
            }
            Optimizer::with_rules(rules).optimize(analyzed.clone(), &state, |pl, r| observer(pl, r.name())).map_err(|e| format!("optimizer error: {e}"))
        })
        .unwrap_or_else(Err)
    }
    /// Text of the physical plan the default planner builds for `plan` (debugging aid).
    fn physical_text(&self, plan: &LogicalPlan) -> String {
        mc_core::catch(|| {
            engine::block_on(async {
                let state = self.ctx.state();
                match state.query_planner().create_physical_plan(plan, &state).await {
                    Ok(p) => datafusion::physical_plan::displayable(p.as_ref()).indent(false).to_string(),
                    Err(e) => format!("not executable: {e}"),
                }
            })
        })
        .unwrap_or_else(|e| e)
    }
    /// Physical planning (no logical optimization) + execution.
    fn execute(&self, plan: &LogicalPlan) -> Exec {
        let mut planned = false;
        let r = mc_core::catch(|| {
            engine::block_on(async {
                let state = self.ctx.state();
                let phys = state.query_planner().create_physical_plan(plan, &state).await.map_err(|e| format!("{e}"))?;
                planned = true;
                let schema = phys.schema();
                let batches = datafusion::physical_plan::collect(phys, state.task_ctx()).await.map_err(|e| format!("execution error: {e}"))?;
                let schema = batches.first().map(|b| b.schema()).unwrap_or(schema);
                Ok(engine::batches_to_result(schema.as_ref(), &batches))
            })
        })
        .unwrap_or_else(Err);
        match r {
            Ok(q) => Exec::Rows(q),
            Err(e) if e.starts_with("panic:") => Exec::Failed(e),
            Err(e) if !planned => Exec::NotExecutable(e),
            Err(e) => Exec::Failed(e),
        }
    }
}

#[derive(Clone, Debug)]
enum Exec {
    /// the default physical planner rejects the plan
    NotExecutable(#[allow(dead_code)] String),
    /// planned, but execution failed (or something panicked)
    Failed(String),
    Rows(QueryResult),
}

// ------------------------------------------------------------------ oracle

/// Arrow type with the physical encoding erased.
fn logical_type(dt: &DataType) -> String {
    use DataType::*;
    match dt {
        Dictionary(_, v) => logical_type(v),
        RunEndEncoded(_, v) => logical_type(v.data_type()),
        Utf8 | LargeUtf8 | Utf8View => "String".into(),
        Binary | LargeBinary | BinaryView => "Binary".into(),
        List(f) | LargeList(f) | ListView(f) | LargeListView(f) => format!("List<{}>", logical_type(f.data_type())),
        FixedSizeList(f, n) => format!("FixedSizeList<{};{n}>", logical_type(f.data_type())),
        Struct(fs) => format!("Struct<{}>", fs.iter().map(|f| format!("{}:{}", f.name(), logical_type(f.data_type()))).collect::<Vec<_>>().join(",")),
        Map(f, s) => format!("Map<{};{s}>", logical_type(f.data_type())),
        other => format!("{other}"),
    }
}

fn schema_signature(p: &LogicalPlan) -> Vec<(String, String)> {
    p.schema().fields().iter().map(|f| (f.name().clone(), logical_type(f.data_type()))).collect()
}

/// Oracle (i).
fn check_schema(analyzed: &LogicalPlan, optimized: &LogicalPlan) -> Result<(), String> {
    let (a, o) = (schema_signature(analyzed), schema_signature(optimized));
    if a == o { Ok(()) } else { Err(format!("output schema changed: analyzed {a:?} vs optimized {o:?}")) }
}

#[derive(Clone, Copy, Debug, PartialEq, Eq, Serialize, Deserialize)]
enum Class {
    Strict,
    MayFail,
    Ambiguous,
}

fn classify(dbv: &Database, q: &GenQuery) -> Result<Class, String> {
    match reference::evaluate(dbv, &q.ast) {
        RefOutcome::Rows(_) => Ok(if q.flags.may_fail { Class::MayFail } else { Class::Strict }),
        RefOutcome::MayFail(_) => Ok(Class::MayFail),
        RefOutcome::Ambiguous(_) => Ok(Class::Ambiguous),
        RefOutcome::Unsupported(w) => Err(w),
    }
}

fn short(e: &str) -> String {
    e.lines().next().unwrap_or("").chars().take(300).collect()
}

#[derive(Debug, PartialEq)]
enum Agreement {
    Same,
    ToleratedError,
    /// one of the two plans cannot be planned physically: nothing demanded
    NotComparable,
}

/// Oracle (ii) for one (reference run, pipeline run).  The reference always delivered rows.
/// `reference_is_p`: the reference is the unoptimized plan P itself, i.e. P needs no rule to run;
/// then an optimized plan that the physical planner accepts but that fails while running was broken
/// by the rules applied to it.  When P itself cannot run (it needs some rules: decorrelation,
/// `coalesce` -> CASE simplification, ...) a partial pipeline's failure proves nothing.
fn judge(reference: &QueryResult, got: &Exec, flags: &QueryFlags, class: Class, reference_is_p: bool) -> Result<Agreement, (&'static str, String)> {
    match got {
        Exec::NotExecutable(_) => Ok(Agreement::NotComparable),
        Exec::Rows(g) => {
            let spec: OrderSpec = flags.into();
            match compare_engine_results(&reference.rows, &g.rows, &spec) {
                Ok(()) => Ok(Agreement::Same),
                Err(w) => Err(("rows", format!("reference plan vs optimized plan: {w}"))),
            }
        }
        Exec::Failed(_) if class == Class::MayFail => Ok(Agreement::ToleratedError),
        Exec::Failed(_) if !reference_is_p => Ok(Agreement::NotComparable),
        Exec::Failed(e) if e.starts_with("panic:") => Err(("panic", format!("the unoptimized plan returns {} but planning / executing the optimized plan panics: {}", show_rows(&reference.rows), short(e)))),
        Exec::Failed(e) => Err(("error", format!("the unoptimized plan returns {} but the optimized plan fails at run time: {}", show_rows(&reference.rows), short(e)))),
    }
}

// ------------------------------------------------------------------ one query

/// Everything database-independent about one query.
struct Planned {
    analyzed: LogicalPlan,
    /// per pipeline: the optimized plan (or the optimizer's error)
    outs: Vec<Result<LogicalPlan, String>>,
    /// per pipeline: index into `distinct`
    plan_of: Vec<Option<usize>>,
    /// distinct plans; [0] = analyzed
    distinct: Vec<LogicalPlan>,
    /// rules that changed the plan in at least one invocation inside the `full` pipeline
    changed_in_full: Vec<String>,
}

fn plan_query(w: &Worker, sql: &str, pipes: &[Pipeline]) -> Result<Planned, String> {
    let analyzed = w.analyzed(sql)?;
    let mut distinct = vec![analyzed.clone()];
    let mut outs = vec![];
    let mut plan_of = vec![];
    let mut changed_in_full: Vec<String> = vec![];
    for p in pipes {
        let out = if p.name == "full" {
            let mut prev = analyzed.clone();
            w.optimize(&analyzed, p, |pl, rule| {
                if *pl != prev {
                    if !changed_in_full.iter().any(|r| r == rule) {
                        changed_in_full.push(rule.to_string());
                    }
                    prev = pl.clone();
                }
            })
        } else {
            w.optimize(&analyzed, p, |_, _| {})
        };
        let idx = match &out {
            Ok(pl) => Some(match distinct.iter().position(|d| d == pl) {
                Some(i) => i,
                None => {
                    distinct.push(pl.clone());
                    distinct.len() - 1
                }
            }),
            Err(_) => None,
        };
        outs.push(out);
        plan_of.push(idx);
    }
    Ok(Planned { analyzed, outs, plan_of, distinct, changed_in_full })
}

/// Which run is the reference on this database: P itself when it runs, else (P cannot be planned
/// physically, or fails while running) the `full` pipeline's plan when that one runs.
struct DbRuns {
    execs: Vec<Option<Exec>>,
    reference: Option<usize>,
    reference_is_full: bool,
}

fn run_on_db(w: &Worker, pl: &Planned, pipes: &[Pipeline]) -> DbRuns {
    let mut execs: Vec<Option<Exec>> = vec![None; pl.distinct.len()];
    execs[0] = Some(w.execute(&pl.distinct[0]));
    let mut reference = Some(0);
    let mut reference_is_full = false;
    if !matches!(execs[0], Some(Exec::Rows(_))) {
        let full = pipes.iter().position(|p| p.name == "full").and_then(|i| pl.plan_of[i]);
        reference = full;
        reference_is_full = true;
        if let Some(f) = full {
            if execs[f].is_none() {
                execs[f] = Some(w.execute(&pl.distinct[f]));
            }
            if !matches!(execs[f], Some(Exec::Rows(_))) {
                reference = None;
            }
        }
    }
    if reference.is_some() {
        for i in 0..pl.distinct.len() {
            if execs[i].is_none() {
                execs[i] = Some(w.execute(&pl.distinct[i]));
            }
        }
    }
    DbRuns { execs, reference, reference_is_full }
}

// ------------------------------------------------------------------ case / replay

#[derive(Serialize, Deserialize, Clone, Debug)]
struct Case {
    id: String,
    sql: String,
    flags: QueryFlags,
    class: Class,
    db_label: String,
    db: Database,
    pipeline: Pipeline,
}

fn run_case(c: &Case) -> Result<(), String> {
    let w = Worker::new();
    w.load(&c.db);
    let full = Pipeline { name: "full".into(), rules: w.rule_names(), session: false };
    let pipes = vec![Pipeline { name: "none".into(), rules: vec![], session: false }, full, c.pipeline.clone()];
    let pl = plan_query(&w, &c.sql, &pipes)?;
    let head = |what: String| {
        format!(
            "{} on {} under pipeline [{}]: {what}\n--- analyzed plan\n{}\n--- optimized plan\n{}",
            c.sql,
            c.db.show(),
            c.pipeline.name,
            pl.analyzed.display_indent(),
            pl.outs[2].as_ref().map(|p| format!("{}", p.display_indent())).unwrap_or_else(|e| e.clone())
        )
    };
    let opt = match &pl.outs[2] {
        Ok(p) => p,
        Err(e) => return Err(head(format!("the optimizer fails on a valid analyzed plan: {}", short(e)))),
    };
    check_schema(&pl.analyzed, opt).map_err(&head)?;
    if c.class == Class::Ambiguous {
        return Ok(());
    }
    let runs = run_on_db(&w, &pl, &pipes);
    let Some(r) = runs.reference else { return Ok(()) };
    let got = runs.execs[pl.plan_of[2].unwrap()].as_ref().unwrap();
    let Some(Exec::Rows(reference)) = runs.execs[r].as_ref() else { return Ok(()) };
    match judge(reference, got, &c.flags, c.class, !runs.reference_is_full) {
        Ok(_) => Ok(()),
        Err((_, what)) => Err(head(format!("{what} [reference = {}]", if runs.reference_is_full { "full default pipeline (P itself cannot be executed)" } else { "unoptimized plan P" }))),
    }
}

fn replay(v: &Json) -> Result<(), String> {
    let c: Case = serde_json::from_value(v.clone()).map_err(|e| format!("bad case: {e}"))?;
    run_case(&c)
}

// ------------------------------------------------------------------ exploration

#[derive(Default, Clone)]
struct RuleStat {
    alone_changed: u64,
    alone_compared_nonempty: u64,
    changed_in_full: u64,
    minus_differs_from_full: u64,
}

struct Fail {
    qi: usize,
    di: usize,
    pi: usize,
    kind: &'static str,
    what: String,
}

fn explore(ctx: &Ctx) {
    let tier = ctx.pick(Tier::Quick, Tier::Thorough);
    let probe = Worker::new();
    let rule_names = probe.rule_names();
    let pipes = pipelines(&rule_names);
    let all = grammar::queries(tier);
    let total = all.len();
    // queries the engine rejects statically with an honest "not implemented" are outside the fragment
    let mut rejected = vec![];
    let qs: Vec<GenQuery> = all
        .into_iter()
        .filter(|q| match probe.analyzed(&q.sql) {
            Err(e) if e.contains("This feature is not implemented") || e.contains("Correlated scalar subquery must be aggregated") => {
                rejected.push(json!({"sql": q.sql, "error": short(&e)}));
                false
            }
            _ => true,
        })
        .collect();
    let dbs = db::rich_databases();
    ctx.set_extra(
        "bounds",
        json!({
            "queries": qs.len(), "queries_in_grammar_tier": total,
            "optimizer_rules": rule_names, "pipelines": pipes.len(),
            "pipeline_kinds": {"none": 1, "full": 1, "session": 1, "alone": rule_names.len(), "prefix": rule_names.len().saturating_sub(2), "minus": rule_names.len()},
            "databases": dbs.iter().map(|(l, _)| l.clone()).collect::<Vec<_>>(),
            "config": "default, target_partitions=1, 1 partition / 1 batch MemTables",
        }),
    );
    ctx.set_extra("engine_rejected_queries", json!(rejected));
    ctx.assume("the SQL corpus (.slt) part of the quantifier is not enumerated by this check: plans come from grammar G only");

    let order: Vec<usize> = {
        let mut o: Vec<usize> = (0..qs.len()).collect();
        if ctx.seed != 0 {
            let s = ctx.seed;
            o.sort_by_key(|i| mc_core::stable_hash(&(s, *i)));
        }
        o
    };
    let fails: Mutex<Vec<Fail>> = Mutex::new(vec![]);
    let rstats: Mutex<BTreeMap<String, RuleStat>> = Mutex::new(rule_names.iter().map(|r| (r.clone(), RuleStat::default())).collect());
    let kind_stats: Mutex<BTreeMap<String, [u64; 4]>> = Mutex::new(BTreeMap::new()); // per pipeline kind: plans changed, compared, not comparable, same-as-P
    let make_case = |qi: usize, di: usize, pi: usize, class: Class| Case {
        id: qs[qi].id.clone(),
        sql: qs[qi].sql.clone(),
        flags: qs[qi].flags.clone(),
        class,
        db_label: dbs[di].0.clone(),
        db: dbs[di].1.clone(),
        pipeline: pipes[pi].clone(),
    };
    let kind_of = |name: &str| name.split(':').next().unwrap_or("").to_string();
    order.par_iter().for_each_init(Worker::new, |w, &qi| {
        if ctx.out_of_time() || fails.lock().unwrap().len() > 20_000 {
            return;
        }
        let q = &qs[qi];
        let pl = match plan_query(w, &q.sql, &pipes) {
            Ok(p) => p,
            Err(e) => {
                // not plannable at all: C01's business (counted)
                ctx.count("queries_not_plannable", 1);
                let _ = e;
                return;
            }
        };
        ctx.count("analyzed_plans", 1);
        ctx.count("distinct_optimized_plans", pl.distinct.len() as u64 - 1);
        let full_idx = pipes.iter().position(|p| p.name == "full").unwrap();
        // ---- database-independent part: optimizer errors, schema, per-rule change counts
        let mut local_fail: Vec<Fail> = vec![];
        {
            let mut rs = rstats.lock().unwrap();
            let mut ks = kind_stats.lock().unwrap();
            for r in &pl.changed_in_full {
                rs.entry(r.clone()).or_default().changed_in_full += 1;
            }
            for (pi, p) in pipes.iter().enumerate() {
                let changed = pl.plan_of[pi].map(|i| i != 0).unwrap_or(false);
                let e = ks.entry(kind_of(&p.name)).or_insert([0; 4]);
                if changed {
                    e[0] += 1;
                } else if pl.plan_of[pi] == Some(0) {
                    e[3] += 1;
                }
                if let Some(r) = p.name.strip_prefix("alone:") {
                    if changed {
                        rs.entry(r.to_string()).or_default().alone_changed += 1;
                    }
                }
                if let Some(r) = p.name.strip_prefix("minus:") {
                    if pl.plan_of[pi].is_some() && pl.plan_of[pi] != pl.plan_of[full_idx] {
                        rs.entry(r.to_string()).or_default().minus_differs_from_full += 1;
                    }
                }
                match &pl.outs[pi] {
                    Err(e) => {
                        let kind = if e.starts_with("panic:") { "optimizer-panic" } else { "optimizer-error" };
                        local_fail.push(Fail { qi, di: 0, pi, kind, what: format!("the optimizer fails on a valid analyzed plan: {}", short(e)) });
                    }
                    Ok(o) => {
                        if let Err(w) = check_schema(&pl.analyzed, o) {
                            local_fail.push(Fail { qi, di: 0, pi, kind: "schema", what: w });
                        }
                    }
                }
            }
        }
        // ---- per database
        for (di, (label, dbv)) in dbs.iter().enumerate() {
            if ctx.out_of_time() {
                break;
            }
            let class = match classify(dbv, q) {
                Ok(c) => c,
                Err(e) => {
                    ctx.machinery_error(format!("reference cannot evaluate {}: {e}", q.sql));
                    return;
                }
            };
            match class {
                Class::Strict => ctx.count("pairs_strict", 1),
                Class::MayFail => ctx.count("pairs_may_fail", 1),
                Class::Ambiguous => {
                    ctx.count("pairs_ambiguous_skipped", 1);
                    continue;
                }
            }
            w.load(dbv);
            let runs = run_on_db(w, &pl, &pipes);
            let executed = runs.execs.iter().filter(|e| e.is_some()).count() as u64;
            ctx.evals(executed);
            let Some(r) = runs.reference else {
                ctx.count("pairs_without_executable_reference(neither_P_nor_full_pipeline_runs)", 1);
                continue;
            };
            if runs.reference_is_full {
                ctx.count(if matches!(runs.execs[0], Some(Exec::NotExecutable(_))) { "pairs_compared_against_full_pipeline(P_not_plannable_physically)" } else { "pairs_compared_against_full_pipeline(P_fails_at_run_time)" }, 1);
            } else {
                ctx.count("pairs_compared_against_unoptimized_plan", 1);
            }
            let Some(Exec::Rows(reference)) = runs.execs[r].as_ref() else { continue };
            let ref_nonempty = !reference.rows.is_empty();
            for (pi, p) in pipes.iter().enumerate() {
                let Some(idx) = pl.plan_of[pi] else { continue };
                if idx == r {
                    continue; // the reference itself (or a plan identical to it)
                }
                let got = runs.execs[idx].as_ref().unwrap();
                let mut ks = kind_stats.lock().unwrap();
                let ke = ks.entry(kind_of(&p.name)).or_insert([0; 4]);
                match judge(reference, got, &q.flags, class, !runs.reference_is_full) {
                    Ok(Agreement::NotComparable) => ke[2] += 1,
                    Ok(a) => {
                        ke[1] += 1;
                        drop(ks);
                        if a == Agreement::ToleratedError {
                            ctx.count("may_fail_error_on_one_side_tolerated", 1);
                        }
                        if a == Agreement::Same && ref_nonempty {
                            ctx.nontrivial(&(&q.sql, label, &p.name));
                            if let Some(rn) = p.name.strip_prefix("alone:") {
                                rstats.lock().unwrap().entry(rn.to_string()).or_default().alone_compared_nonempty += 1;
                            }
                            let h = mc_core::stable_hash(&(&q.sql, label, &p.name));
                            if ctx.want_sample() && q.size > 14 && dbv.total_rows() >= 8 && p.name.starts_with("alone:") && h % 13 == 0 {
                                ctx.sample(json!({
                                    "sql": q.sql, "db": dbv.show(), "pipeline": p.name,
                                    "analyzed": format!("{}", pl.analyzed.display_indent()),
                                    "optimized": format!("{}", pl.distinct[idx].display_indent()),
                                    "result": if let Exec::Rows(x) = got { show_rows(&x.rows) } else { String::new() },
                                }));
                            }
                            if h % 256 == 0 {
                                ctx.count("determinism_replays", 1);
                                if let Err(e) = run_case(&make_case(qi, di, pi, class)) {
                                    ctx.machinery_error(format!("case passed in the sweep but fails when rebuilt from scratch: {e}"));
                                }
                            }
                        }
                    }
                    Err((kind, what)) => {
                        drop(ks);
                        local_fail.push(Fail { qi, di, pi, kind, what });
                    }
                }
            }
        }
        if !local_fail.is_empty() {
            fails.lock().unwrap().extend(local_fail);
        }
    });
    if ctx.want_sample() {
        ctx.sample(json!({"sql": qs[0].sql, "pipelines": pipes.len()}));
    }
    let rstats = rstats.into_inner().unwrap();
    ctx.set_extra(
        "per_rule",
        Json::Object(
            rule_names
                .iter()
                .map(|r| {
                    let s = rstats.get(r).cloned().unwrap_or_default();
                    (
                        r.clone(),
                        json!({"plans_changed_alone": s.alone_changed, "alone_compared_nonempty_pairs": s.alone_compared_nonempty, "plans_changed_inside_full_pipeline": s.changed_in_full, "plans_where_removing_it_changes_the_full_result_plan": s.minus_differs_from_full}),
                    )
                })
                .collect(),
        ),
    );
    let never: Vec<&String> = rule_names.iter().filter(|r| rstats.get(*r).map(|s| s.alone_changed == 0 && s.changed_in_full == 0).unwrap_or(true)).collect();
    ctx.set_extra("rules_that_never_changed_a_plan", json!(never));
    ctx.count("rules_that_never_changed_a_plan", never.len() as u64);
    ctx.set_extra(
        "per_pipeline_kind",
        Json::Object(
            kind_stats
                .into_inner()
                .unwrap()
                .into_iter()
                .map(|(k, v)| (k, json!({"plans_changed": v[0], "plans_identical_to_P": v[3], "result_comparisons": v[1], "not_comparable(not_executable)": v[2]})))
                .collect(),
        ),
    );

    // ---- violations: each failing (query, database) is attributed to its simplest failing pipeline
    // (alone < prefix < minus < full < session; within a kind, list order); one violation per (pipeline, kind of failure)
    let fails = fails.into_inner().unwrap();
    ctx.count("failing_evaluations", fails.len() as u64);
    let mut per_pair: BTreeMap<(usize, usize, &'static str), &Fail> = BTreeMap::new();
    for f in &fails {
        let k = (f.qi, f.di, f.kind);
        let better = match per_pair.get(&k) {
            Some(g) => (pipeline_rank(&pipes[f.pi].name), f.pi) < (pipeline_rank(&pipes[g.pi].name), g.pi),
            None => true,
        };
        if better {
            per_pair.insert(k, f);
        }
    }
    let mut by_key: BTreeMap<String, ((usize, usize), &Fail, u64)> = BTreeMap::new();
    for f in per_pair.values() {
        let key = format!("optimizer-not-result-preserving[{}]:{}", pipes[f.pi].name, f.kind);
        let rank = (f.qi, f.di);
        match by_key.get_mut(&key) {
            Some(e) => {
                e.2 += 1;
                if rank < e.0 {
                    e.0 = rank;
                    e.1 = f;
                }
            }
            None => {
                by_key.insert(key, (rank, f, 1));
            }
        }
    }
    for (key, (_, f, n)) in by_key {
        let class = classify(&dbs[f.di].1, &qs[f.qi]).unwrap_or(Class::Strict);
        let case = make_case(f.qi, f.di, f.pi, class);
        ctx.violation(
            key,
            format!("{} on {} [{}] under pipeline [{}]: {} [{n} failing (query, database) pair(s) attributed to this pipeline; this is the simplest]", case.sql, case.db_label, case.db.show(), case.pipeline.name, f.what),
            serde_json::to_value(&case).unwrap(),
        );
    }
}

// ------------------------------------------------------------------ debug helpers

fn debug_main(args: &[String]) -> bool {
    let arg = |name: &str| args.iter().position(|a| a == name).and_then(|i| args.get(i + 1)).cloned();
    if args.iter().any(|a| a == "--rules") {
        let w = Worker::new();
        for p in pipelines(&w.rule_names()) {
            println!("{}\t{}", p.name, p.rules.len());
        }
        return true;
    }
    if let Some(sql) = arg("--show") {
        let w = Worker::new();
        let label = arg("--db").unwrap_or("all_distinct".into());
        let dbv = db::rich_databases().into_iter().find(|(l, _)| *l == label).map(|x| x.1).unwrap_or_else(Database::empty);
        w.load(&dbv);
        let pipes = pipelines(&w.rule_names());
        let want = arg("--pipeline");
        match plan_query(&w, &sql, &pipes) {
            Err(e) => println!("cannot plan: {e}"),
            Ok(pl) => {
                println!("db: {}\n--- analyzed\n{}", dbv.show(), pl.analyzed.display_indent_schema());
                println!("{}  -> {:?}", w.physical_text(&pl.analyzed), w.execute(&pl.analyzed));
                for (pi, p) in pipes.iter().enumerate() {
                    if want.as_ref().map(|x| *x == p.name).unwrap_or(pl.plan_of[pi] != Some(0) && p.name == "full") {
                        match &pl.outs[pi] {
                            Ok(o) => println!("--- {}\n{}\n{}  -> {:?}", p.name, o.display_indent_schema(), w.physical_text(o), w.execute(o)),
                            Err(e) => println!("--- {}\n{e}", p.name),
                        }
                    }
                }
                println!("changed inside full: {:?}; {} distinct plans", pl.changed_in_full, pl.distinct.len());
            }
        }
        return true;
    }
    false
}

fn main() {
    if debug_main(&mc_core::extra_args()) {
        return;
    }
    mc_core::quiet_panics();
    run_check(
        "C03",
        Level::Exploration,
        "every query of grammar G (tier list) analyzed once; the analyzed plan P optimized by every pipeline of {none, full default list, SessionState::optimize, each rule alone, \
         each proper prefix of the default list, default list minus one rule}; every distinct resulting plan is planned physically without further logical optimization and executed on \
         each of the 12 rich databases; oracle: field names + logically equivalent types equal to P's schema, rows equal to P's rows (to the full pipeline's rows when P cannot be planned \
         physically) under the query's ORDER BY / LIMIT comparison rule, optimizer errors are violations; one evaluation = one execution of a distinct plan on a database; \
         non-trivial = distinct (query, database, pipeline) whose optimized plan differs structurally from the reference plan and whose agreeing result is non-empty",
        explore,
        replay,
    );
}
