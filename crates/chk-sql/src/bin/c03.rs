//! C03 — logical optimization preserves query results and output schema.
//!
//! Enumerated: every query of grammar G (tier list) is planned and analyzed once
//! (`SessionState::create_logical_plan` + `Analyzer::execute_and_check`); the analyzed
//! plan P is then optimized by every pipeline of
//!
//! * `none`            — no rule (P itself),
//! * `full`            — the session's default rule list through `Optimizer::with_rules`,
//! * `session`         — the production route `SessionState::optimize` (must agree with `full`),
//! * `alone:<rule>`    — each rule of the default list alone,
//! * `prefix:<k>`      — each proper prefix (length 2..n-1) of the default list,
//! * `minus:<rule>`    — the default list without one rule,
//!
//! (max_passes etc. at their defaults).  Every *distinct* resulting plan (structural
//! `LogicalPlan` equality; a plan equal to P needs no run) is handed to the default
//! physical planner **without further logical optimization**
//! (`state.query_planner().create_physical_plan`) and executed on each of the 12 rich
//! databases and on every database DB(n, D) over the tables the query reads inside a
//! budgeted bound (the tables are MemTables whose single partition is swapped in place, so
//! one logical plan serves every database).
//!
//! Oracle: (i) schema — same number of fields, same field names, logically equivalent
//! types (dictionary / run-end encoding erased; Utf8 = LargeUtf8 = Utf8View; binary
//! flavours equal; list flavours equal element-wise) as P's schema; (ii) results — equal
//! to the result of P (`none`) under the query's ORDER BY / LIMIT comparison rule whenever
//! both plans can be executed; when P itself cannot be planned physically or fails while
//! running (subqueries that only decorrelation makes executable, DISTINCT ON, `coalesce`
//! that only simplification makes runnable, ...) the reference is the `full` pipeline's
//! result instead (counted).  An optimized plan the physical planner rejects is "not
//! executable" (not compared); one that is planned but fails while running is a violation
//! only when P itself runs (then the applied rules broke it).  (query, database) pairs the independent
//! reference interpreter calls ambiguous are not compared; where it says the statement may
//! fail at run time an error on one side is tolerated.  An optimizer error on a valid
//! analyzed plan is a violation ("yields a plan").
//!
//! Debug helpers: `c03 --rules`, `c03 --show "<sql>" [--pipeline <name>] [--db <label>]`.
use arrow::datatypes::DataType;
use chk_sql::sqlmc::compare::{OrderSpec, compare_engine_results};
use chk_sql::sqlmc::db::{self, Database};
use chk_sql::sqlmc::engine::{self, QueryResult, TextEncoding};
use chk_sql::sqlmc::grammar::{self, GenQuery, QueryFlags, Tier};
use chk_sql::sqlmc::reference::{self, RefOutcome};
use chk_sql::sqlmc::value::show_rows;
use datafusion::catalog::MemTable;
use datafusion::logical_expr::LogicalPlan;
use datafusion::optimizer::{Optimizer, OptimizerRule};
use datafusion::prelude::SessionContext;
use mc_core::serde_json::{Value as Json, json};
use mc_core::{Ctx, Level, rayon::prelude::*, run_check};
use serde::{Deserialize, Serialize};
use std::collections::BTreeMap;
use std::sync::{Arc, Mutex};

type Rule = Arc<dyn OptimizerRule + Send + Sync>;

// ------------------------------------------------------------------ self-test plant

/// `c03 --plant limit` (self-test of the check, never part of a normal run): appends a deliberately
/// wrong rule to the default list — `LIMIT 1` becomes `LIMIT 2` — which the check must report
/// (`alone:planted_limit_one_to_two`, the prefix / minus pipelines containing it, and `full`).
static PLANT: std::sync::OnceLock<Option<String>> = std::sync::OnceLock::new();

#[derive(Debug, Default)]
struct PlantedLimitOneToTwo;

impl OptimizerRule for PlantedLimitOneToTwo {
    fn name(&self) -> &str {
        "planted_limit_one_to_two"
    }
    fn apply_order(&self) -> Option<datafusion::optimizer::ApplyOrder> {
        Some(datafusion::optimizer::ApplyOrder::TopDown)
    }
    fn rewrite(
        &self,
        plan: LogicalPlan,
        _config: &dyn datafusion::optimizer::OptimizerConfig,
    ) -> datafusion::common::Result<datafusion::common::tree_node::Transformed<LogicalPlan>> {
        use datafusion::common::ScalarValue;
        use datafusion::common::tree_node::Transformed;
        use datafusion::logical_expr::{Expr, Limit};
        if let LogicalPlan::Limit(l) = &plan {
            if let Some(Expr::Literal(ScalarValue::Int64(Some(1)), _)) = l.fetch.as_deref() {
                let fetch = Some(Box::new(Expr::Literal(ScalarValue::Int64(Some(2)), None)));
                return Ok(Transformed::yes(LogicalPlan::Limit(Limit { skip: l.skip.clone(), fetch, input: Arc::clone(&l.input) })));
            }
        }
        Ok(Transformed::no(plan))
    }
}

// ------------------------------------------------------------------ pipelines

/// One optimizer pipeline: a name and the rule names (in order).  `session = true` is the
/// production route `SessionState::optimize` with the session's own rule list.
#[derive(Clone, Debug, Serialize, Deserialize, PartialEq, Eq)]
struct Pipeline {
    name: String,
    rules: Vec<String>,
    #[serde(default)]
    session: bool,
}

/// Rank used to attribute a failing (query, database) to its simplest failing pipeline.
fn pipeline_rank(name: &str) -> u8 {
    match name.split(':').next().unwrap_or("") {
        "alone" => 0,
        "prefix" => 1,
        "minus" => 2,
        "full" => 3,
        "session" => 4,
        _ => 5,
    }
}

fn pipelines(rule_names: &[String]) -> Vec<Pipeline> {
    let n = rule_names.len();
    let mut out = vec![Pipeline { name: "none".into(), rules: vec![], session: false }];
    out.push(Pipeline { name: "full".into(), rules: rule_names.to_vec(), session: false });
    out.push(Pipeline { name: "session".into(), rules: rule_names.to_vec(), session: true });
    for r in rule_names {
        out.push(Pipeline { name: format!("alone:{r}"), rules: vec![r.clone()], session: false });
    }
    for k in 2..n {
        out.push(Pipeline { name: format!("prefix:{k}:..{}", rule_names[k - 1]), rules: rule_names[..k].to_vec(), session: false });
    }
    for (i, r) in rule_names.iter().enumerate() {
        let mut rules = rule_names.to_vec();
        rules.remove(i);
        out.push(Pipeline { name: format!("minus:{r}"), rules, session: false });
    }
    out
}

/// Session configuration under which the pipelines run.
#[derive(Clone, Copy, Debug, PartialEq, Eq, Hash, PartialOrd, Ord, Serialize, Deserialize, Default)]
enum Mode {
    /// defaults (target_partitions = 1): `unions_to_filter` and `filter_null_join_keys` are switched off by their options
    #[default]
    Default,
    /// `optimizer.enable_unions_to_filter = true`, `optimizer.filter_null_join_keys = true`: the two option-gated rules act
    GatedRulesOn,
}

// ------------------------------------------------------------------ engine side

/// A session whose three MemTables (1 partition each) can be re-loaded in place.
struct Worker {
    ctx: SessionContext,
    tables: Vec<(String, Arc<MemTable>)>,
    rules: Vec<Rule>,
}

impl Worker {
    fn new(mode: Mode) -> Worker {
        let mut cfg = engine::default_config();
        if mode == Mode::GatedRulesOn {
            cfg.options_mut().optimizer.enable_unions_to_filter = true;
            cfg.options_mut().optimizer.filter_null_join_keys = true;
        }
        let ctx = SessionContext::new_with_config(cfg);
        let mut tables = vec![];
        for t in &Database::empty().tables {
            let mt = Arc::new(MemTable::try_new(engine::arrow_schema(t, TextEncoding::View), vec![vec![]]).expect("MemTable"));
            ctx.register_table(t.name.as_str(), mt.clone()).expect("register_table");
            tables.push((t.name.clone(), mt));
        }
        let mut rules = ctx.state().optimizers().to_vec();
        if PLANT.get().and_then(|p| p.as_deref()) == Some("limit") {
            rules.push(Arc::new(PlantedLimitOneToTwo));
        }
        Worker { ctx, tables, rules }
    }
    fn rule_names(&self) -> Vec<String> {
        self.rules.iter().map(|r| r.name().to_string()).collect()
    }
    fn load(&self, dbv: &Database) {
        for t in &dbv.tables {
            let mt = &self.tables.iter().find(|(n, _)| *n == t.name).expect("table").1;
            let rows: Vec<&chk_sql::sqlmc::Row> = t.rows.iter().collect();
            let batches = if rows.is_empty() { vec![] } else { vec![engine::rows_to_batch(t, &rows, TextEncoding::View)] };
            engine::block_on(async { *mt.batches[0].write().await = batches });
        }
    }
    /// SQL -> analyzed plan P.
    fn analyzed(&self, sql: &str) -> Result<LogicalPlan, String> {
        let plan = engine::plan_sql(&self.ctx, sql)?;
        mc_core::catch(|| {
            let state = self.ctx.state();
            state.analyzer().execute_and_check(plan, state.config().options(), |_, _| {}).map_err(|e| format!("analyzer error: {e}"))
        })
        .unwrap_or_else(Err)
    }
    /// Apply one pipeline to P.  `observer` sees the plan after every rule invocation.
    fn optimize(&self, analyzed: &LogicalPlan, p: &Pipeline, mut observer: impl FnMut(&LogicalPlan, &str)) -> Result<LogicalPlan, String> {
        mc_core::catch(|| {
            // a fresh state per call: fresh alias generator, as for every real query
            let state = self.ctx.state();
            if p.session {
                // production route (re-runs the analyzer, which is idempotent on P)
                return state.optimize(analyzed).map_err(|e| format!("optimizer error: {e}"));
            }
            let mut rules: Vec<Rule> = vec![];
            for name in &p.rules {
                match self.rules.iter().find(|r| r.name() == name) {
                    Some(r) => rules.push(Arc::clone(r)),
                    None => return Err(format!("unknown optimizer rule {name}")),
                }
            }
            if rules.is_empty() {
                return Ok(analyzed.clone());
            }
            Optimizer::with_rules(rules).optimize(analyzed.clone(), &state, |pl, r| observer(pl, r.name())).map_err(|e| format!("optimizer error: {e}"))
        })
        .unwrap_or_else(Err)
    }
    /// Text of the physical plan the default planner builds for `plan` (debugging aid).
    fn physical_text(&self, plan: &LogicalPlan) -> String {
        mc_core::catch(|| {
            engine::block_on(async {
                let state = self.ctx.state();
                match state.query_planner().create_physical_plan(plan, &state).await {
                    Ok(p) => datafusion::physical_plan::displayable(p.as_ref()).indent(false).to_string(),
                    Err(e) => format!("not executable: {e}"),
                }
            })
        })
        .unwrap_or_else(|e| e)
    }
    /// Physical planning (no logical optimization) + execution.
    fn execute(&self, plan: &LogicalPlan) -> Exec {
        let mut planned = false;
        let r = mc_core::catch(|| {
            engine::block_on(async {
                let state = self.ctx.state();
                let phys = state.query_planner().create_physical_plan(plan, &state).await.map_err(|e| format!("{e}"))?;
                planned = true;
                let schema = phys.schema();
                let batches = datafusion::physical_plan::collect(phys, state.task_ctx()).await.map_err(|e| format!("execution error: {e}"))?;
                let schema = batches.first().map(|b| b.schema()).unwrap_or(schema);
                Ok(engine::batches_to_result(schema.as_ref(), &batches))
            })
        })
        .unwrap_or_else(Err);
        match r {
            Ok(q) => Exec::Rows(q),
            Err(e) if e.starts_with("panic:") => Exec::Failed(e),
            Err(e) if !planned => Exec::NotExecutable(e),
            Err(e) => Exec::Failed(e),
        }
    }
}

#[derive(Clone, Debug)]
enum Exec {
    /// the default physical planner rejects the plan
    NotExecutable(#[allow(dead_code)] String),
    /// planned, but execution failed (or something panicked)
    Failed(String),
    Rows(QueryResult),
}

// ------------------------------------------------------------------ oracle

/// Arrow type with the physical encoding erased.
fn logical_type(dt: &DataType) -> String {
    use DataType::*;
    match dt {
        Dictionary(_, v) => logical_type(v),
        RunEndEncoded(_, v) => logical_type(v.data_type()),
        Utf8 | LargeUtf8 | Utf8View => "String".into(),
        Binary | LargeBinary | BinaryView => "Binary".into(),
        List(f) | LargeList(f) | ListView(f) | LargeListView(f) => format!("List<{}>", logical_type(f.data_type())),
        FixedSizeList(f, n) => format!("FixedSizeList<{};{n}>", logical_type(f.data_type())),
        Struct(fs) => format!("Struct<{}>", fs.iter().map(|f| format!("{}:{}", f.name(), logical_type(f.data_type()))).collect::<Vec<_>>().join(",")),
        Map(f, s) => format!("Map<{};{s}>", logical_type(f.data_type())),
        other => format!("{other}"),
    }
}

fn schema_signature(p: &LogicalPlan) -> Vec<(String, String)> {
    p.schema().fields().iter().map(|f| (f.name().clone(), logical_type(f.data_type()))).collect()
}

/// Oracle (i).
fn check_schema(analyzed: &LogicalPlan, optimized: &LogicalPlan) -> Result<(), String> {
    let (a, o) = (schema_signature(analyzed), schema_signature(optimized));
    if a == o { Ok(()) } else { Err(format!("output schema changed: analyzed {a:?} vs optimized {o:?}")) }
}

#[derive(Clone, Copy, Debug, PartialEq, Eq, Serialize, Deserialize)]
enum Class {
    Strict,
    MayFail,
    Ambiguous,
}

fn classify(dbv: &Database, q: &GenQuery) -> Result<Class, String> {
    match reference::evaluate(dbv, &q.ast) {
        RefOutcome::Rows(_) => Ok(if q.flags.may_fail { Class::MayFail } else { Class::Strict }),
        RefOutcome::MayFail(_) => Ok(Class::MayFail),
        RefOutcome::Ambiguous(_) => Ok(Class::Ambiguous),
        RefOutcome::Unsupported(w) => Err(w),
    }
}

/// Stable one-line signature of an optimizer failure: the failing rule and the kind of check that failed
/// (the schema texts, aliases and plan dumps of the full message are dropped).
fn optimizer_error_signature(e: &str) -> String {
    let rule = e.split("Optimizer rule '").nth(1).and_then(|r| r.split('\'').next()).unwrap_or("?");
    let category = if e.starts_with("panic:") {
        "panic"
    } else if e.contains("Failed due to a difference in schemas") {
        "optimizer schema invariant (assert_valid_optimization): the rule changed the plan's schema"
    } else if e.contains("Invalid (non-executable) plan after Optimizer rule") {
        "plan invariant (check_invariants Executable) after the rule"
    } else {
        "error"
    };
    let detail = if e.contains("field_qualifiers") && e.contains("Failed due to a difference in schemas") { " [field qualifiers differ]" } else { "" };
    format!("rule '{rule}': {category}{detail}")
}

fn short(e: &str) -> String {
    e.lines().next().unwrap_or("").chars().take(300).collect()
}

#[derive(Debug, PartialEq)]
enum Agreement {
    Same,
    ToleratedError,
    /// one of the two plans cannot be planned physically: nothing demanded
    NotComparable,
}

/// Oracle (ii) for one (reference run, pipeline run).  The reference always delivered rows.
/// `reference_is_p`: the reference is the unoptimized plan P itself, i.e. P needs no rule to run;
/// then an optimized plan that the physical planner accepts but that fails while running was broken
/// by the rules applied to it.  When P itself cannot run (it needs some rules: decorrelation,
/// `coalesce` -> CASE simplification, ...) a partial pipeline's failure proves nothing.
fn judge(reference: &QueryResult, got: &Exec, flags: &QueryFlags, class: Class, reference_is_p: bool) -> Result<Agreement, (&'static str, String)> {
    match got {
        Exec::NotExecutable(_) => Ok(Agreement::NotComparable),
        Exec::Rows(g) => {
            let spec: OrderSpec = flags.into();
            match compare_engine_results(&reference.rows, &g.rows, &spec) {
                Ok(()) => Ok(Agreement::Same),
                Err(w) => Err(("rows", format!("reference plan vs optimized plan: {w}"))),
            }
        }
        Exec::Failed(_) if class == Class::MayFail => Ok(Agreement::ToleratedError),
        Exec::Failed(_) if !reference_is_p => Ok(Agreement::NotComparable),
        Exec::Failed(e) if e.starts_with("panic:") => Err(("panic", format!("the unoptimized plan returns {} but planning / executing the optimized plan panics: {}", show_rows(&reference.rows), short(e)))),
        Exec::Failed(e) => Err(("error", format!("the unoptimized plan returns {} but the optimized plan fails at run time: {}", show_rows(&reference.rows), short(e)))),
    }
}

// ------------------------------------------------------------------ one query

/// Everything database-independent about one query.
struct Planned {
    analyzed: LogicalPlan,
    /// per pipeline: the optimized plan (or the optimizer's error)
    outs: Vec<Result<LogicalPlan, String>>,
    /// per pipeline: index into `distinct`
    plan_of: Vec<Option<usize>>,
    /// distinct plans; [0] = analyzed
    distinct: Vec<LogicalPlan>,
    /// rules that changed the plan in at least one invocation inside the `full` pipeline
    changed_in_full: Vec<String>,
}

fn plan_query(w: &Worker, sql: &str, pipes: &[Pipeline]) -> Result<Planned, String> {
    let analyzed = w.analyzed(sql)?;
    let mut distinct = vec![analyzed.clone()];
    let mut outs = vec![];
    let mut plan_of = vec![];
    let mut changed_in_full: Vec<String> = vec![];
    for p in pipes {
        let out = if p.name == "full" {
            let mut prev = analyzed.clone();
            w.optimize(&analyzed, p, |pl, rule| {
                if *pl != prev {
                    if !changed_in_full.iter().any(|r| r == rule) {
                        changed_in_full.push(rule.to_string());
                    }
                    prev = pl.clone();
                }
            })
        } else {
            w.optimize(&analyzed, p, |_, _| {})
        };
        let idx = match &out {
            Ok(pl) => Some(match distinct.iter().position(|d| d == pl) {
                Some(i) => i,
                None => {
                    distinct.push(pl.clone());
                    distinct.len() - 1
                }
            }),
            Err(_) => None,
        };
        outs.push(out);
        plan_of.push(idx);
    }
    Ok(Planned { analyzed, outs, plan_of, distinct, changed_in_full })
}

/// Which run is the reference on this database: P itself when it runs, else (P cannot be planned
/// physically, or fails while running) the `full` pipeline's plan when that one runs.
struct DbRuns {
    execs: Vec<Option<Exec>>,
    reference: Option<usize>,
    reference_is_full: bool,
}

fn run_on_db(w: &Worker, pl: &Planned, pipes: &[Pipeline]) -> DbRuns {
    let mut execs: Vec<Option<Exec>> = vec![None; pl.distinct.len()];
    execs[0] = Some(w.execute(&pl.distinct[0]));
    let mut reference = Some(0);
    let mut reference_is_full = false;
    if !matches!(execs[0], Some(Exec::Rows(_))) {
        let full = pipes.iter().position(|p| p.name == "full").and_then(|i| pl.plan_of[i]);
        reference = full;
        reference_is_full = true;
        if let Some(f) = full {
            if execs[f].is_none() {
                execs[f] = Some(w.execute(&pl.distinct[f]));
            }
            if !matches!(execs[f], Some(Exec::Rows(_))) {
                reference = None;
            }
        }
    }
    if reference.is_some() {
        for i in 0..pl.distinct.len() {
            if execs[i].is_none() {
                execs[i] = Some(w.execute(&pl.distinct[i]));
            }
        }
    }
    DbRuns { execs, reference, reference_is_full }
}

// ------------------------------------------------------------------ case / replay

#[derive(Serialize, Deserialize, Clone, Debug)]
struct Case {
    id: String,
    sql: String,
    flags: QueryFlags,
    class: Class,
    db_label: String,
    db: Database,
    pipeline: Pipeline,
    #[serde(default)]
    mode: Mode,
}

fn run_case(c: &Case) -> Result<(), String> {
    let w = Worker::new(c.mode);
    w.load(&c.db);
    let full = Pipeline { name: "full".into(), rules: w.rule_names(), session: false };
    let pipes = vec![Pipeline { name: "none".into(), rules: vec![], session: false }, full, c.pipeline.clone()];
    let pl = plan_query(&w, &c.sql, &pipes)?;
    let head = |what: String| {
        format!(
            "{} on {} under pipeline [{}] ({:?} configuration): {what}\n--- analyzed plan\n{}\n--- optimized plan\n{}",
            c.sql,
            c.db.show(),
            c.pipeline.name,
            c.mode,
            pl.analyzed.display_indent(),
            pl.outs[2].as_ref().map(|p| format!("{}", p.display_indent())).unwrap_or_else(|e| e.clone())
        )
    };
    let opt = match &pl.outs[2] {
        Ok(p) => p,
        Err(e) => return Err(head(format!("the optimizer fails on a valid analyzed plan: {} :: {}", optimizer_error_signature(e), e.lines().take(6).collect::<Vec<_>>().join(" | ").chars().take(900).collect::<String>()))),
    };
    check_schema(&pl.analyzed, opt).map_err(&head)?;
    if c.class == Class::Ambiguous {
        return Ok(());
    }
    let runs = run_on_db(&w, &pl, &pipes);
    let Some(r) = runs.reference else { return Ok(()) };
    let got = runs.execs[pl.plan_of[2].unwrap()].as_ref().unwrap();
    let Some(Exec::Rows(reference)) = runs.execs[r].as_ref() else { return Ok(()) };
    match judge(reference, got, &c.flags, c.class, !runs.reference_is_full) {
        Ok(_) => Ok(()),
        Err((_, what)) => Err(head(format!("{what} [reference = {}]", if runs.reference_is_full { "full default pipeline (P itself cannot be executed)" } else { "unoptimized plan P" }))),
    }
}

fn replay(v: &Json) -> Result<(), String> {
    let c: Case = serde_json::from_value(v.clone()).map_err(|e| format!("bad case: {e}"))?;
    run_case(&c)
}

/// Hand-written additions to grammar G: shapes that the rules which never fire on G look for
/// (LIMIT 0 / OFFSET 0, constant-false filters and joins, duplicated sort / group keys, constant
/// group keys, repeated sub-expressions, UNION branches differing only by their filter).
fn extra_queries() -> Vec<GenQuery> {
    use chk_sql::sqlmc::ast::*;
    let (a, b) = (|| col("a"), || col("b"));
    let (ta, tb, ua, uc) = (|| qcol("t", "a"), || qcol("t", "b"), || qcol("u", "a"), || qcol("u", "c"));
    let mut out: Vec<Query> = vec![];
    // eliminate_limit / propagate_empty_relation
    out.push(Select::new(vec![item(a()), item(b())], table("t")).query().limit(0));
    out.push(Select::new(vec![item(a()), item(b())], table("t")).query().order(vec![OrderItem::asc(a()), OrderItem::asc(b())]).offset(0));
    out.push(Select::new(vec![item_as(count_star(), "n")], subquery_as(Select::new(vec![item(a())], table("t")).query().limit(0), "s")).query());
    out.push(Select::new(vec![item(a())], table("t")).filter(boolean(false)).query().setop(SetOp::Union, true, Select::new(vec![item(a())], table("u")).query()));
    out.push(
        Select::new(
            vec![item_as(ta(), "ta"), item_as(qcol("s", "c"), "sc")],
            join(JoinKind::Left, table("t"), subquery_as(Select::new(vec![item(a()), item(col("c"))], table("u")).filter(boolean(false)).query(), "s"), eq(ta(), qcol("s", "a"))),
        )
        .query(),
    );
    out.push(
        Select::new(
            vec![item_as(ta(), "ta"), item_as(qcol("s", "c"), "sc")],
            join(JoinKind::Inner, table("t"), subquery_as(Select::new(vec![item(a()), item(col("c"))], table("u")).query().limit(0), "s"), eq(ta(), qcol("s", "a"))),
        )
        .query(),
    );
    // eliminate_filter / eliminate_join
    out.push(Select::new(vec![item(a()), item(b())], table("t")).filter(boolean(true)).query());
    out.push(Select::new(vec![item(a()), item(b())], table("t")).filter(eq(int(1), int(1))).query());
    out.push(Select::new(vec![item(a()), item(b())], table("t")).filter(null()).query());
    for k in [JoinKind::Inner, JoinKind::Left, JoinKind::Full] {
        out.push(Select::new(vec![item_as(ta(), "ta"), item_as(uc(), "uc")], join(k, table("t"), table("u"), boolean(false))).query());
    }
    // eliminate_duplicated_expr
    out.push(Select::new(vec![item(a()), item(b())], table("t")).query().order(vec![OrderItem::asc(a()), OrderItem::desc(a()), OrderItem::asc(b())]));
    out.push(Select::new(vec![item(a()), item_as(count_star(), "n")], table("t")).group(vec![a(), a()]).query());
    // eliminate_group_by_constant
    out.push(Select::new(vec![item(a()), item_as(agg(AggFn::Sum, b()), "s")], table("t")).group(vec![a(), txt("x")]).query());
    out.push(Select::new(vec![item_as(count_star(), "n")], table("t")).group(vec![bin(BinOp::Add, int(1), int(1))]).query());
    // common_sub_expression_eliminate
    out.push(
        Select::new(
            vec![item_as(bin(BinOp::Mul, bin(BinOp::Add, a(), b()), int(2)), "x"), item_as(bin(BinOp::Mul, bin(BinOp::Add, a(), b()), int(3)), "y")],
            table("t"),
        )
        .filter(bin(BinOp::Gt, bin(BinOp::Add, a(), b()), int(2)))
        .query(),
    );
    out.push(
        Select::new(vec![item(a()), item_as(agg(AggFn::Sum, bin(BinOp::Add, a(), b())), "s"), item_as(agg(AggFn::Max, bin(BinOp::Add, a(), b())), "m")], table("t"))
            .group(vec![a()])
            .query(),
    );
    // unions_to_filter (acts only with its option on)
    out.push(Select::new(vec![item(a()), item(b())], table("t")).filter(eq(a(), int(1))).query().setop(SetOp::Union, false, Select::new(vec![item(a()), item(b())], table("t")).filter(eq(b(), int(2))).query()));
    out.push(
        Select::new(vec![item(a())], table("t"))
            .filter(bin(BinOp::Gt, a(), int(1)))
            .query()
            .setop(SetOp::Union, false, Select::new(vec![item(a())], table("t")).filter(is_null(b())).query())
            .setop(SetOp::Union, false, Select::new(vec![item(a())], table("t")).filter(eq(b(), int(1))).query()),
    );
    // eliminate_outer_join / push_down_filter around outer joins
    out.push(Select::new(vec![item_as(ta(), "ta"), item_as(tb(), "tb"), item_as(uc(), "uc")], join(JoinKind::Full, table("t"), table("u"), eq(ta(), ua()))).filter(and(is_not_null(tb()), eq(uc(), txt("a")))).query());
    // sorted / limited subquery under an aggregate and under a filter
    out.push(
        Select::new(vec![item(qcol("s", "b"))], subquery_as(Select::new(vec![item(a()), item(b())], table("t")).query().order(vec![OrderItem::asc(a()), OrderItem::asc(b())]).limit(2), "s"))
            .filter(bin(BinOp::Gt, qcol("s", "b"), int(1)))
            .query(),
    );
    out.iter().map(|q| grammar::analyse(12, q)).collect()
}

// ------------------------------------------------------------------ root causes

/// Confirmed engine defects that partial pipelines expose, keyed by root cause.  A failing case is
/// attributed to one only if the optimized plan has the structural ingredient AND the same pipeline
/// followed by the rule that removes exactly that ingredient passes.
///
/// (A) `DefaultPhysicalPlanner` (datafusion/core/src/physical_planner.rs, `LogicalPlan::Join` arm, branch
/// `join_on.is_empty()`): a `null_aware` LeftAnti join whose equality still sits in the join *filter*
/// (what `decorrelate_predicate_subquery` emits before `extract_equijoin_predicate` runs) is planned as a
/// plain NestedLoopJoinExec; the null-aware (NOT IN) semantics is silently dropped.
const CAUSE_NULL_AWARE_NLJ: &str = "null-aware-anti-join-without-equijoin-keys-planned-as-plain-nested-loop-join:DefaultPhysicalPlanner(LogicalPlan::Join,join_on.is_empty())";
/// (B) `EnforceSorting` (datafusion/physical-optimizer/src/ensure_requirements/enforce_sorting/mod.rs,
/// `remove_corresponding_sort_from_sub_plan`, guarded only by "do not remove sorts with fetch"): a SortExec
/// below a GlobalLimitExec (through order-preserving nodes) is removed as unnecessary when no ancestor
/// *requires* the ordering, although the limit makes the order observable.  Reached when a logical
/// `Limit` is not merged into its `Sort` (`push_down_limit` absent).
const CAUSE_SORT_UNDER_LIMIT: &str = "sort-below-limit-removed-as-unnecessary:EnforceSorting(remove_corresponding_sort_from_sub_plan)";

fn has_null_aware_join_without_keys(p: &LogicalPlan) -> bool {
    use datafusion::common::tree_node::{TreeNode, TreeNodeRecursion};
    let mut hit = false;
    let _ = p.apply(|n| {
        if let LogicalPlan::Join(j) = n {
            if j.null_aware && j.on.is_empty() {
                hit = true;
            }
        }
        Ok(TreeNodeRecursion::Continue)
    });
    hit
}

fn has_limit_over_plain_sort(p: &LogicalPlan) -> bool {
    use datafusion::common::tree_node::{TreeNode, TreeNodeRecursion};
    let mut hit = false;
    let _ = p.apply(|n| {
        if let LogicalPlan::Limit(l) = n {
            let mut cur: &LogicalPlan = l.input.as_ref();
            loop {
                match cur {
                    LogicalPlan::Projection(x) => cur = x.input.as_ref(),
                    LogicalPlan::SubqueryAlias(x) => cur = x.input.as_ref(),
                    LogicalPlan::Filter(x) => cur = x.input.as_ref(),
                    LogicalPlan::Sort(srt) => {
                        if srt.fetch.is_none() {
                            hit = true;
                        }
                        break;
                    }
                    _ => break,
                }
            }
        }
        Ok(TreeNodeRecursion::Continue)
    });
    hit
}

fn confirmed_root_cause(case: &Case) -> Option<&'static str> {
    let w = Worker::new(case.mode);
    w.load(&case.db);
    let pl = plan_query(&w, &case.sql, std::slice::from_ref(&case.pipeline)).ok()?;
    let opt = pl.outs[0].as_ref().ok()?;
    let twin_passes = |repair: &str| {
        let mut twin = case.clone();
        twin.pipeline.rules.push(repair.to_string());
        twin.pipeline.name = format!("{} + {repair}", case.pipeline.name);
        run_case(&twin).is_ok()
    };
    if has_null_aware_join_without_keys(opt) && twin_passes("extract_equijoin_predicate") {
        return Some(CAUSE_NULL_AWARE_NLJ);
    }
    if has_limit_over_plain_sort(opt) && twin_passes("push_down_limit") {
        return Some(CAUSE_SORT_UNDER_LIMIT);
    }
    None
}

// ------------------------------------------------------------------ exploration

#[derive(Default, Clone)]
struct RuleStat {
    alone_changed: u64,
    alone_compared_nonempty: u64,
    changed_in_full: u64,
    minus_differs_from_full: u64,
}

struct Fail {
    mode: Mode,
    qi: usize,
    di: usize,
    pi: usize,
    kind: &'static str,
    what: String,
}

fn explore(ctx: &Ctx) {
    let tier = ctx.pick(Tier::Quick, Tier::Thorough);
    let probe = Worker::new(Mode::Default);
    let rule_names = probe.rule_names();
    let pipes = pipelines(&rule_names);
    let mut all = grammar::queries(tier);
    let total = all.len();
    for q in extra_queries() {
        if !all.iter().any(|p| p.sql == q.sql) {
            all.push(q);
        }
    }
    // queries the engine rejects statically with an honest "not implemented" are outside the fragment
    let mut rejected = vec![];
    let qs: Vec<GenQuery> = all
        .into_iter()
        .filter(|q| match probe.analyzed(&q.sql) {
            Err(e) if e.contains("This feature is not implemented") || e.contains("Correlated scalar subquery must be aggregated") => {
                rejected.push(json!({"sql": q.sql, "error": short(&e)}));
                false
            }
            _ => true,
        })
        .collect();
    // databases per query: the 12 rich databases + every database DB(n, D) over the tables the query
    // reads (other tables empty) inside the largest bound of a fixed ladder that fits the budget
    let budget = ctx.pick(60usize, 300usize);
    let domain = db::Domain::quick();
    let mut db_sets: BTreeMap<Vec<String>, Vec<(String, Database)>> = BTreeMap::new();
    let mut db_bounds: Vec<Json> = vec![];
    for q in &qs {
        let mut tables = q.tables.clone();
        tables.sort();
        if db_sets.contains_key(&tables) {
            continue;
        }
        let mut list = db::rich_databases();
        let refs: Vec<&str> = tables.iter().map(|s| s.as_str()).collect();
        // ladder of (max rows per table, max rows in total), most generous first
        let ladder: Vec<(usize, usize)> = vec![(3, 3), (2, 4), (2, 3), (2, 2), (1, 3), (1, 2), (1, 1)];
        if !refs.is_empty() {
            if let Some((n, total)) = ladder.iter().copied().find(|(n, total)| db::count_dbs_bounded(&refs, &vec![*n; refs.len()], *total, &domain) <= budget) {
                db::for_each_db_bounded(&refs, &vec![n; refs.len()], total, &domain, |d| {
                    if d.total_rows() > 0 {
                        list.push((format!("enum:{}", d.show()), d));
                    }
                });
                db_bounds.push(json!({"tables": tables, "max_rows_per_table": n, "max_rows_total": total, "enumerated_databases": list.len() - 12}));
            }
        }
        db_sets.insert(tables, list);
    }
    let dbs_of = |q: &GenQuery| -> &Vec<(String, Database)> {
        let mut tables = q.tables.clone();
        tables.sort();
        &db_sets[&tables]
    };
    ctx.set_extra(
        "bounds",
        json!({
            "queries": qs.len(), "queries_in_grammar_tier": total,
            "optimizer_rules": rule_names, "pipelines": pipes.len(),
            "pipeline_kinds": {"none": 1, "full": 1, "session": 1, "alone": rule_names.len(), "prefix": rule_names.len().saturating_sub(2), "minus": rule_names.len()},
            "databases": "per query: the 12 rich databases + DB(n,D) over the tables the query reads (Domain::quick, other tables empty)",
            "rich_databases": db::rich_databases().iter().map(|(l, _)| l.clone()).collect::<Vec<_>>(),
            "enumerated_database_bounds": db_bounds, "enumerated_database_budget_per_query": budget,
            "config": "default, target_partitions=1, 1 partition / 1 batch MemTables; queries with a join or UNION additionally with optimizer.filter_null_join_keys=true and optimizer.enable_unions_to_filter=true (GatedRulesOn)",
        }),
    );
    ctx.set_extra("engine_rejected_queries", json!(rejected));
    ctx.assume("the SQL corpus (.slt) part of the quantifier is not enumerated by this check: plans come from grammar G only");

    // work items: every query under the default configuration; queries with a join or a UNION also with the
    // two option-gated rules (filter_null_join_keys, unions_to_filter) switched on — they act on nothing else
    let order: Vec<(Mode, usize)> = {
        let mut o: Vec<(Mode, usize)> = (0..qs.len()).map(|i| (Mode::Default, i)).collect();
        o.extend((0..qs.len()).filter(|i| qs[*i].tags.iter().any(|t| t.starts_with("join:") || t.starts_with("setop:union"))).map(|i| (Mode::GatedRulesOn, i)));
        if ctx.seed != 0 {
            let s = ctx.seed;
            o.sort_by_key(|i| mc_core::stable_hash(&(s, *i)));
        }
        o
    };
    ctx.count("work_items(query,configuration)", order.len() as u64);
    let fails: Mutex<Vec<Fail>> = Mutex::new(vec![]);
    let rstats: Mutex<BTreeMap<String, RuleStat>> = Mutex::new(rule_names.iter().map(|r| (r.clone(), RuleStat::default())).collect());
    let kind_stats: Mutex<BTreeMap<String, [u64; 4]>> = Mutex::new(BTreeMap::new()); // per pipeline kind: plans changed, compared, not comparable, same-as-P
    let make_case = |mode: Mode, qi: usize, di: usize, pi: usize, class: Class| Case {
        mode,
        id: qs[qi].id.clone(),
        sql: qs[qi].sql.clone(),
        flags: qs[qi].flags.clone(),
        class,
        db_label: dbs_of(&qs[qi])[di].0.clone(),
        db: dbs_of(&qs[qi])[di].1.clone(),
        pipeline: pipes[pi].clone(),
    };
    let kind_of = |name: &str| name.split(':').next().unwrap_or("").to_string();
    const KINDS: [&str; 6] = ["none", "full", "session", "alone", "prefix", "minus"];
    let kind_idx: Vec<usize> = pipes.iter().map(|p| KINDS.iter().position(|k| *k == kind_of(&p.name)).unwrap_or(0)).collect();
    let full_idx = pipes.iter().position(|p| p.name == "full").unwrap();
    order.par_iter().for_each_init(|| [Worker::new(Mode::Default), Worker::new(Mode::GatedRulesOn)], |ws, &(mode, qi)| {
        let w = &ws[if mode == Mode::Default { 0 } else { 1 }];
        if ctx.out_of_time() || fails.lock().unwrap().len() > 20_000 {
            return;
        }
        let q = &qs[qi];
        let pl = match plan_query(w, &q.sql, &pipes) {
            Ok(p) => p,
            Err(_) => {
                // not plannable at all: C01's business (counted)
                ctx.count("queries_not_plannable", 1);
                return;
            }
        };
        // per-query accumulators, merged once at the end (the shared maps are not touched per database)
        let mut counts: BTreeMap<&'static str, u64> = BTreeMap::new();
        let mut ks = [[0u64; 4]; 6]; // per pipeline kind: plans changed, result comparisons, not comparable, identical to P
        let mut alone_nonempty: BTreeMap<usize, u64> = BTreeMap::new(); // pipeline index -> compared non-empty pairs
        let mut nontrivial_pipes: Vec<bool> = vec![false; pipes.len()];
        let mut local_fail: Vec<Fail> = vec![];
        *counts.entry("analyzed_plans").or_default() += 1;
        *counts.entry("distinct_optimized_plans").or_default() += pl.distinct.len() as u64 - 1;
        // ---- database-independent part: optimizer errors, schema, per-rule change counts
        {
            let mut rs = rstats.lock().unwrap();
            for r in &pl.changed_in_full {
                rs.entry(r.clone()).or_default().changed_in_full += 1;
            }
            for (pi, p) in pipes.iter().enumerate() {
                let changed = pl.plan_of[pi].map(|i| i != 0).unwrap_or(false);
                if changed {
                    ks[kind_idx[pi]][0] += 1;
                } else if pl.plan_of[pi] == Some(0) {
                    ks[kind_idx[pi]][3] += 1;
                }
                if let Some(r) = p.name.strip_prefix("alone:") {
                    if changed {
                        rs.entry(r.to_string()).or_default().alone_changed += 1;
                    }
                }
                if let Some(r) = p.name.strip_prefix("minus:") {
                    if pl.plan_of[pi].is_some() && pl.plan_of[pi] != pl.plan_of[full_idx] {
                        rs.entry(r.to_string()).or_default().minus_differs_from_full += 1;
                    }
                }
                match &pl.outs[pi] {
                    Err(e) => {
                        let kind = if e.starts_with("panic:") { "optimizer-panic" } else { "optimizer-error" };
                        local_fail.push(Fail { mode, qi, di: 0, pi, kind, what: format!("the optimizer fails on a valid analyzed plan: {}", optimizer_error_signature(e)) });
                    }
                    Ok(o) => {
                        if let Err(w) = check_schema(&pl.analyzed, o) {
                            local_fail.push(Fail { mode, qi, di: 0, pi, kind: "schema", what: w });
                        }
                    }
                }
            }
        }
        // ---- per database
        for (di, (label, dbv)) in dbs_of(q).iter().enumerate() {
            if ctx.out_of_time() {
                break;
            }
            let class = match classify(dbv, q) {
                Ok(c) => c,
                Err(_) => {
                    // the reference interpreter cannot classify the pair (ambiguity unknown): not compared
                    *counts.entry("pairs_reference_unsupported_skipped").or_default() += 1;
                    continue;
                }
            };
            match class {
                Class::Strict => *counts.entry("pairs_strict").or_default() += 1,
                Class::MayFail => *counts.entry("pairs_may_fail").or_default() += 1,
                Class::Ambiguous => {
                    *counts.entry("pairs_ambiguous_skipped").or_default() += 1;
                    continue;
                }
            }
            w.load(dbv);
            let runs = run_on_db(w, &pl, &pipes);
            ctx.evals(runs.execs.iter().filter(|e| e.is_some()).count() as u64);
            let Some(r) = runs.reference else {
                *counts.entry("pairs_without_executable_reference(neither_P_nor_full_pipeline_runs)").or_default() += 1;
                continue;
            };
            let Some(Exec::Rows(reference)) = runs.execs[r].as_ref() else { continue };
            *counts
                .entry(if !runs.reference_is_full {
                    "pairs_compared_against_unoptimized_plan"
                } else if matches!(runs.execs[0], Some(Exec::NotExecutable(_))) {
                    "pairs_compared_against_full_pipeline(P_not_plannable_physically)"
                } else {
                    "pairs_compared_against_full_pipeline(P_fails_at_run_time)"
                })
                .or_default() += 1;
            let ref_nonempty = !reference.rows.is_empty();
            for (pi, p) in pipes.iter().enumerate() {
                let Some(idx) = pl.plan_of[pi] else { continue };
                if idx == r {
                    continue; // the reference itself (or a plan identical to it)
                }
                let got = runs.execs[idx].as_ref().unwrap();
                match judge(reference, got, &q.flags, class, !runs.reference_is_full) {
                    Ok(Agreement::NotComparable) => ks[kind_idx[pi]][2] += 1,
                    Ok(a) => {
                        ks[kind_idx[pi]][1] += 1;
                        if a == Agreement::ToleratedError {
                            *counts.entry("may_fail_error_on_one_side_tolerated").or_default() += 1;
                        }
                        if a == Agreement::Same && ref_nonempty {
                            nontrivial_pipes[pi] = true;
                            *counts.entry("nontrivial_comparisons(query,database,pipeline)").or_default() += 1;
                            if p.name.starts_with("alone:") {
                                *alone_nonempty.entry(pi).or_default() += 1;
                            }
                            let h = mc_core::stable_hash(&(&q.sql, label, &p.name));
                            if q.size > 14 && dbv.total_rows() >= 8 && p.name.starts_with("alone:") && h % 13 == 0 && ctx.want_sample() {
                                ctx.sample(json!({
                                    "sql": q.sql, "db": dbv.show(), "pipeline": p.name,
                                    "analyzed": format!("{}", pl.analyzed.display_indent()),
                                    "optimized": format!("{}", pl.distinct[idx].display_indent()),
                                    "result": if let Exec::Rows(x) = got { show_rows(&x.rows) } else { String::new() },
                                }));
                            }
                            if h % 4096 == 0 {
                                *counts.entry("determinism_replays").or_default() += 1;
                                if let Err(e) = run_case(&make_case(mode, qi, di, pi, class)) {
                                    ctx.machinery_error(format!("case passed in the sweep but fails when rebuilt from scratch: {e}"));
                                }
                            }
                        }
                    }
                    Err((kind, what)) => local_fail.push(Fail { mode, qi, di, pi, kind, what }),
                }
            }
        }
        // ---- merge
        for (pi, hit) in nontrivial_pipes.iter().enumerate() {
            if *hit {
                ctx.nontrivial(&(mode, &q.sql, &pipes[pi].name));
            }
        }
        for (k, v) in counts {
            ctx.count(k, v);
        }
        {
            let mut g = kind_stats.lock().unwrap();
            for (k, v) in KINDS.iter().zip(ks.iter()) {
                let e = g.entry(k.to_string()).or_insert([0; 4]);
                for i in 0..4 {
                    e[i] += v[i];
                }
            }
        }
        if !alone_nonempty.is_empty() {
            let mut rs = rstats.lock().unwrap();
            for (pi, n) in alone_nonempty {
                rs.entry(pipes[pi].name["alone:".len()..].to_string()).or_default().alone_compared_nonempty += n;
            }
        }
        if !local_fail.is_empty() {
            fails.lock().unwrap().extend(local_fail);
        }
    });
    if ctx.want_sample() {
        ctx.sample(json!({"sql": qs[0].sql, "pipelines": pipes.len()}));
    }
    let rstats = rstats.into_inner().unwrap();
    ctx.set_extra(
        "per_rule",
        Json::Object(
            rule_names
                .iter()
                .map(|r| {
                    let s = rstats.get(r).cloned().unwrap_or_default();
                    (
                        r.clone(),
                        json!({"plans_changed_alone": s.alone_changed, "alone_compared_nonempty_pairs": s.alone_compared_nonempty, "plans_changed_inside_full_pipeline": s.changed_in_full, "plans_where_removing_it_changes_the_full_result_plan": s.minus_differs_from_full}),
                    )
                })
                .collect(),
        ),
    );
    let never: Vec<&String> = rule_names.iter().filter(|r| rstats.get(*r).map(|s| s.alone_changed == 0 && s.changed_in_full == 0).unwrap_or(true)).collect();
    ctx.set_extra("rules_that_never_changed_a_plan", json!(never));
    ctx.count("rules_that_never_changed_a_plan", never.len() as u64);
    ctx.set_extra(
        "per_pipeline_kind",
        Json::Object(
            kind_stats
                .into_inner()
                .unwrap()
                .into_iter()
                .map(|(k, v)| (k, json!({"plans_changed": v[0], "plans_identical_to_P": v[3], "result_comparisons": v[1], "not_comparable(not_executable)": v[2]})))
                .collect(),
        ),
    );

    // ---- violations: each failing (query, database) is attributed to its simplest failing pipeline
    // (alone < prefix < minus < full < session; within a kind, list order); one violation per (pipeline, kind of failure)
    let fails = fails.into_inner().unwrap();
    ctx.count("failing_evaluations", fails.len() as u64);
    // (1) confirmed root causes: decided once per (configuration, query, pipeline) on its first failing database
    let class_of = |f: &Fail| classify(&dbs_of(&qs[f.qi])[f.di].1, &qs[f.qi]).unwrap_or(Class::Strict);
    let mut cause_memo: BTreeMap<(Mode, usize, usize), Option<&'static str>> = BTreeMap::new();
    for f in &fails {
        if f.kind == "rows" || f.kind == "error" || f.kind == "panic" {
            cause_memo.entry((f.mode, f.qi, f.pi)).or_insert_with(|| confirmed_root_cause(&make_case(f.mode, f.qi, f.di, f.pi, class_of(f))));
        }
    }
    let cause_of = |f: &Fail| cause_memo.get(&(f.mode, f.qi, f.pi)).copied().flatten();
    // key -> (rank, fail, number of failing (query, database) pairs)
    let mut by_key: BTreeMap<String, ((usize, usize, u8, usize), &Fail, std::collections::BTreeSet<(Mode, usize, usize)>)> = BTreeMap::new();
    let mut unexplained: Vec<&Fail> = vec![];
    for f in &fails {
        match cause_of(f) {
            Some(c) => {
                let rank = (f.qi, f.di, pipeline_rank(&pipes[f.pi].name), f.pi);
                let e = by_key.entry(c.to_string()).or_insert((rank, f, Default::default()));
                e.2.insert((f.mode, f.qi, f.di));
                if rank < e.0 {
                    e.0 = rank;
                    e.1 = f;
                }
            }
            None => unexplained.push(f),
        }
    }
    // (2) the rest: each failing (configuration, query, database) is attributed to its simplest failing pipeline
    // (alone < prefix < minus < full < session; within a kind, list order); one violation per (pipeline, kind of failure)
    let mut per_pair: BTreeMap<(Mode, usize, usize, &'static str), &Fail> = BTreeMap::new();
    for f in unexplained {
        let k = (f.mode, f.qi, f.di, f.kind);
        let better = match per_pair.get(&k) {
            Some(g) => (pipeline_rank(&pipes[f.pi].name), f.pi) < (pipeline_rank(&pipes[g.pi].name), g.pi),
            None => true,
        };
        if better {
            per_pair.insert(k, f);
        }
    }
    for f in per_pair.values() {
        let key = if f.kind == "optimizer-error" || f.kind == "optimizer-panic" {
            // one key per failing rule and failed check, whatever the pipeline that exposes it
            format!("{}[{}]", f.kind, f.what.trim_start_matches("the optimizer fails on a valid analyzed plan: "))
        } else {
            format!("optimizer-not-result-preserving[{}{}]:{}", if f.mode == Mode::GatedRulesOn { "gated-rules-on " } else { "" }, pipes[f.pi].name, f.kind)
        };
        let rank = (f.qi, f.di, pipeline_rank(&pipes[f.pi].name), f.pi);
        let e = by_key.entry(key).or_insert((rank, f, Default::default()));
        e.2.insert((f.mode, f.qi, f.di));
        if rank < e.0 {
            e.0 = rank;
            e.1 = f;
        }
    }
    for (key, (_, f, pairs)) in by_key {
        let case = make_case(f.mode, f.qi, f.di, f.pi, class_of(f));
        let n = pairs.len();
        ctx.count(&format!("failing_pairs:{}", key.split(':').next().unwrap_or("")), n as u64);
        ctx.violation(
            key,
            format!("{} on {} [{}] under pipeline [{}]: {} [{n} failing (query, database) pair(s) with this key; this is the simplest]", case.sql, case.db_label, case.db.show(), case.pipeline.name, f.what),
            serde_json::to_value(&case).unwrap(),
        );
    }
}

// ------------------------------------------------------------------ debug helpers

fn debug_main(args: &[String]) -> bool {
    let arg = |name: &str| args.iter().position(|a| a == name).and_then(|i| args.get(i + 1)).cloned();
    if args.iter().any(|a| a == "--rules") {
        let w = Worker::new(Mode::Default);
        for p in pipelines(&w.rule_names()) {
            println!("{}\t{}", p.name, p.rules.len());
        }
        return true;
    }
    if args.iter().any(|a| a == "--df-demo") {
        // Is the `Limit -> (order-preserving node) -> Sort` shape, which only partial pipelines produce from SQL,
        // reachable with the full default optimizer?  DataFrame: sort, filter, limit, aggregate.
        use datafusion::functions_aggregate::expr_fn::sum;
        use datafusion::prelude::{col, lit};
        let w = Worker::new(Mode::Default);
        let label = arg("--db").unwrap_or("skewed".into());
        let dbv = db::rich_databases().into_iter().find(|(l, _)| *l == label).map(|x| x.1).unwrap_or_else(Database::empty);
        w.load(&dbv);
        println!("db: {}", dbv.show());
        let r = mc_core::catch(|| {
            engine::block_on(async {
                let df = w.ctx.table("t").await.unwrap().sort(vec![col("a").sort(true, false), col("b").sort(true, false)]).unwrap().filter(col("b").gt(lit(1))).unwrap().limit(0, Some(1)).unwrap();
                let rows_df = df.clone();
                let agg = df.aggregate(vec![], vec![sum(col("b"))]).unwrap();
                println!("--- logical (unoptimized)\n{}", agg.logical_plan().display_indent());
                println!("--- logical (optimized)\n{}", agg.clone().into_optimized_plan().unwrap().display_indent());
                let phys = agg.clone().create_physical_plan().await.unwrap();
                println!("--- physical\n{}", datafusion::physical_plan::displayable(phys.as_ref()).indent(false));
                (rows_df, agg)
            })
        });
        let r = r.map(|(rows_df, agg)| (engine::run_df(rows_df).map(|r| show_rows(&r.rows)), engine::run_df(agg).map(|r| show_rows(&r.rows))));
        println!("sort(a,b).filter(b>1).limit(1)            -> {:?}", r.as_ref().map(|x| &x.0));
        println!("sort(a,b).filter(b>1).limit(1).sum(b)     -> {:?}", r.as_ref().map(|x| &x.1));
        return true;
    }
    if let Some(sql) = arg("--show") {
        let w = Worker::new(if args.iter().any(|a| a == "--gated-on") { Mode::GatedRulesOn } else { Mode::Default });
        let label = arg("--db").unwrap_or("all_distinct".into());
        let dbv = db::rich_databases().into_iter().find(|(l, _)| *l == label).map(|x| x.1).unwrap_or_else(Database::empty);
        w.load(&dbv);
        let pipes = pipelines(&w.rule_names());
        let want = arg("--pipeline");
        match plan_query(&w, &sql, &pipes) {
            Err(e) => println!("cannot plan: {e}"),
            Ok(pl) => {
                println!("db: {}\n--- analyzed\n{}", dbv.show(), pl.analyzed.display_indent_schema());
                println!("{}  -> {:?}", w.physical_text(&pl.analyzed), w.execute(&pl.analyzed));
                for (pi, p) in pipes.iter().enumerate() {
                    if want.as_ref().map(|x| *x == p.name).unwrap_or(pl.plan_of[pi] != Some(0) && p.name == "full") {
                        match &pl.outs[pi] {
                            Ok(o) => println!("--- {}\n{}\n{}  -> {:?}", p.name, o.display_indent_schema(), w.physical_text(o), w.execute(o)),
                            Err(e) => println!("--- {}\n{e}", p.name),
                        }
                    }
                }
                println!("changed inside full: {:?}; {} distinct plans", pl.changed_in_full, pl.distinct.len());
            }
        }
        return true;
    }
    false
}

fn main() {
    let args = mc_core::extra_args();
    let _ = PLANT.set(args.iter().position(|a| a == "--plant").and_then(|i| args.get(i + 1)).cloned());
    if debug_main(&args) {
        return;
    }
    mc_core::quiet_panics();
    run_check(
        "C03",
        Level::Exploration,
        "every query of grammar G (tier list) analyzed once; the analyzed plan P optimized by every pipeline of {none, full default list, SessionState::optimize, each rule alone, \
         each proper prefix of the default list, default list minus one rule}; every distinct resulting plan is planned physically without further logical optimization and executed on \
         each of the 12 rich databases and every database DB(n,D) over the tables the query reads inside a budgeted bound; oracle: field names + logically equivalent types equal to P's schema, rows equal to P's rows (to the full pipeline's rows when P cannot be planned \
         physically) under the query's ORDER BY / LIMIT comparison rule, optimizer errors are violations; one evaluation = one execution of a distinct plan on a database; \
         non-trivial = distinct (query, pipeline) whose optimized plan differs structurally from the reference plan and agrees with it on at least one database with a non-empty result",
        explore,
        replay,
    );
}
