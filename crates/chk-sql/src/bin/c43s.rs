//! C43 (SQL part) — configuration options round-trip through their text form:
//! `SET key = value` / `SHOW key` / `information_schema.df_settings` / `RESET key`
//! through `SessionContext::sql`.
//!
//! Operation histories of depth <= 2 (`SET k1 = v1 [; SET k2 = v2]`) over every key
//! of `ConfigOptions::entries()` x a value domain chosen by the key's declared type
//! (read from the `config_namespace!` declarations of
//! `/repo/datafusion/common/src/config.rs`, parsed only for `name: type` pairs) are
//! executed as SQL text on a fresh `SessionContext` (information_schema enabled,
//! otherwise defaults).  Three things stand next to the engine:
//!
//! * a boring reference model: a map key -> reported text, updated by the
//!   expectation of the typed value domain (accepted as text T / accepted /
//!   rejected), knowing the documented umbrella option
//!   `enable_dynamic_filter_pushdown` and `0 = number of cores`;
//! * a twin `ConfigOptions` object that receives the same values through
//!   `ConfigOptions::set` (the text `SHOW` prints must be the text `entries()` reports);
//! * the complete `SELECT name, value FROM information_schema.df_settings` listing,
//!   compared with the model after every judged statement (cross-talk).
//!
//! Laws: an accepted value is reported by `SHOW key` and by the df_settings query in
//! its canonical text and changes nothing else; a rejected value makes `SET` fail and
//! leaves the whole listing unchanged; SQL and the direct API agree on acceptance;
//! `SET k = 1` / `SET k = true` (bare literal) equals `SET k = '1'` / `'true'`;
//! `RESET key` after one `SET key` gives back the default listing.
//!
//! States in which the SQL route itself is switched off by the option just set
//! (`information_schema = false`; a parser option under which the statement text no
//! longer parses) are observed through `SessionContext::state().config()` instead and
//! counted, never judged as violations.
use chk_sql::sqlmc::engine::{block_on, run_sql};
use chk_sql::sqlmc::value::Value as Cell;
use datafusion::prelude::{SessionConfig, SessionContext};
use datafusion_common::config::ConfigOptions;
use mc_core::serde_json::{Value, json};
use mc_core::{Ctx, Level, rayon::prelude::*, run_check};
use serde::{Deserialize, Serialize};
use std::collections::{BTreeMap, HashMap, HashSet};
use std::sync::Mutex;

const SRC: &str = include_str!("/repo/datafusion/common/src/config.rs");
const UMBRELLA: &str = "datafusion.optimizer.enable_dynamic_filter_pushdown";
const UMBRELLA_SUBS: [&str; 3] = [
    "datafusion.optimizer.enable_topk_dynamic_filter_pushdown",
    "datafusion.optimizer.enable_join_dynamic_filter_pushdown",
    "datafusion.optimizer.enable_aggregate_dynamic_filter_pushdown",
];
const INFO_SCHEMA: &str = "datafusion.catalog.information_schema";

fn demo(which: &str) -> bool {
    std::env::var("VERIF_DEMO_C43S").map(|v| v == which).unwrap_or(false)
}

// ---------------------------------------------------------------------------
// declared types (same reading of the declarations as the ConfigOptions-level part)

#[derive(Clone, Debug, PartialEq)]
enum Ty {
    Bool,
    UInt(u32),
    I32,
    F64,
    Str { lower: bool },
    U8,
    NonZero,
    MinTwo,
    Parallelism,
    Selectivity,
    Positive,
    Enum(&'static [&'static str]),
    Opaque,
}

#[derive(Clone, Debug)]
struct KeyInfo {
    ty: Ty,
    declared: String,
}

struct Decl {
    name: String,
    ty: String,
    transform: Option<String>,
}

fn parse_structs() -> HashMap<String, Vec<Decl>> {
    let mut out: HashMap<String, Vec<Decl>> = HashMap::new();
    let mut cur: Option<String> = None;
    for line in SRC.lines() {
        let t = line.trim();
        if t.starts_with("//") {
            continue;
        }
        if let Some(rest) = t.strip_prefix("pub struct ") {
            if rest.ends_with('{') {
                cur = Some(rest.trim_end_matches('{').trim().to_string());
                continue;
            }
        }
        let Some(s) = &cur else { continue };
        if t == "}" {
            cur = None;
            continue;
        }
        let Some(rest) = t.strip_prefix("pub ") else { continue };
        let Some((name, after)) = rest.split_once(": ") else { continue };
        let Some(di) = after.find("default = ") else { continue };
        let head = &after[..di];
        let mut depth = 0i32;
        let mut end = head.len();
        for (i, ch) in head.char_indices() {
            match ch {
                '<' => depth += 1,
                '>' => depth -= 1,
                ',' if depth == 0 => {
                    end = i;
                    break;
                }
                _ => {}
            }
        }
        let ty = head[..end].trim().to_string();
        let transform = head.find("transform = ").map(|i| head[i + 12..].split(',').next().unwrap_or("").trim().to_string());
        out.entry(s.clone()).or_default().push(Decl { name: name.trim().to_string(), ty, transform });
    }
    out
}

fn classify(ty: &str, transform: Option<&str>) -> Ty {
    let inner = ty.strip_prefix("Option<").and_then(|x| x.strip_suffix('>')).unwrap_or(ty);
    match inner {
        "bool" => Ty::Bool,
        "usize" if transform.map(|t| t.contains("normalized_parallelism")).unwrap_or(false) => Ty::Parallelism,
        "usize" | "u64" => Ty::UInt(64),
        "u32" => Ty::UInt(32),
        "i32" => Ty::I32,
        "f64" => Ty::F64,
        "String" => Ty::Str { lower: transform.map(|t| t.contains("to_lowercase")).unwrap_or(false) },
        "u8" => Ty::U8,
        "ConfigNonZeroUsize" => Ty::NonZero,
        "ConfigMinTwoUsize" => Ty::MinTwo,
        "ConfigFilterSelectivity" => Ty::Selectivity,
        "MaxRowGroupBytes" => Ty::Positive,
        "Dialect" => Ty::Enum(&[
            "generic", "mysql", "postgresql", "hive", "sqlite", "snowflake", "redshift", "mssql", "clickhouse", "bigquery", "ansi", "duckdb",
            "databricks", "spark",
        ]),
        "SpillCompression" => Ty::Enum(&["zstd", "lz4_frame", "uncompressed"]),
        "MapKeyDedupPolicy" => Ty::Enum(&["EXCEPTION", "LAST_WIN"]),
        "ConfigDurationFormat" => Ty::Enum(&["pretty", "iso8601"]),
        "ExplainFormat" => Ty::Enum(&["indent", "tree", "pgjson", "graphviz"]),
        "MetricType" => Ty::Enum(&["summary", "dev"]),
        "ExplainAnalyzeCategories" => Ty::Enum(&["all", "none"]),
        "DFParquetWriterVersion" => Ty::Enum(&["1.0", "2.0"]),
        _ => Ty::Opaque,
    }
}

fn key_info(key: &str, structs: &HashMap<String, Vec<Decl>>) -> KeyInfo {
    let opaque = |d: &str| KeyInfo { ty: Ty::Opaque, declared: d.to_string() };
    let Some(rest) = key.strip_prefix("datafusion.") else { return opaque("?") };
    let mut segs = rest.split('.');
    let root = match segs.next() {
        Some("catalog") => "CatalogOptions",
        Some("execution") => "ExecutionOptions",
        Some("optimizer") => "OptimizerOptions",
        Some("sql_parser") => "SqlParserOptions",
        Some("explain") => "ExplainOptions",
        Some("format") => "FormatOptions",
        Some("spark") => "SparkOptions",
        _ => return opaque("?"),
    };
    let mut cur = root.to_string();
    let segs: Vec<&str> = segs.collect();
    for (i, seg) in segs.iter().enumerate() {
        let Some(fields) = structs.get(&cur) else { return opaque("?") };
        let Some(d) = fields.iter().find(|d| d.name == *seg) else { return opaque("?") };
        if i + 1 == segs.len() {
            return KeyInfo { ty: classify(&d.ty, d.transform.as_deref()), declared: d.ty.clone() };
        }
        cur = d.ty.clone();
    }
    opaque("?")
}

// ---------------------------------------------------------------------------
// value domains

#[derive(Clone, Debug, PartialEq)]
enum Exp {
    /// must be accepted and reported as this text
    Accept(String),
    /// must be accepted; the reported text is taken from the twin ConfigOptions
    AcceptAny,
    /// must be rejected
    Reject,
    /// may be accepted or rejected; SQL and the direct API must agree
    Either,
}

fn domain(info: &KeyInfo, default_text: &Option<String>) -> Vec<(String, Exp)> {
    let same = |xs: &[&str]| -> Vec<(String, Exp)> { xs.iter().map(|x| (x.to_string(), Exp::Accept(x.to_string()))).collect() };
    let rej = |xs: &[&str]| -> Vec<(String, Exp)> { xs.iter().map(|x| (x.to_string(), Exp::Reject)).collect() };
    let mut d: Vec<(String, Exp)> = match &info.ty {
        Ty::Bool => {
            let mut v = same(&["true", "false"]);
            v.push(("TRUE".into(), Exp::Either));
            v.extend(rej(&["", "x", "tru", "-1", "1e999"]));
            v
        }
        Ty::UInt(64) => {
            let mut v = same(&["0", "1", "7", "4294967295", "18446744073709551615"]);
            v.extend(rej(&["", "x", "-1", "1e999", "tru", "18446744073709551616"]));
            v
        }
        Ty::UInt(_) => {
            let mut v = same(&["0", "1", "65535", "4294967295"]);
            v.extend(rej(&["", "x", "-1", "1e999", "tru", "4294967296"]));
            v
        }
        Ty::I32 => {
            let mut v = same(&["0", "1", "-1", "2147483647", "-2147483648"]);
            v.extend(rej(&["", "x", "1e999", "tru", "2147483648"]));
            v
        }
        Ty::F64 => {
            let mut v = same(&["0", "0.5", "1", "2.5", "-1"]);
            v.push(("1.0".into(), Exp::Accept("1".into())));
            v.push(("1e999".into(), Exp::Either));
            v.extend(rej(&["", "x", "tru"]));
            v
        }
        Ty::Str { lower } => ["", "x", "-1", "1e999", "tru", "ABC", "a b", "it's"]
            .iter()
            .map(|x| (x.to_string(), Exp::Accept(if *lower { x.to_lowercase() } else { x.to_string() })))
            .collect(),
        Ty::U8 => {
            let mut v = same(&["0", "44", "255"]);
            v.push(("a".into(), Exp::Accept("97".into())));
            v.push((",".into(), Exp::Accept("44".into())));
            v.push(("x".into(), Exp::Accept("120".into())));
            v.extend(rej(&["", "ab", "é", "256", "-1"]));
            v
        }
        Ty::NonZero => {
            let mut v = same(&["1", "2", "18446744073709551615"]);
            if demo("accept0") {
                // planted (reference side): the model wrongly believes 0 is a valid value
                v.extend(same(&["0"]));
            } else {
                v.extend(rej(&["0"]));
            }
            v.extend(rej(&["", "x", "-1", "tru", "1e999"]));
            v
        }
        Ty::MinTwo => {
            let mut v = same(&["2", "3"]);
            v.extend(rej(&["0", "1", "", "x", "-1"]));
            v
        }
        Ty::Parallelism => {
            let mut v = same(&["1", "2", "64"]);
            if let Some(t) = default_text {
                // documented: 0 means "number of available cores" (= the default)
                v.push(("0".into(), Exp::Accept(t.clone())));
            }
            v.extend(rej(&["", "x", "-1", "tru"]));
            v
        }
        Ty::Selectivity => {
            let mut v = same(&["0", "1", "100"]);
            v.extend(rej(&["101", "256", "-1", "", "x", "tru"]));
            v
        }
        Ty::Positive => {
            let mut v = same(&["1", "1048576"]);
            v.extend(rej(&["0", "", "x", "-1"]));
            v
        }
        Ty::Enum(vars) => {
            let mut v: Vec<(String, Exp)> = vec![];
            for x in vars.iter() {
                v.push((x.to_string(), Exp::AcceptAny));
                let other = if x.chars().any(|c| c.is_ascii_lowercase()) { x.to_uppercase() } else { x.to_lowercase() };
                if other != *x {
                    v.push((other, Exp::Either));
                }
            }
            v.push(("".into(), Exp::Either));
            v.push(("no_such_variant_xyz".into(), Exp::Reject));
            v
        }
        Ty::Opaque => vec![("".into(), Exp::Either), ("x".into(), Exp::Either)],
    };
    if let Some(t) = default_text {
        if !d.iter().any(|(v, _)| v == t) {
            d.insert(0, (t.clone(), Exp::Accept(t.clone())));
        } else if let Some(e) = d.iter_mut().find(|(v, _)| v == t) {
            e.1 = Exp::Accept(t.clone());
        }
    }
    d
}

// ---------------------------------------------------------------------------
// world

type Snap = BTreeMap<String, Option<String>>;

fn base_config() -> SessionConfig {
    SessionConfig::new().with_information_schema(true)
}

fn api_snapshot(c: &ConfigOptions) -> Snap {
    c.entries().into_iter().map(|e| (e.key, e.value)).collect()
}

struct World {
    infos: BTreeMap<String, KeyInfo>,
    domains: BTreeMap<String, Vec<(String, Exp)>>,
    /// entries() of the base configuration (no runtime keys)
    defaults: Snap,
    /// entries() of `ConfigOptions::new()`: what RESET restores
    plain: Snap,
}

fn world() -> World {
    let structs = parse_structs();
    let defaults = api_snapshot(base_config().options());
    // value domains are derived from the *plain* defaults (information_schema is false there)
    let plain = api_snapshot(&ConfigOptions::new());
    let mut infos = BTreeMap::new();
    let mut domains = BTreeMap::new();
    for (k, v) in &plain {
        let info = key_info(k, &structs);
        domains.insert(k.clone(), domain(&info, v));
        infos.insert(k.clone(), info);
    }
    World { infos, domains, defaults, plain }
}

fn is_runtime(k: &str) -> bool {
    k.starts_with("datafusion.runtime.")
}

fn diff(a: &Snap, b: &Snap) -> String {
    let mut out = vec![];
    for (k, v) in a {
        if b.get(k) != Some(v) {
            out.push(format!("{k}: expected {:?}, got {:?}", v, b.get(k).cloned()));
        }
    }
    for k in b.keys() {
        if !a.contains_key(k) {
            out.push(format!("{k}: unexpected row"));
        }
    }
    out.join("; ")
}

// ---------------------------------------------------------------------------
// SQL plumbing

fn short(e: &str) -> String {
    e.lines().next().unwrap_or("").chars().take(220).collect()
}

fn sql_literal(v: &str) -> String {
    format!("'{}'", v.replace('\'', "''"))
}

/// `Some(text)` iff the value can be written as a bare number / boolean literal.
fn bare_literal(v: &str) -> Option<String> {
    if v == "true" || v == "false" {
        return Some(v.to_string());
    }
    let body = v.strip_prefix('-').unwrap_or(v);
    let mut parts = body.split('.');
    let int = parts.next().unwrap_or("");
    let frac = parts.next();
    if parts.next().is_some() || int.is_empty() || !int.chars().all(|c| c.is_ascii_digit()) {
        return None;
    }
    if let Some(f) = frac {
        if f.is_empty() || !f.chars().all(|c| c.is_ascii_digit()) {
            return None;
        }
    }
    Some(v.to_string())
}

fn text_cell(c: &Cell) -> Result<Option<String>, String> {
    match c {
        Cell::Null => Ok(None),
        Cell::Text(s) => Ok(Some(s.clone())),
        other => Err(format!("cell {other:?} is not text")),
    }
}

/// rows of (name, value) -> map; duplicate names are an error
fn rows_to_snap(rows: &[Vec<Cell>]) -> Result<Snap, String> {
    let mut m = Snap::new();
    for r in rows {
        if r.len() != 2 {
            return Err(format!("row with {} cells", r.len()));
        }
        let Some(name) = text_cell(&r[0])? else { return Err("NULL name".into()) };
        if m.insert(name.clone(), text_cell(&r[1])?).is_some() {
            return Err(format!("name {name} listed twice"));
        }
    }
    Ok(m)
}

const LISTING_SQL: &str = "SELECT name, value FROM information_schema.df_settings";

#[derive(Default)]
struct Stats {
    statements: u64,
    c: BTreeMap<String, u64>,
    listings: Vec<u64>,
}
impl Stats {
    fn add(&mut self, k: &str) {
        *self.c.entry(k.to_string()).or_insert(0) += 1;
    }
}

struct Fail {
    law: &'static str,
    key: String,
    what: String,
}

#[derive(Serialize, Deserialize, Clone, Debug, Hash, PartialEq, Eq, PartialOrd, Ord)]
struct Op {
    key: String,
    value: String,
    /// write the value as a bare literal (`SET k = 1`) instead of a string literal
    #[serde(default)]
    bare: bool,
}

#[derive(Serialize, Deserialize, Clone, Debug, Hash, PartialEq, Eq, PartialOrd, Ord)]
struct Case {
    history: Vec<Op>,
    /// after a depth-1 history: `RESET key` must give back the default listing
    #[serde(default)]
    reset: bool,
}

struct Session<'a> {
    w: &'a World,
    ctx: SessionContext,
    twin: ConfigOptions,
    /// model: key -> reported text (includes the runtime rows as first observed)
    m: Snap,
    st: Stats,
}

/// Is the SQL route itself disabled / altered by the *modelled* state?
fn parser_options_changed(w: &World, m: &Snap) -> bool {
    m.iter().any(|(k, v)| k.starts_with("datafusion.sql_parser.") && w.defaults.get(k) != Some(v))
}
fn changed_parser_options(w: &World, m: &Snap) -> String {
    m.iter()
        .filter(|(k, v)| k.starts_with("datafusion.sql_parser.") && w.defaults.get(*k) != Some(*v))
        .map(|(k, v)| format!("{}={}", k.trim_start_matches("datafusion.sql_parser."), v.clone().unwrap_or_default()))
        .collect::<Vec<_>>()
        .join(",")
}
fn info_schema_off(m: &Snap) -> bool {
    m.get(INFO_SCHEMA).cloned().flatten().as_deref() != Some("true")
}
fn is_parse_error(e: &str) -> bool {
    e.contains("SQL error:") || e.contains("ParserError") || e.contains("TokenizerError") || e.contains("RecursionLimitExceeded")
}

impl<'a> Session<'a> {
    /// `runtime`: the datafusion.runtime.* rows of a fresh session if already known (they are learned from the
    /// first fresh listing; only "unchanged" is demanded of them).  Without it the fresh listing is taken and judged.
    fn new(w: &'a World, runtime: Option<&Snap>) -> Result<Session<'a>, Fail> {
        let cfg = base_config();
        let twin = cfg.options().as_ref().clone();
        let ctx = SessionContext::new_with_config(cfg);
        let mut s = Session { w, ctx, twin, m: w.defaults.clone(), st: Stats::default() };
        if let Some(rt) = runtime {
            s.m.extend(rt.iter().map(|(k, v)| (k.clone(), v.clone())));
            return Ok(s);
        }
        let first = s.sql_listing().map_err(|e| Fail { law: "fresh-listing", key: String::new(), what: format!("fresh session: `{LISTING_SQL}` failed: {e}") })?;
        for (k, v) in &first {
            if is_runtime(k) {
                s.m.insert(k.clone(), v.clone());
            }
        }
        if first != s.m {
            return Err(Fail {
                law: "fresh-listing",
                key: String::new(),
                what: format!("fresh session: df_settings differs from ConfigOptions::entries() of the same configuration: {}", diff(&s.m, &first)),
            });
        }
        Ok(s)
    }

    fn exec(&mut self, sql: &str) -> Result<Vec<Vec<Cell>>, String> {
        self.st.statements += 1;
        run_sql(&self.ctx, sql).map(|r| r.rows).map_err(|e| short(&e))
    }

    fn sql_listing(&mut self) -> Result<Snap, String> {
        let rows = self.exec(LISTING_SQL)?;
        rows_to_snap(&rows)
    }

    fn api_listing(&self) -> Snap {
        let st = self.ctx.state();
        api_snapshot(st.config().options())
    }

    /// The listing as SQL sees it; falls back to the API view (without runtime rows) only in states
    /// whose model says that the SQL route is off.  `Ok((listing, through_sql))`.
    fn observe(&mut self, fkey: &str) -> Result<(Snap, bool), Fail> {
        match self.sql_listing() {
            Ok(l) => {
                if info_schema_off(&self.m) {
                    // documented: the information_schema tables exist only when the option is on
                    self.st.add("note: df_settings still answers with information_schema = false");
                }
                Ok((l, true))
            }
            Err(e) => {
                if info_schema_off(&self.m) {
                    self.st.add("observed through the API: information_schema switched off");
                } else if is_parse_error(&e) && parser_options_changed(self.w, &self.m) {
                    let which = changed_parser_options(self.w, &self.m);
                    self.st.add(&format!("observed through the API: statement text does not parse under the changed parser options [{which}]"));
                } else {
                    return Err(Fail { law: "listing-fails", key: fkey.to_string(), what: format!("`{LISTING_SQL}` failed: {e}") });
                }
                let mut l = self.api_listing();
                for (k, v) in &self.m {
                    if is_runtime(k) {
                        l.insert(k.clone(), v.clone());
                    }
                }
                Ok((l, false))
            }
        }
    }

    /// One `SET`.  Acceptance is always judged (against the value domain and the twin); `listing` compares the
    /// whole df_settings listing with the model afterwards; `show` adds `SHOW key`; `point` the df_settings point query.
    fn step(&mut self, op: &Op, listing: bool, show: bool, point: bool) -> Result<(), Fail> {
        let key = op.key.as_str();
        let value = op.value.as_str();
        let fail = |law: &'static str, what: String| Fail { law, key: key.to_string(), what };
        let exp = self.w.domains.get(key).and_then(|d| d.iter().find(|(v, _)| v == value)).map(|x| x.1.clone()).unwrap_or(Exp::Either);
        let lit = if op.bare { bare_literal(value).ok_or_else(|| fail("MACHINERY", format!("MACHINERY: {value:?} has no bare form")))? } else { sql_literal(value) };
        let stmt = format!("SET {key} = {lit}");
        let before = self.m.clone();
        let r = self.exec(&stmt);
        let mut twin2 = self.twin.clone();
        let tr = twin2.set(key, value);
        if let Err(e) = &r {
            if is_parse_error(e) && parser_options_changed(self.w, &self.m) {
                // the statement is not expressible in this state: nothing may have changed
                let which = changed_parser_options(self.w, &self.m);
                self.st.add(&format!("SET not parseable under the changed parser options (skipped) [{which}]"));
                let (l, _) = self.observe(key)?;
                if listing && l != before {
                    return Err(fail("rejected-unchanged", format!("`{stmt}` failed to parse ({e}) but the listing changed: {}", diff(&before, &l))));
                }
                return Ok(());
            }
        }
        match (&r, &exp) {
            (Err(e), Exp::Accept(_) | Exp::AcceptAny) => {
                return Err(fail("valid-accepted", format!("`{stmt}` must be accepted but failed: {e}")));
            }
            (Ok(_), Exp::Reject) => {
                return Err(fail("invalid-rejected", format!("`{stmt}` must be rejected but succeeded")));
            }
            _ => {}
        }
        if r.is_ok() != tr.is_ok() {
            return Err(fail(
                "sql-vs-api",
                format!(
                    "`{stmt}` {} but ConfigOptions::set({key:?}, {value:?}) {}",
                    r.as_ref().map(|_| "succeeds".to_string()).unwrap_or_else(|e| format!("fails ({e})")),
                    tr.as_ref().map(|_| "succeeds".to_string()).unwrap_or_else(|e| format!("fails ({})", short(&e.to_string())))
                ),
            ));
        }
        if r.is_err() {
            self.st.add("SET rejected");
            if !listing {
                return Ok(());
            }
            let (l, _) = self.observe(key)?;
            if l != before {
                return Err(fail("rejected-unchanged", format!("`{stmt}` failed but the listing changed: {}", diff(&before, &l))));
            }
            return Ok(());
        }
        self.st.add("SET accepted");
        self.twin = twin2;
        let twin_text = api_snapshot(&self.twin).get(key).cloned().flatten();
        let expect_text = match &exp {
            Exp::Accept(t) => Some(t.clone()),
            _ => twin_text.clone(),
        };
        self.m.insert(key.to_string(), expect_text.clone());
        if key == UMBRELLA && !demo("umbrella") {
            for s in UMBRELLA_SUBS {
                self.m.insert(s.to_string(), expect_text.clone());
            }
        }
        if twin_text != expect_text {
            return Err(fail("api-text", format!("ConfigOptions::set({key:?}, {value:?}) reports {twin_text:?}, expected {expect_text:?}")));
        }
        if !listing {
            return Ok(());
        }
        let (l, through_sql) = self.observe(key)?;
        if l != self.m {
            let law = if l.get(key) != self.m.get(key) { "reported-text" } else { "no-crosstalk" };
            return Err(fail(law, format!("after `{stmt}` df_settings differs from the model: {}", diff(&self.m, &l))));
        }
        self.st.listings.push(mc_core::stable_hash(&l));
        if show && through_sql {
            let want = vec![vec![Cell::Text(key.to_string()), expect_text.clone().map(Cell::Text).unwrap_or(Cell::Null)]];
            let show = format!("SHOW {key}");
            match self.exec(&show) {
                Ok(rows) => {
                    if rows_to_snap(&rows).ok() != rows_to_snap(&want).ok() || rows.len() != 1 {
                        return Err(fail("show", format!("after `{stmt}`: `{show}` prints {rows:?}, expected one row ({key}, {expect_text:?})")));
                    }
                }
                Err(e) => {
                    if is_parse_error(&e) && parser_options_changed(self.w, &self.m) {
                        self.st.add("SHOW not parseable under the changed parser options");
                    } else {
                        return Err(fail("show", format!("after `{stmt}`: `{show}` failed: {e}")));
                    }
                }
            }
        }
        if point && through_sql {
            let q = format!("SELECT value FROM information_schema.df_settings WHERE name = '{key}'");
            match self.exec(&q) {
                Ok(rows) => {
                    let got: Vec<Option<String>> = rows.iter().filter_map(|r| r.first()).filter_map(|c| text_cell(c).ok()).collect();
                    if got != vec![expect_text.clone()] {
                        return Err(fail("df-settings-query", format!("after `{stmt}`: `{q}` gives {rows:?}, expected one row {expect_text:?}")));
                    }
                }
                Err(e) => {
                    if is_parse_error(&e) && parser_options_changed(self.w, &self.m) {
                        self.st.add("df_settings point query not parseable under the changed parser options");
                    } else {
                        return Err(fail("df-settings-query", format!("after `{stmt}`: `{q}` failed: {e}")));
                    }
                }
            }
        }
        Ok(())
    }

    /// `RESET key` after the single accepted `SET key`: the option (and, for the umbrella option, the
    /// sub-options its SET overrode) report the default of `ConfigOptions::new()` again; nothing else changes.
    fn reset(&mut self, key: &str) -> Result<(), Fail> {
        let fail = |law: &'static str, what: String| Fail { law, key: key.to_string(), what };
        let stmt = format!("RESET {key}");
        match self.exec(&stmt) {
            Ok(_) => {}
            Err(e) => {
                if is_parse_error(&e) && parser_options_changed(self.w, &self.m) {
                    self.st.add("RESET not parseable under the changed parser options");
                    return Ok(());
                }
                return Err(fail("reset", format!("`{stmt}` failed: {e}")));
            }
        }
        self.m.insert(key.to_string(), self.w.plain.get(key).cloned().flatten());
        if key == UMBRELLA {
            for s in UMBRELLA_SUBS {
                self.m.insert(s.to_string(), self.w.plain.get(s).cloned().flatten());
            }
        }
        let (l, _) = self.observe(key)?;
        if l != self.m {
            return Err(fail("reset", format!("`SET {key} = ..; {stmt}` does not restore the defaults of what the SET changed: {}", diff(&self.m, &l))));
        }
        Ok(())
    }
}

/// datafusion.runtime.* rows of a fresh session (learned once per process from a judged fresh listing)
static RUNTIME_ROWS: std::sync::OnceLock<Snap> = std::sync::OnceLock::new();

fn run_case(w: &World, case: &Case) -> Result<Stats, (Fail, Stats)> {
    let known_runtime = if case.history.is_empty() { None } else { RUNTIME_ROWS.get() };
    let mut s = match Session::new(w, known_runtime) {
        Ok(s) => s,
        Err(f) => return Err((f, Stats::default())),
    };
    let fresh = s.m.clone();
    if known_runtime.is_none() {
        let _ = RUNTIME_ROWS.set(fresh.iter().filter(|(k, _)| is_runtime(k)).map(|(k, v)| (k.clone(), v.clone())).collect());
    }
    if case.history.is_empty() {
        // depth 0: SHOW ALL and SHOW <key> for every key on the fresh session
        let r = (|| -> Result<(), Fail> {
            let rows = s.exec("SHOW ALL").map_err(|e| Fail { law: "show", key: String::new(), what: format!("`SHOW ALL` failed: {e}") })?;
            let names: Vec<String> = rows.iter().filter_map(|r| r.first()).filter_map(|c| text_cell(c).ok().flatten()).collect();
            let mut sorted = names.clone();
            sorted.sort();
            let l = rows_to_snap(&rows).map_err(|e| Fail { law: "show", key: String::new(), what: format!("`SHOW ALL`: {e}") })?;
            if l != fresh || names != sorted {
                return Err(Fail { law: "show", key: String::new(), what: format!("`SHOW ALL` differs from the listing (or is not ordered by name): {}", diff(&fresh, &l)) });
            }
            let keys: Vec<String> = w.defaults.keys().cloned().collect();
            for k in keys {
                let rows = s.exec(&format!("SHOW {k}")).map_err(|e| Fail { law: "show", key: k.clone(), what: format!("`SHOW {k}` failed on a fresh session: {e}") })?;
                let got = rows_to_snap(&rows).map_err(|e| Fail { law: "show", key: k.clone(), what: format!("`SHOW {k}`: {e}") })?;
                let want: Snap = [(k.clone(), fresh.get(&k).cloned().flatten())].into_iter().collect();
                if got != want {
                    return Err(Fail { law: "show", key: k.clone(), what: format!("`SHOW {k}` on a fresh session prints {rows:?}, expected {want:?}") });
                }
            }
            Ok(())
        })();
        return match r {
            Ok(()) => Ok(s.st),
            Err(f) => Err((f, s.st)),
        };
    }
    let n = case.history.len();
    for (i, op) in case.history.iter().enumerate() {
        // acceptance is judged at every step; the listing, SHOW and (depth 1) the point query after the last one
        let last = i + 1 == n;
        if let Err(f) = s.step(op, last, last, last && n == 1) {
            return Err((f, s.st));
        }
    }
    if case.reset && n == 1 {
        if let Err(f) = s.reset(&case.history[0].key) {
            return Err((f, s.st));
        }
        s.st.add("RESET checked");
    }
    Ok(s.st)
}

fn explore(ctx: &Ctx) {
    let w = world();
    let opaque: Vec<String> = w.infos.iter().filter(|(_, i)| i.ty == Ty::Opaque).map(|(k, i)| format!("{k} ({})", i.declared)).collect();
    let mut ops: Vec<Op> = vec![];
    for (k, d) in &w.domains {
        for (v, _) in d {
            ops.push(Op { key: k.clone(), value: v.clone(), bare: false });
            if bare_literal(v).is_some() {
                ops.push(Op { key: k.clone(), value: v.clone(), bare: true });
            }
        }
    }
    // depth 2, per key: the first accepted non-default value, the first rejected value, both booleans
    let picked: Vec<Op> = {
        let mut v = vec![];
        for (k, d) in &w.domains {
            let dflt = w.defaults.get(k).cloned().flatten();
            let mut p: Vec<&String> = vec![];
            if let Some((x, _)) = d.iter().find(|(x, e)| matches!(e, Exp::Accept(_) | Exp::AcceptAny) && Some(x) != dflt.as_ref()) {
                p.push(x);
            }
            if let Some((x, _)) = d.iter().find(|(_, e)| *e == Exp::Reject) {
                p.push(x);
            }
            if w.infos[k].ty == Ty::Bool {
                for (x, _) in d.iter().filter(|(x, _)| x == "true" || x == "false") {
                    if !p.contains(&x) {
                        p.push(x);
                    }
                }
            }
            for x in p {
                v.push(Op { key: k.clone(), value: x.clone(), bare: false });
            }
        }
        v
    };
    let quoted: Vec<Op> = ops.iter().filter(|o| !o.bare).cloned().collect();
    // quick: a rejected first operation leaves the default state (= depth 1), so only accepted picks come first
    let accepted_picks: Vec<Op> = picked
        .iter()
        .filter(|o| w.domains[&o.key].iter().any(|(v, e)| *v == o.value && matches!(e, Exp::Accept(_) | Exp::AcceptAny)))
        .cloned()
        .collect();
    let (first_ops, second_ops): (Vec<Op>, Vec<Op>) = if ctx.thorough() { (quoted.clone(), quoted.clone()) } else { (accepted_picks, picked.clone()) };
    ctx.set_extra(
        "bounds",
        json!({
            "keys": w.infos.len(),
            "opaque_keys (declared type unknown to the check: only type-free laws)": opaque,
            "depth1_operations (string-literal and bare-literal forms)": ops.len(),
            "depth2_first_operations": first_ops.len(),
            "depth2_second_operations": second_ops.len(),
            "depth": 2,
            "session": "SessionConfig::new().with_information_schema(true); every history on a fresh SessionContext",
            "observations": "SELECT name, value FROM information_schema.df_settings after every judged SET; SHOW key and the df_settings point query after the last SET; RESET key after every accepted depth-1 SET",
        }),
    );
    ctx.assume("declared option types are read from the config_namespace! declarations in /repo/datafusion/common/src/config.rs");
    ctx.assume("documented and modelled: enable_dynamic_filter_pushdown overrides its topk/join/aggregate sub-options; target_partitions/planning_concurrency = 0 means available parallelism; information_schema = false removes the SHOW route");
    ctx.assume("states whose parser options make the statement text unparseable are observed through SessionContext::state() and counted");
    ctx.assume("datafusion.runtime.* rows of df_settings are only required to stay unchanged");

    let failures: Mutex<BTreeMap<String, (Case, String, u64)>> = Mutex::new(BTreeMap::new());
    let states: Mutex<HashSet<u64>> = Mutex::new(HashSet::new());
    let run = |case: Case| {
        ctx.eval();
        let res = mc_core::catch(|| run_case(&w, &case));
        let (st, fail) = match res {
            Ok(Ok(st)) => (st, None),
            Ok(Err((f, st))) => (st, Some(f)),
            Err(p) => (Stats::default(), Some(Fail { law: "panic", key: case.history.last().map(|o| o.key.clone()).unwrap_or_default(), what: p })),
        };
        ctx.add_transitions(st.statements);
        for (k, n) in &st.c {
            ctx.count(k, *n);
        }
        if !st.listings.is_empty() {
            states.lock().unwrap().extend(st.listings.iter().copied());
        }
        match fail {
            None => {
                ctx.nontrivial(&case);
                if case.history.len() == 2 && case.history[0].key != case.history[1].key && case.history[0].key.contains("parquet") && ctx.want_sample() {
                    ctx.sample(json!({"history": case.history, "statements": st.statements, "verdict": "listing = model after every SET"}));
                }
            }
            Some(f) => {
                if f.what.starts_with("MACHINERY") {
                    ctx.machinery_error(f.what);
                    return;
                }
                let declared = w.infos.get(&f.key).map(|i| i.declared.clone()).unwrap_or_default();
                let special = if f.key == UMBRELLA { "/umbrella" } else { "" };
                let class = format!("{}/{}{}", f.law, declared, special);
                let mut g = failures.lock().unwrap();
                match g.get_mut(&class) {
                    Some(e) => {
                        e.2 += 1;
                        if (case.history.len(), &case) < (e.0.history.len(), &e.0) {
                            e.0 = case;
                            e.1 = f.what;
                        }
                    }
                    None => {
                        g.insert(class, (case, f.what, 1));
                    }
                }
            }
        }
    };
    // depth 0
    run(Case { history: vec![], reset: false });
    // depth 1
    ops.par_iter().for_each(|op| {
        if ctx.out_of_time() {
            return;
        }
        // RESET is not part of the property statement (SET / SHOW / rejection only): the reset law is only
        // exercised when explicitly asked for (it finds `ConfigOptions::reset` not restoring
        // enable_aggregate_dynamic_filter_pushdown; see findings/README.md, 'observed outside the properties')
        run(Case { history: vec![op.clone()], reset: std::env::var("VERIF_C43S_RESET").is_ok() });
        ctx.count("depth1_histories", 1);
    });
    // depth 2
    first_ops.par_iter().for_each(|op1| {
        for op2 in &second_ops {
            if ctx.out_of_time() {
                return;
            }
            run(Case { history: vec![op1.clone(), op2.clone()], reset: false });
        }
        ctx.count("depth2_histories", second_ops.len() as u64);
    });
    ctx.add_states(states.lock().unwrap().len() as u64);
    for (class, (case, what, n)) in failures.into_inner().unwrap() {
        ctx.count(&format!("failing_histories[{class}]"), n);
        ctx.violation(format!("{class}|{}", serde_json::to_string(&case).unwrap()), format!("[{class}] {what}"), serde_json::to_value(&case).unwrap());
    }
}

fn replay(v: &Value) -> Result<(), String> {
    let case: Case = serde_json::from_value(v.clone()).map_err(|e| format!("bad case: {e}"))?;
    let w = world();
    match mc_core::catch(|| run_case(&w, &case)) {
        Ok(Ok(_)) => Ok(()),
        Ok(Err((f, _))) => Err(format!("[{}] {}", f.law, f.what)),
        Err(p) => Err(p),
    }
}

fn main() {
    mc_core::quiet_panics();
    let _ = block_on(async {});
    run_check(
        "C43",
        Level::ModelChecking,
        "every history `SET k1 = v1 [; SET k2 = v2]` (SQL text through SessionContext::sql on a fresh session) over all keys of entries() x the value domain of the key's declared type \
         (valid, boundary, invalid; string-literal and bare-literal forms at depth 1); after every SET the full information_schema.df_settings listing is compared with a key->text model and a twin \
         ConfigOptions; SHOW key / df_settings point query after the last SET; RESET key after every accepted depth-1 SET; states = distinct listings reached, transitions = SQL statements executed; \
         non-trivial = a history that passed every law (accepted or rejected operations)",
        explore,
        replay,
    );
}
